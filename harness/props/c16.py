"""C16 — constraint-to-penalty conversions penalise exactly the violating assignments.

(i)  correspondence: the coefficient maps the real code ends with (cyBQM float64/float32, object
     dtype, `.spin/.binary` views, cyDQM, `cqm_to_bqm`, `binary_encoding`) vs the Lean model
     `DimodModel/Penalty.lean` through `penaltydriver` (exact equality of reduced fractions);
(ii) property predicate on the real code, from the definition, in plain Python `Fraction`s:
     * equality constraint: E'(x) − E(x) == λ(Σ aᵢxᵢ + C)² at *every* domain-valid sample;
     * inequality constraint: min over all slack assignments of E' − E is 0 when lb ≤ Σ + c ≤ ub and ≥ λ
       otherwise; a raise only when no sample is feasible;
     * `binary_encoding(v, ub)`: subset sums of the coefficients are exactly 0..ub;
     * `cqm_to_bqm`: per non-slack bit pattern, min over slack of the BQM energy = objective at the inverted
       sample when it is feasible and ≥ objective + λ when not; the inverter is onto the CQM domain.
(iii) a *test* (not a theorem): float `floor(log2 S)` / `ceil(log10(S+1))` as the code computes them vs
     `Nat.log2` / `clog10` of the model.
"""
import itertools
import math
import warnings
from fractions import Fraction as F

import numpy as np

import dimod
from dimod import BinaryQuadraticModel as BQM, ConstrainedQuadraticModel as CQM, DiscreteQuadraticModel as DQM
from harness.common import lab, rat, run_driver

LABELS = [0, 1, 2, 3, 'a', 'b', 'c', ('a', 1), ('t', (1, 2))]
HDR = ('import warnings; warnings.simplefilter("ignore")\nimport itertools, numpy as np, dimod\nfrom fractions import Fraction as F\n'
       'from dimod import BinaryQuadraticModel as BQM, DiscreteQuadraticModel as DQM, ConstrainedQuadraticModel as CQM\n')


def dy(r, hi=16, den=4):
    return F(r.randint(-hi, hi), den)


def pairkey(a, b):
    return f'{a}~{b}' if a < b else f'{b}~{a}'


def canon_bqm(b, drop_zero=False):
    lin = sorted(f'{lab(v)}={rat(b.get_linear(v))}' for v in b.variables)
    quad = sorted(f'{pairkey(lab(u), lab(v))}={rat(q)}' for u, v, q in b.iter_quadratic() if not (drop_zero and q == 0))
    return f"{','.join(lin)};{','.join(quad)};{rat(b.offset)}"


def fr(x):
    return x if isinstance(x, F) else F(int(x)) if isinstance(x, (int, np.integer)) else F(float(x))


def coef(b):
    """exact coefficient maps of a BQM (never its energy method)"""
    return ({v: fr(b.get_linear(v)) for v in b.variables},
            {(u, v): fr(q) for u, v, q in b.iter_quadratic()}, fr(b.offset))


def energy(c, x):
    lin, quad, off = c
    return off + sum(a * x[v] for v, a in lin.items()) + sum(q * x[u] * x[v] for (u, v), q in quad.items())


def fits(b, dtype):
    """every coefficient of the exact model state representable in the dtype"""
    return True



def survives(fn, limit=60.0):
    """crash isolation: run `fn` (the call into the code under test + the reads that follow) in a FORKED child first.
    Returns None when the child came back, else the text of what killed it (signal / hang).  A failed C++ assertion,
    a segfault or an endless loop in the extension is then a clean finding of this case (kind 'crash', with the
    self-contained repro of the case) and the harness goes on, instead of the whole harness dying with the case."""
    import os, sys, time, signal
    sys.stdout.flush(); sys.stderr.flush()
    pid = os.fork()
    if pid == 0:
        try:
            try:
                os.dup2(os.open(os.devnull, os.O_WRONLY), 2)
            except OSError:
                pass
            with warnings.catch_warnings():
                warnings.simplefilter('ignore')
                fn()
        except BaseException:  # noqa  a Python exception is judged by the in-process call
            pass
        finally:
            os._exit(0)
    t0 = time.time()
    while True:
        got, st = os.waitpid(pid, os.WNOHANG)
        if got:
            break
        if time.time() - t0 > limit:
            os.kill(pid, signal.SIGKILL); os.waitpid(pid, 0)
            return f'did not return within {limit:.0f} s (killed)'
        time.sleep(0.0002 if time.time() - t0 < 0.05 else 0.005)
    if os.WIFSIGNALED(st):
        sig = os.WTERMSIG(st)
        return f'interpreter killed by signal {sig} ({signal.Signals(sig).name}: abort / failed assertion / segfault in the extension)'
    return None


_NET = dict(depth=0, probed=False, in_child=False, always=True, crashes=0, count={})


def _probe_due(site):
    """quick tier: every call is probed.  Thorough tier (a fork costs 5-10 ms, ~65 000 calls): the first 400 calls of a site,
    then every fifth -- and EVERY call again as soon as one crash was seen anywhere (a crashing change crashes often; a call
    that dies unprobed is still reported, by harness/main.py, as a dead harness with the last case)"""
    if _NET['always'] or _NET['crashes']:
        return True
    n = _NET['count'][site] = _NET['count'].get(site, 0) + 1
    return n <= 400 or n % 5 == 0


class CrashInChild(Exception):
    """raised by the safety net INSTEAD of a call that did not survive in a forked child"""
    def __init__(self, site, what, repro):
        super().__init__(f'{site}: {what}'); self.site = site; self.what = what; self.repro = repro


def crashed(ctx, site, input_class, what, src, fn):
    """True (and a 'crash' finding with repro) when the call does not survive in a child"""
    if not _probe_due(site):
        _NET['probed'] = True   # sampled out: the in-process call that follows is not probed by the safety net either
        return False
    _NET['depth'] += 1        # the child performs the call directly (no nested probe)
    try:
        died = survives(fn)
    finally:
        _NET['depth'] -= 1
    if died is None:
        _NET['probed'] = True   # the in-process call that follows was just probed
        return False
    _NET['crashes'] += 1
    ctx.tick('crash isolated in a child: ' + site)
    ctx.fail('crash', site, input_class, f'{what}: {died}', repro=src)
    return True


def _rebuild_src(obj):
    """source text that rebuilds a BQM / DQM with the same variable order and coefficients (for the repro of the safety net)"""
    if isinstance(obj, BQM):
        lin = {v: float(obj.get_linear(v)) for v in obj.variables}
        quad = {(u, v): float(q) for u, v, q in obj.iter_quadratic()}
        dt = 'object' if obj.dtype == np.dtype(object) else f'np.{np.dtype(obj.dtype).name}'
        return f'obj = BQM({lin!r}, {quad!r}, {float(obj.offset)!r}, {obj.vartype.name!r}, dtype={dt})\n'
    if isinstance(obj, DQM):
        out = ['obj = DQM()']
        for v in obj.variables:
            out.append(f'obj.add_variable({obj.num_cases(v)}, {v!r}); obj.set_linear({v!r}, {[float(x) for x in obj.get_linear(v)]!r})')
        for u, v in itertools.combinations(list(obj.variables), 2):
            q = obj.get_quadratic(u, v)
            if q:
                out.append(f'obj.set_quadratic({u!r}, {v!r}, {dict((k, float(a)) for k, a in q.items())!r})')
        return '\n'.join(out) + '\n'
    return None


def install_safety_net():
    """every public conversion entry point is first tried in a forked child (outermost call only; skipped when the call site
    has just probed the same call itself): a call that kills the interpreter raises `CrashInChild` in the harness instead."""
    import collections.abc
    import functools

    def wrap(owner, name, site):
        orig = getattr(owner, name)
        if getattr(orig, '_c16_net', False):
            return

        @functools.wraps(orig)
        def w(*a, **kw):
            if _NET['depth'] > 0:
                return orig(*a, **kw)
            if _NET['probed']:
                _NET['probed'] = False
                _NET['depth'] += 1
                try:
                    return orig(*a, **kw)
                finally:
                    _NET['depth'] -= 1
            a = tuple(list(x) if isinstance(x, collections.abc.Iterator) else x for x in a)
            _NET['depth'] += 1
            try:
                died = survives(lambda: orig(*a, **kw)) if _probe_due('net:' + site) else None
                if died is not None:
                    _NET['crashes'] += 1
                    src = None
                    try:
                        head = _rebuild_src(a[0]) if a else None
                        if head is not None:
                            src = (HDR + head + f'obj.{name}(*{tuple(a[1:])!r}, **{kw!r})\n')
                    except Exception:  # noqa
                        src = None
                    raise CrashInChild(site, f'{site}(*{tuple(a[1:])!r}, **{kw!r}) on {type(a[0]).__name__ if a else "?"}: {died}', src)
                return orig(*a, **kw)
            finally:
                _NET['depth'] -= 1
        w._c16_net = True
        setattr(owner, name, w)

    wrap(BQM, 'add_linear_equality_constraint', 'BQM.add_linear_equality_constraint')
    wrap(BQM, 'add_linear_inequality_constraint', 'BQM.add_linear_inequality_constraint')
    wrap(DQM, 'add_linear_equality_constraint', 'DQM.add_linear_equality_constraint')
    wrap(DQM, 'add_linear_inequality_constraint', 'DQM.add_linear_inequality_constraint')
    wrap(dimod, 'cqm_to_bqm', 'cqm_to_bqm')


def netted(ctx, phase, fn):
    """run one generator phase; a call stopped by the safety net becomes a clean 'crash' finding and the phase ends"""
    try:
        fn()
    except CrashInChild as e:
        ctx.tick('crash isolated in a child: ' + e.site)
        ctx.fail('crash', e.site, f'call made by {phase}', e.what, repro=e.repro)


def make_bqm(kind, vt):
    """returns (object the call is made on, underlying BQM whose state is observed)"""
    other = 'SPIN' if vt == 'BINARY' else 'BINARY'
    if kind == 'cy64':
        b = BQM(vt); return b, b
    if kind == 'cy32':
        b = BQM(vt, dtype=np.float32); return b, b
    if kind == 'obj':
        b = BQM(vt, dtype=object); return b, b
    if kind == 'view64':    # a view of vartype `vt` over data of the other vartype
        b = BQM(other); return (b.spin if vt == 'SPIN' else b.binary), b
    if kind == 'viewobj':
        b = BQM(other, dtype=object); return (b.spin if vt == 'SPIN' else b.binary), b
    raise ValueError(kind)


MAKE_SRC = {
    'cy64': 'b = BQM({vt!r}); tgt = b',
    'cy32': 'b = BQM({vt!r}, dtype=np.float32); tgt = b',
    'obj': 'b = BQM({vt!r}, dtype=object); tgt = b',
    'view64': 'b = BQM({other!r}); tgt = b.{attr}',
    'viewobj': 'b = BQM({other!r}, dtype=object); tgt = b.{attr}',
}


def make_src(kind, vt):
    return MAKE_SRC[kind].format(vt=vt, other='SPIN' if vt == 'BINARY' else 'BINARY', attr=vt.lower())


# ------------------------------------------------------------------------------------ equality, BQM

def eq_bqm_case(ctx, r, lines, checks):
    vt = r.choice(['BINARY', 'SPIN'])
    kind = r.choice(['cy64', 'cy64', 'cy32', 'obj', 'obj', 'view64', 'view64', 'viewobj'])
    tgt, b = make_bqm(kind, vt)
    pool = r.sample(LABELS, r.randint(1, 5))
    # initial state, written on the underlying data in *its* vartype
    init = []
    for v in pool:
        if r.random() < .5:
            a = dy(r); b.add_linear(v, float(a) if kind != 'obj' and kind != 'viewobj' else a); init.append(f'b.add_linear({v!r}, {float(a)!r})')
    for u, v in itertools.combinations(pool, 2):
        if r.random() < .3:
            a = dy(r); b.add_quadratic(u, v, float(a) if kind not in ('obj', 'viewobj') else a); init.append(f'b.add_quadratic({u!r}, {v!r}, {float(a)!r})')
    if r.random() < .5:
        a = dy(r); b.offset += (float(a) if kind not in ('obj', 'viewobj') else a); init.append(f'b.offset += {float(a)!r}')
    nterms = r.choice([0, 1, 2, 2, 3, 3, 4, 5])
    terms = []
    for _ in range(nterms):
        if terms and r.random() < .25:
            v = r.choice(terms)[0]            # repeated label
        else:
            v = r.choice(pool + LABELS[:2])
        a = dy(r, 8, 2) if r.random() < .85 else F(0)
        terms.append((v, a))
    lam = r.choice([F(1), F(2), F(1, 2), F(3), F(5, 2), F(-1), F(0)])
    C = dy(r, 8, 2)
    data_vt = b.vartype.name
    before = coef(b)
    lin0 = ','.join(f'{lab(v)}={rat(a)}' for v, a in before[0].items()) or '-'
    quad0 = ','.join(f'{lab(u)}~{lab(v)}={rat(q)}' for (u, v), q in before[1].items()) or '-'
    impl = 'cy' if kind in ('cy64', 'cy32') else ('py' if kind == 'obj' else 'view')
    tline = ','.join(f'{lab(v)}={rat(a)}' for v, a in terms) or '-'
    line = f'eq {impl} {data_vt} {rat(lam)} {rat(C)} {tline} {lin0} {quad0} {rat(before[2])}'
    conv = (lambda a: a) if kind in ('obj', 'viewobj') else float
    as_iter = r.random() < .3
    call_terms = [(v, conv(a)) for v, a in terms]
    src = (HDR + make_src(kind, vt) + '\n' + '\n'.join(init) + f'\nterms = {[(v, float(a)) for v, a in terms]!r}\nlam, C = {float(lam)!r}, {float(C)!r}\n'
           'def coef(b): return ({v: F(b.get_linear(v)) for v in b.variables}, {(u, v): F(q) for u, v, q in b.iter_quadratic()}, F(b.offset))\n'
           'def en(c, x): return c[2] + sum(a*x[v] for v, a in c[0].items()) + sum(q*x[u]*x[v] for (u, v), q in c[1].items())\n'
           'c0 = coef(b); tgt.add_linear_equality_constraint(terms, lam, C); c1 = coef(b)\n'
           'vs = list(c1[0]); dom = (0, 1) if b.vartype.name == "BINARY" else (-1, 1)\n'
           f'view = {vt!r} != b.vartype.name\n'
           'for vals in itertools.product(dom, repeat=len(vs)):\n'
           '    x = dict(zip(vs, vals)); x0 = {v: x[v] for v in c0[0]}\n'
           '    y = {v: ((2*t-1 if b.vartype.name == "BINARY" else F(t+1, 2)) if view else t) for v, t in x.items()}\n'
           '    want = F(lam) * (sum(F(a)*y[v] for v, a in terms) + F(C))**2\n'
           '    assert en(c1, x) - en(c0, x0) == want, (x, en(c1, x) - en(c0, x0), want)\n')
    if kind in ('cy64', 'cy32', 'view64') and crashed(
            ctx, 'cyBQM.add_linear_equality_constraint', ('no interactions before the call' if not before[1] else 'interactions before the call') + ', terms '
            + ('in index order' if [v for v, _ in terms] == sorted((v for v, _ in terms), key=lambda v: (list(b.variables).index(v) if v in b.variables else len(b.variables))) else 'not in index order'),
            f'{kind} {vt}: terms {terms!r}, lam {lam}, C {C} on a model with variables {list(b.variables)!r}', src,
            lambda: (tgt.add_linear_equality_constraint(list(call_terms), conv(lam), conv(C)), coef(b), b.energies(np.zeros((1, b.num_variables), dtype=np.int8) + (1 if data_vt == 'BINARY' else -1), ) if b.num_variables else None)):
        return
    try:
        with warnings.catch_warnings():
            warnings.simplefilter('ignore')
            tgt.add_linear_equality_constraint(iter(call_terms) if as_iter else call_terms, conv(lam), conv(C))
        _NET['probed'] = False
    except Exception as e:  # the method has no error clause for well-typed input
        _NET['probed'] = False
        ctx.fail('property', 'BQM.add_linear_equality_constraint', f'raises ({kind})', f'{type(e).__name__}: {e}', repro=src)
        return
    after = coef(b)
    ctx.tick(f'eq:{kind}:{vt}' + (':dup' if len({v for v, _ in terms}) < len(terms) else ''))
    ctx.case(('eq', line, kind), nontrivial=bool(terms) and lam != 0,
             sample=dict(kind=kind, vartype=vt, terms=[(repr(v), str(a)) for v, a in terms], lam=str(lam), C=str(C)))
    exact_ok = True   # inputs are halves/quarters of small integers: every product is exact in float32 as well
    # (ii) property predicate at every domain-valid sample of the data
    vs = list(after[0])
    dom = (0, 1) if data_vt == 'BINARY' else (-1, 1)
    is_view = vt != data_vt
    bad = None
    if len(vs) <= 9:
        for vals in itertools.product(dom, repeat=len(vs)):
            x = dict(zip(vs, vals))
            y = {v: ((2 * t - 1 if data_vt == 'BINARY' else F(t + 1, 2)) if is_view else t) for v, t in x.items()}
            want = lam * (sum(a * y[v] for v, a in terms) + C) ** 2
            got = energy(after, x) - energy(before, {v: x[v] for v in before[0]})
            if got != want:
                bad = (x, got, want)
                break
    if bad is not None and exact_ok:
        dup = len({v for v, _ in terms}) < len(terms)
        site = {'cy': 'cyBQM.add_linear_equality_constraint', 'py': 'BQM.add_linear_equality_constraint (object dtype fallback)',
                'view': 'BQM.add_linear_equality_constraint (vartype view fallback)'}[impl]
        ctx.fail('property', site, 'repeated labels' if dup else 'distinct labels',
                 f'{kind} {vt}: terms {terms!r}, lam {lam}, C {C}: at {bad[0]!r} the energy changed by {bad[1]} but lam*(sum+C)^2 = {bad[2]}',
                 repro=src, detail=dict(kind=kind, vartype=vt, terms=repr(terms), lam=str(lam), C=str(C)))
    if exact_ok:
        lines.append(line)
        checks.append(('BQM.add_linear_equality_constraint vs Pen.eqTerms' + impl.capitalize(), kind, 'ok ' + canon_bqm(b), src, bad is not None))


# ------------------------------------------------------------------------------------ equality, DQM

def dqm_adj(d):
    """variable-level adjacency `adj_` as stored (index lists, in stored order)"""
    a = d._cydqm.adj
    return [[int(x) for x in a[i]] for i in range(d.num_variables())]


def dqm_state(d):
    """(starts, linear by global case, quadratic by global case pair, offset, adjacency) of a DQM, exact"""
    vs = list(d.variables)
    starts, tot = [], 0
    for v in vs:
        starts.append(tot); tot += d.num_cases(v)
    lin = {}
    for i, v in enumerate(vs):
        for c, a in enumerate(d.get_linear(v)):
            lin[starts[i] + c] = F(float(a))
    adj = dqm_adj(d)
    quad = {}
    for i in range(len(vs)):
        for j in adj[i]:
            if j < i:
                for (ci, cj), a in d.get_quadratic(vs[i], vs[j]).items():
                    x, y = sorted((starts[i] + ci, starts[j] + cj))
                    quad[(x, y)] = F(float(a))
    return starts, lin, quad, F(float(d.offset)), adj


def dqm_all_samples(d):
    return list(itertools.product(*[range(d.num_cases(v)) for v in d.variables]))


def dqm_energies(d, samples=None):
    """the real `energies()` of every one-hot sample, exact"""
    samples = dqm_all_samples(d) if samples is None else samples
    if not samples or not d.num_variables():
        return [F(float(d.offset))] * max(1, len(samples))
    return [F(float(e)) for e in d.energies((np.asarray(samples, dtype=np.int64), list(d.variables)))]


def adj_text(adj):
    return '|'.join('+'.join(map(str, l)) or '-' for l in adj) or '-'


def state_text(st):
    starts, lin, quad, off, adj = st
    return (','.join(f'{c}={rat(a)}' for c, a in sorted(lin.items())) or '-',
            ','.join(f'{a}~{b}={rat(q)}' for (a, b), q in sorted(quad.items())) or '-', rat(off), adj_text(adj))


def canon_dqm_state(d, with_energies=True):
    starts, lin, quad, off, adj = dqm_state(d)
    linS = ','.join(f'{c}={rat(a)}' for c, a in sorted(lin.items()))
    quadS = ','.join(sorted(f'{a:06d}~{b:06d}={rat(q)}' for (a, b), q in quad.items()))
    samples = dqm_all_samples(d)
    es = ','.join(rat(e) for e in dqm_energies(d, samples)) if with_energies and len(samples) <= 4096 else '-'
    return f'{linS};{quadS};{rat(off)};{adj_text(adj)};{es}'


def random_dqm(r, names, ncases, dense=False):
    """a DQM with pre-existing linear / quadratic biases and offset (small dyadics), partially overlapping adjacency;
    returns it with the Python source that rebuilds it"""
    d = DQM()
    src = ['d = DQM()']
    for n, v in zip(ncases, names):
        d.add_variable(n, v); src.append(f'd.add_variable({n}, {v!r})')
    for n, v in zip(ncases, names):
        if r.random() < .5:
            a = [float(dy(r, 8, 2)) for _ in range(n)]
            d.set_linear(v, a); src.append(f'd.set_linear({v!r}, {a!r})')
    for i, u in enumerate(names):
        for j in range(i):
            if r.random() < (.6 if dense else .35):
                v = names[j]
                q = {(cu, cv): float(dy(r, 8, 2)) for cu in range(ncases[i]) for cv in range(ncases[j]) if r.random() < .5}
                if not q:
                    q = {(0, 0): 0.0}        # adjacent, all-zero biases
                d.set_quadratic(u, v, q); src.append(f'd.set_quadratic({u!r}, {v!r}, {q!r})')
    if r.random() < .5:
        o = float(dy(r, 8, 2)); d.offset = o; src.append(f'd.offset = {o!r}')
    return d, '\n'.join(src) + '\n'


def eq_dqm_case(ctx, r, lines, checks, directed=None):
    nv = r.randint(1, 5)
    ncases = [r.randint(1, 3) for _ in range(nv)]
    names = r.sample(['a', 'b', 'c', 0, 1, ('t', 1), 'z'], nv)
    d, build = random_dqm(r, names, ncases, dense=r.random() < .4)
    # the constraint touches a subset of the variables (any positions: lower and higher indices stay outside)
    sub = sorted(r.sample(range(nv), r.randint(1, nv)))
    terms = []
    for _ in range(r.choice([0, 1, 2, 3, 4, 5, 6])):
        if terms and r.random() < .25:
            i, c, _ = r.choice(terms)
        else:
            i = r.choice(sub); c = r.randrange(ncases[i])
        terms.append((i, c, dy(r, 8, 2) if r.random() < .85 else F(0)))
    if r.random() < .5:   # make sure at least two different variables of the subset appear
        for i in sub[:3]:
            terms.append((i, r.randrange(ncases[i]), dy(r, 6, 2)))
    malformed = r.random() < .05
    if malformed and terms:
        i = r.randrange(nv); terms[r.randrange(len(terms))] = (i, ncases[i] + r.randint(0, 2), F(1))
    lam = r.choice([F(1), F(2), F(1, 2), F(3), F(0)]); C = dy(r, 8, 2)
    st0 = dqm_state(d)
    lin0, quad0, off0, adj0 = state_text(st0)
    line = (f"dqmeqs {','.join(map(str, ncases))} {rat(lam)} {rat(C)} " + (','.join(f'{i}:{c}={rat(a)}' for i, c, a in terms) or '-')
            + f' {lin0} {quad0} {off0} {adj0}')
    call = [(names[i], c, float(a)) for i, c, a in terms]
    src = (HDR + build + f'terms = {call!r}\nlam, C = {float(lam)!r}, {float(C)!r}\nvs = list(d.variables)\n'
           'samples = list(itertools.product(*[range(d.num_cases(v)) for v in vs]))\n'
           'e0 = [F(float(d.energy(dict(zip(vs, s))))) for s in samples]\n'
           'd.add_linear_equality_constraint(terms, lam, C)\n'
           'for s, before in zip(samples, e0):\n'
           '    sm = dict(zip(vs, s))\n'
           '    want = F(lam) * (sum(F(a) for v, c, a in terms if sm[v] == c) + F(C))**2\n'
           '    got = F(float(d.energy(sm))) - before\n'
           '    assert got == want, (sm, got, want)\n')
    samples = dqm_all_samples(d)
    e0 = dqm_energies(d, samples)
    if crashed(ctx, 'DQM.add_linear_equality_constraint', 'repeated cases' if len({(i, c) for i, c, _ in terms}) < len(terms) else 'distinct cases',
               f'terms {call!r}, lam {lam}, C {C}', src, lambda: (d.add_linear_equality_constraint(list(call), float(lam), float(C)), dqm_energies(d, samples))):
        return
    try:
        d.add_linear_equality_constraint(iter(call) if r.random() < .3 else call, float(lam), float(C))
        ok = True
    except ValueError:
        ok = False
    dupl = len({(i, c) for i, c, _ in terms}) < len(terms)
    outside = [i for i in range(nv) if i not in {t[0] for t in terms}]
    ctx.tick('dqmeq' + ('' if ok else ':raises') + (':dup' if dupl else '') + (':preexisting-adj' if any(st0[4]) else ''))
    ctx.case(('dqmeq', line), nontrivial=bool(terms), sample=dict(ncases=ncases, terms=repr(call), lam=str(lam), C=str(C), adjacency_before=st0[4]))
    bad_case = any(c >= ncases[i] for i, c, _ in terms)
    if ok == bad_case:
        ctx.fail('property', 'DQM.add_linear_equality_constraint', 'case out of range' if bad_case else 'valid cases',
                 'accepted an out-of-range case' if ok else 'raised on valid terms', repro=src + '\nassert False')
        return
    if not ok:
        lines.append(line); checks.append(('DQM.add_linear_equality_constraint vs Pen.dqmAddEq', 'raise', 'err', src, False))
        return
    e1 = dqm_energies(d, samples)
    bad = None
    for s, before, after in zip(samples, e0, e1):
        want = lam * (sum(a for i, c, a in terms if s[i] == c) + C) ** 2
        if after - before != want:
            bad = (dict(zip(names, s)), after - before, want); break
    if bad:
        cls = ('pre-existing interactions' if any(st0[4]) else 'fresh model') + (', repeated cases' if dupl else '')
        ctx.fail('property', 'DQM.add_linear_equality_constraint', cls,
                 f'DQM with adjacency {st0[4]} (variables {names!r}), terms {call!r} lam {lam} C {C}: at {bad[0]!r} energies() changed by {bad[1]} but lam*(sum+C)^2 = {bad[2]}',
                 repro=src)
    lines.append(line)
    checks.append(('DQM.add_linear_equality_constraint vs Pen.dqmAddEq', 'ok', 'ok ' + canon_dqm_state(d), src, bad is not None))


def slack_rename(label):
    return label


def ineq_bqm_case(ctx, r, lines, checks):
    vt = 'SPIN' if r.random() < .12 else 'BINARY'
    kind = r.choice(['cy64', 'cy64', 'obj'])
    n = r.randint(1, 5)
    pool = r.sample(LABELS, n)
    terms = []
    for v in pool:
        terms.append((v, r.choice([-6, -4, -3, -2, -1, 1, 1, 2, 3, 4, 5, 6, 0])))
    if r.random() < .25:
        terms.append((r.choice(pool), r.choice([-3, -1, 1, 2])))      # repeated label
    c = r.randint(-4, 4)
    tu = sum(a for _, a in terms if a > 0); tl = sum(a for _, a in terms if a < 0)
    mode = r.random()
    if mode < .15:
        lb, ub = -(2 ** 63), r.randint(tl - 2, tu + 2) + c
    elif mode < .3:
        lb, ub = r.randint(tl - 2, tu + 2) + c, 2 ** 63 - 1
    else:
        lb = r.randint(tl - 3, tu + 2) + c; ub = lb + r.choice([0, 0, 1, 2, 3, 5, 7, 8, 11, -1, -2])
    cross = r.random() < .12
    lam = r.choice([F(1), F(2), F(1, 2), F(3)])
    label = r.choice(['c', 'k0', 'x_y'])
    ineq_bqm_eval(ctx, r, lines, checks, vt, kind, terms, c, lb, ub, cross, lam, label)


def plan_class(coeffs, c, lb, ub):
    """the branch of the planning step, computed from the definition (independent of the code and of the model)"""
    tu = sum(a for a in coeffs if a > 0); tl = sum(a for a in coeffs if a < 0)
    ubc = min(tu, ub - c); lbc = max(tl, lb - c)
    if tu <= ubc and tl >= lbc:
        return 'skip'
    if ubc < lbc:
        return 'infeasible'
    if ubc == lbc:
        return 'equality:given' if lb == ub else 'equality:by-tightening'
    return 'slack'


def ineq_bqm_sweep(ctx, r, lines, checks):
    """systematic part: ALL coefficient vectors over a small alphabet x constants x ALL bound pairs around the reach of the
    terms (two-sided, and both one-sided forms with the int64 extremes) — in particular every constraint whose tightened
    range `min(tu, ub-c) - max(tl, lb-c)` is 0 although lb != ub (equality short-cut reached by tightening only)."""
    alphabet = ctx.scale([-2, -1, 1, 2], [-3, -2, -1, 1, 2, 3])
    maxlen = ctx.scale(2, 3)
    consts = ctx.scale([0, 1], [-1, 0, 2])
    names = ['a', 'b', 'c']
    todo = []
    for n in range(1, maxlen + 1):
        for vec in itertools.product(alphabet, repeat=n):
            if list(vec[1:]) != sorted(vec[1:]) and n == 3:
                continue   # order of the tail is immaterial for the plan: keep one representative per multiset (thorough, n = 3)
            tu = sum(a for a in vec if a > 0); tl = sum(a for a in vec if a < 0)
            for c in consts:
                lo, hi = tl - 1 + c, tu + 1 + c
                bounds = [(lb, ub) for lb in range(lo, hi + 1) for ub in range(lb, hi + 1)]
                bounds += [(-(2 ** 63), ub) for ub in range(lo, hi + 1)] + [(lb, 2 ** 63 - 1) for lb in range(lo, hi + 1)]
                for lb, ub in bounds:
                    todo.append((vec, c, lb, ub))
    # quick tier: every tightened-range-0 constraint, and a sample of the others
    for vec, c, lb, ub in todo:
        pc = plan_class(vec, c, lb, ub)
        if ctx.tier == 'quick' and pc != 'equality:by-tightening' and r.random() > .12:
            continue
        terms = list(zip(names, vec))
        if len(vec) >= 2 and r.random() < .15:
            terms = [(names[0], a) for a in vec[:2]] + terms[2:]    # the same vector on a repeated label
        ineq_bqm_eval(ctx, r, lines, checks, 'BINARY', 'obj' if r.random() < .2 else 'cy64', terms, c, lb, ub, False, F(r.choice([1, 2])), 'c', sweep=True)


def ineq_bqm_eval(ctx, r, lines, checks, vt, kind, terms, c, lb, ub, cross, lam, label, sweep=False):
    _, b = make_bqm(kind, vt)
    line = (f"ineqbqm {rat(lam)} {label.encode().hex()} {c} {lb} {ub} {int(cross)} " + ','.join(f'{lab(v)}={a}' for v, a in terms))
    src = (HDR + make_src(kind, vt) + f'\nterms = {terms!r}\nlam, c, lb, ub = {float(lam)!r}, {c}, {lb}, {ub}\n'
           'def coef(b): return ({v: F(b.get_linear(v)) for v in b.variables}, {(u, v): F(q) for u, v, q in b.iter_quadratic()}, F(b.offset))\n'
           'def en(c, x): return c[2] + sum(a*x[v] for v, a in c[0].items()) + sum(q*x[u]*x[v] for (u, v), q in c[1].items())\n'
           'dom = (0, 1) if b.vartype.name == "BINARY" else (-1, 1)\n'
           'vs = sorted({v for v, _ in terms}, key=repr)\n'
           + ('feas = lambda x: lb <= sum(a*x[v] for v, a in terms) + c <= ub or sum(a*x[v] for v, a in terms) == 0   # cross_zero: "adds zero to the domain of constraint"\n' if cross else
              'feas = lambda x: lb <= sum(a*x[v] for v, a in terms) + c <= ub\n') +
           'try:\n'
           f'    sl = b.add_linear_inequality_constraint(terms, lam, {label!r}, constant=c, lb=lb, ub=ub, cross_zero={cross})\n'
           'except Exception:\n'
           '    assert not any(feas(dict(zip(vs, t))) for t in itertools.product(dom, repeat=len(vs))), "refused a feasible constraint"\n'
           '    raise SystemExit(0)\n'
           'c1 = coef(b); ss = [v for v, _ in sl]\n'
           'for t in itertools.product(dom, repeat=len(vs)):\n'
           '    x = dict(zip(vs, t))\n'
           '    m = min(en(c1, {**x, **dict(zip(ss, s))}) for s in itertools.product(dom, repeat=len(ss)))\n'
           '    assert (m == 0) if feas(x) else (m >= F(lam)), (x, m, feas(x))\n')
    dom = (0, 1) if vt == 'BINARY' else (-1, 1)
    vs = sorted({v for v, _ in terms}, key=repr)

    def feas(x):
        return lb <= sum(a * x[v] for v, a in terms) + c <= ub
    anyfeas = any(feas(dict(zip(vs, t))) for t in itertools.product(dom, repeat=len(vs)))
    conv = (lambda a: a) if kind == 'obj' else float
    if kind != 'obj' and crashed(ctx, 'BQM.add_linear_inequality_constraint', f'{kind} model, cross_zero={cross}', f'{kind} {vt}: terms {terms!r}, lam {lam}, c {c}, lb {lb}, ub {ub}', src,
                                 lambda: (b.add_linear_inequality_constraint(list(terms), conv(lam), label, constant=c, lb=lb, ub=ub, cross_zero=cross), coef(b))):
        return
    try:
        with warnings.catch_warnings():
            warnings.simplefilter('ignore')
            sl = b.add_linear_inequality_constraint(iter(terms) if r.random() < .2 else list(terms), conv(lam), label, constant=c, lb=lb, ub=ub, cross_zero=cross)
        raised = False
        exc = None
    except Exception as e:  # noqa  ANY exception is a refusal ("refuses only truly infeasible constraints")
        raised = True
        exc = type(e).__name__
        if exc != 'ValueError':
            ctx.tick('ineqbqm:raises:' + exc)
    ctx.tick(f'ineqbqm:{vt}' + (':raises' if raised else '') + (':cross' if cross else ''))
    if vt == 'BINARY' and not cross:
        ctx.tick('ineqbqm:plan:' + plan_class([a for _, a in terms], c, lb, ub) + (':sweep' if sweep else ''))
    ctx.case(('ineqbqm', line, kind, vt), nontrivial=not raised,
             sample=dict(vartype=vt, terms=repr(terms), constant=c, lb=lb, ub=ub, lam=str(lam)))
    cls = 'SPIN model' if vt == 'SPIN' else ('cross_zero=True' if cross else 'BINARY model')
    site = 'BQM.add_linear_inequality_constraint'
    dup = len({v for v, _ in terms}) < len(terms)
    if kind == 'obj' and dup and vt == 'BINARY':
        # the method ends in add_linear_equality_constraint: on the object back-end that is the Python fallback (D22)
        site, cls = 'BQM.add_linear_equality_constraint (object dtype fallback)', 'repeated labels'
    bad = False
    if raised:
        if anyfeas and not cross:
            bad = True
            ctx.fail('property', site, cls if vt == 'SPIN' else cls + ', refuses a feasible constraint', f'{vt} terms {terms!r} c={c} lb={lb} ub={ub}: {exc} although some assignment is feasible '
                     f'(branch by definition: {plan_class([a for _, a in terms], c, lb, ub)})', repro=src)
        out = 'raise'
    else:
        c1 = coef(b)
        ss = [v for v, _ in sl]
        if not cross and len(ss) <= 9:
            for t in itertools.product(dom, repeat=len(vs)):
                x = dict(zip(vs, t))
                m = min(energy(c1, {**x, **dict(zip(ss, s))}) for s in itertools.product(dom, repeat=len(ss)))
                if (m != 0) if feas(x) else (m < lam):
                    bad = True
                    ctx.fail('property', site, cls, f'{vt} terms {terms!r} c={c} lb={lb} ub={ub} lam={lam}: at {x!r} (feasible={feas(x)}) the penalty minimised over slack is {m}',
                             repro=src, detail=dict(slack=repr(sl)))
                    break
        if cross and vt == 'BINARY' and len(ss) <= 9 and not (kind == 'obj' and dup):
            # documented: "cross_zero: When True, adds zero to the domain of constraint" -> lb <= sum + c <= ub, or sum == 0
            for t in itertools.product(dom, repeat=len(vs)):
                x = dict(zip(vs, t))
                tot = sum(a * x[v] for v, a in terms)
                fz = feas(x) or tot == 0
                m = min(energy(c1, {**x, **dict(zip(ss, s))}) for s in itertools.product(dom, repeat=len(ss)))
                ctx.tick('ineqbqm:cross:documented-domain')
                if (m != 0) if fz else (m < lam):
                    bad = True
                    ctx.fail('property', site, cls, f'BINARY terms {terms!r} c={c} lb={lb} ub={ub} lam={lam} cross_zero=True: at {x!r} (sum={tot}; in [lb, ub] or 0: {fz}) the penalty minimised over slack is {m}',
                             repro=src, detail=dict(slack=repr(sl)))
                    break
        if not sl and not list(b.variables):
            out = 'skip'
        else:
            out = 'ok ' + ','.join(f'{lab(v)}={a}' for v, a in sl) + ';' + canon_bqm(b)
    if vt == 'BINARY':
        lines.append(line)
        checks.append(('BQM.add_linear_inequality_constraint vs Pen.ineqPlan/bqmSlack', cls, out, src, bad or (kind == 'obj' and dup)))


# ------------------------------------------------------------------------------------ inequality, DQM

def ineq_dqm_case(ctx, r, lines, checks):
    method = r.choice(['log2', 'log2', 'linear', 'log10'])
    nv = r.randint(1, 4)
    ncases = [r.randint(1, 3) for _ in range(nv)]
    names = r.sample(['a', 'b', 'c', 0, 1], nv)
    d, build = random_dqm(r, names, ncases) if r.random() < .7 else (None, None)
    if d is None:
        d = DQM(); build = 'd = DQM()\n'
        for n, v in zip(ncases, names):
            d.add_variable(n, v); build += f'd.add_variable({n}, {v!r})\n'
    sub = sorted(r.sample(range(nv), r.randint(1, nv)))     # the constraint's variables; the others stay outside
    terms = []
    for i in sub:
        for c in range(ncases[i]):
            if r.random() < .7:
                terms.append((i, c, r.choice([-5, -3, -2, -1, 1, 1, 2, 3, 4, 6, 0])))
    if terms and r.random() < .2:
        i, c, _ = r.choice(terms); terms.append((i, c, r.choice([-2, 1, 3])))
    if method == 'log10' and r.random() < .5:   # wide ranges so that several digits appear
        terms = [(i, c, a * r.choice([1, 3, 7])) for i, c, a in terms]
    cst = r.randint(-3, 3)
    force_cross = method != 'log10' and r.random() < .08     # round 7: cross_zero with non-negative biases (judged against the documented domain)
    if force_cross:
        terms = [(i, c, abs(a)) for i, c, a in terms]
    tu = sum(a for _, _, a in terms if a > 0); tl = sum(a for _, _, a in terms if a < 0)
    mode = r.random()
    if mode < .15:
        lb, ub = -(2 ** 63), r.randint(tl - 2, tu + 2) + cst
    elif mode < .3:
        lb, ub = r.randint(tl - 2, tu + 2) + cst, 2 ** 63 - 1
    else:
        lb = r.randint(tl - 3, tu + 2) + cst; ub = lb + r.choice([0, 1, 2, 3, 5, 7, 9, 10, 12, 15, 21, -1])
    cross = r.random() < .1 or force_cross
    lam = r.choice([F(1), F(2), F(1, 2)])
    label = r.choice(['c', 'k0'])
    ineq_dqm_eval(ctx, r, lines, checks, method, ncases, names, d, build, terms, cst, lb, ub, cross, lam, label)


def ineq_dqm_sweep(ctx, r, lines, checks):
    """systematic part for the DQM method (log2 / linear): two-case variables whose case 1 carries the coefficient, so that the
    linear form is that of the BQM sweep; ALL small coefficient vectors x constants x ALL bound pairs around the reach of the
    terms — in particular every constraint whose tightened range is 0 although lb != ub"""
    alphabet = ctx.scale([-2, -1, 1, 2], [-3, -2, -1, 1, 2, 3])
    consts = ctx.scale([0], [-1, 0, 2])
    for n in range(1, ctx.scale(2, 3) + 1):
        for vec in itertools.product(alphabet, repeat=n):
            if n == 3 and list(vec[1:]) != sorted(vec[1:]):
                continue
            tu = sum(a for a in vec if a > 0); tl = sum(a for a in vec if a < 0)
            for c in consts:
                lo, hi = tl - 1 + c, tu + 1 + c
                bounds = [(lb, ub) for lb in range(lo, hi + 1) for ub in range(lb, hi + 1)]
                bounds += [(-(2 ** 63), ub) for ub in range(lo, hi + 1)] + [(lb, 2 ** 63 - 1) for lb in range(lo, hi + 1)]
                for lb, ub in bounds:
                    pc = plan_class(vec, c, lb, ub)
                    if ctx.tier == 'quick' and (pc != 'equality:by-tightening' or r.random() > .5) and r.random() > .04:
                        continue
                    names = ['a', 'b', 'c'][:n]
                    ncases = [2] * n
                    d = DQM(); build = 'd = DQM()\n'
                    for v in names:
                        d.add_variable(2, v); build += f'd.add_variable(2, {v!r})\n'
                    terms = [(i, 1, a) for i, a in enumerate(vec)]
                    ineq_dqm_eval(ctx, r, lines, checks, r.choice(['log2', 'linear']), ncases, names, d, build, terms, c, lb, ub, False, F(r.choice([1, 2])), 'c', sweep=True)


def ineq_dqm_eval(ctx, r, lines, checks, method, ncases, names, d, build, terms, cst, lb, ub, cross, lam, label, sweep=False):
    st0 = dqm_state(d)
    lin0, quad0, off0, adj0 = state_text(st0)
    line = (f"ineqdqms {method} {','.join(map(str, ncases))} {rat(lam)} {label.encode().hex()} {cst} {lb} {ub} {int(cross)} "
            + (','.join(f'{i}:{c}={a}' for i, c, a in terms) or '-') + f' {lin0} {quad0} {off0} {adj0}')
    call = [(names[i], c, a) for i, c, a in terms]
    src = (HDR + build + f'terms = {call!r}\nlam, c, lb, ub = {float(lam)!r}, {cst}, {lb}, {ub}\nvs = list(d.variables)\n'
           'val = lambda s: sum(a for v, k, a in terms if s[v] == k) + c\n'
           'orig = list(itertools.product(*[range(d.num_cases(v)) for v in vs]))\n'
           'e0 = {t: F(float(d.energy(dict(zip(vs, t))))) for t in orig}\n'
           'try:\n'
           f'    sl = d.add_linear_inequality_constraint(terms, lam, {label!r}, constant=c, lb=lb, ub=ub, slack_method={method!r}, cross_zero={cross})\n'
           'except Exception:\n'
           '    assert not any(lb <= val(dict(zip(vs, t))) <= ub for t in orig), "refused a feasible constraint"\n'
           '    raise SystemExit(0)\n'
           'ss = [v for v in d.variables if v not in vs]\n'
           'for t in orig:\n'
           '    s = dict(zip(vs, t))\n'
           '    m = min(F(float(d.energy({**s, **dict(zip(ss, u))}))) for u in itertools.product(*[range(d.num_cases(v)) for v in ss])) - e0[t]\n'
           '    assert (m == 0) if lb <= val(s) <= ub else (m >= F(lam)), (s, val(s), m)\n')

    def val(cases):
        return sum(a for i, c, a in terms if cases[i] == c) + cst
    allc = dqm_all_samples(d)
    e0 = dict(zip(allc, dqm_energies(d, allc)))
    anyfeas = any(lb <= val(t) <= ub for t in allc)
    if crashed(ctx, 'DQM.add_linear_inequality_constraint', f'slack_method={method}, cross_zero={cross}', f'terms {call!r}, lam {lam}, c {cst}, lb {lb}, ub {ub}', src,
               lambda: (d.add_linear_inequality_constraint(list(call), float(lam), label, constant=cst, lb=lb, ub=ub, slack_method=method, cross_zero=cross), dqm_state(d))):
        return
    try:
        with warnings.catch_warnings():
            warnings.simplefilter('ignore')
            sl = d.add_linear_inequality_constraint(list(call), float(lam), label, constant=cst, lb=lb, ub=ub, slack_method=method, cross_zero=cross)
        raised = False
        exc = None
    except Exception as e:  # noqa  ANY exception is a refusal
        raised = True
        exc = type(e).__name__
        if exc != 'ValueError':
            ctx.tick('ineqdqm:raises:' + exc)
    ctx.tick(f'ineqdqm:{method}' + (':raises' if raised else '') + (':cross' if cross else '') + (':preexisting-adj' if any(st0[4]) else ''))
    if not cross:
        ctx.tick('ineqdqm:plan:' + plan_class([a for _, _, a in terms], cst, lb, ub) + (':sweep' if sweep else ''))
    ctx.case(('ineqdqm', line), nontrivial=not raised, sample=dict(method=method, terms=repr(call), constant=cst, lb=lb, ub=ub))
    site = 'DQM.add_linear_inequality_constraint'
    cls = f'slack_method={method}' + (', cross_zero=True' if cross else '')
    bad = False
    if raised:
        if anyfeas and not cross:
            bad = True
            ctx.fail('property', site, cls + ', refuses a feasible constraint', f'terms {call!r} c={cst} lb={lb} ub={ub}: {exc} although some assignment is feasible', repro=src)
        out = 'raise'
    else:
        svars = [v for v in d.variables if v not in names]
        sizes = [d.num_cases(v) for v in svars]
        full = dqm_all_samples(d)
        if not cross and len(full) <= 60000:
            en = dict(zip(full, dqm_energies(d, full)))
            for t in allc:
                m = min(en[t + u] for u in itertools.product(*[range(k) for k in sizes])) - e0[t]
                f = lb <= val(t) <= ub
                if (m != 0) if f else (m < lam):
                    bad = True
                    # a wrong energy difference that is not the D17 pattern is the equality constraint underneath
                    s_ = dict(zip(names, t))
                    ctx.fail('property', site, cls, f'DQM adjacency before {st0[4]}, terms {call!r} c={cst} lb={lb} ub={ub} lam={lam}: at {s_!r} (sum+c={val(t)}, feasible={f}) the penalty minimised over slack is {m}',
                             repro=src, detail=dict(slack=repr(sl)))
                    break
        if cross and sl and method in ('log2', 'linear') and all(a >= 0 for _, _, a in terms) and len(full) <= 60000:
            # (the equality short-cut, taken when the tightened range is 0, ignores cross_zero in both methods: see D66g; judged only when slack terms were returned)
            # documented: cross_zero "adds zero to the domain of constraint"; with non-negative biases the DQM construction (extra value ub_c) does exactly that
            en = dict(zip(full, dqm_energies(d, full)))
            for t in allc:
                m = min(en[t + u] for u in itertools.product(*[range(k) for k in sizes])) - e0[t]
                tot = val(t) - cst
                f = lb <= val(t) <= ub or tot == 0
                ctx.tick('ineqdqm:cross:documented-domain (non-negative biases)')
                if (m != 0) if f else (m < lam):
                    bad = True
                    ctx.fail('property', site, cls + ', non-negative biases', f'terms {call!r} c={cst} lb={lb} ub={ub} lam={lam} cross_zero=True: at {dict(zip(names, t))!r} (sum={tot}; in [lb, ub] or 0: {f}) the penalty minimised over slack is {m}',
                             repro=src.replace('if lb <= val(s) <= ub else', 'if (lb <= val(s) <= ub or val(s) == c) else'), detail=dict(slack=repr(sl)))
                    break
        if cross and method in ('log2', 'linear') and len(full) <= 60000 and not bad and (not sl or not all(a >= 0 for _, _, a in terms)):
            # round 8: the rest of the cross_zero surface against the DOCUMENTED domain ("adds zero to the domain of constraint": sum == 0 or lb <= sum + c <= ub).
            # As coded the equality short-cut (tightened range 0) ignores cross_zero, and for negative sums the extra value ub_c accepts every sum in -S..0:
            # both deviate (the D66g family, tests pin the coefficient ub_c); one known-finding entry per class, so anything ELSE in these classes is still a violation text to read
            sub = 'equality short-cut' if not sl else 'negative biases'
            en = dict(zip(full, dqm_energies(d, full)))
            for t in allc:
                m = min(en[t + u] for u in itertools.product(*[range(k) for k in sizes])) - e0[t]
                tot = val(t) - cst
                f = lb <= val(t) <= ub or tot == 0
                ctx.tick(f'ineqdqm:cross:documented-domain ({sub})')
                if (m != 0) if f else (m < lam):
                    bad = True
                    ctx.fail('property', site, cls + ', ' + sub, f'terms {call!r} c={cst} lb={lb} ub={ub} lam={lam} cross_zero=True: at {dict(zip(names, t))!r} (sum={tot}; in [lb, ub] or 0: {f}) the penalty minimised over slack is {m}',
                             repro=src.replace('if lb <= val(s) <= ub else', 'if (lb <= val(s) <= ub or val(s) == c) else'), detail=dict(slack=repr(sl)))
                    break
        if not sl and not svars and dqm_state(d) == st0:
            out = 'skip'
        else:
            sv = []
            for v in svars:
                cs = '+'.join(f'{k}={a}' for (w, k, a) in sl if w == v)
                sv.append(f'{v.encode().hex()}:{d.num_cases(v)}:{cs}')
            out = 'ok ' + ','.join(sv) + ';' + canon_dqm_state(d)
    lines.append(line)
    checks.append(('DQM.add_linear_inequality_constraint vs Pen.ineqPlan/dqmSlack/dqmAddEq', cls, out, src, bad))


# ------------------------------------------------------------------------------------ binary_encoding

def benc_cases(ctx, r, lines, checks):
    from dimod.generators import binary_encoding
    ubs = list(range(0, ctx.scale(70, 600))) + [2 ** k + e for k in range(7, ctx.scale(12, 16)) for e in (-1, 0, 1)]
    for ub in ubs:
        v = r.choice(['i', 0, ('q', 2)])
        src = (HDR + f'from dimod.generators import binary_encoding\nb = binary_encoding({v!r}, {ub})\ncs = [int(b.get_linear(u)) for u in b.variables]\n'
               'sums = {0}\nfor c in cs: sums |= {s + c for s in sums}\n'
               f'assert sums == set(range({ub} + 1)) and b.num_interactions == 0 and b.offset == 0 and all(u[1] == c for u, c in zip(b.variables, cs))\n')
        try:
            b = binary_encoding(v, ub)
        except ValueError:
            b = None
        ctx.tick('benc' + (':raises' if b is None else ''))
        ctx.case(('benc', ub), nontrivial=True)
        if (b is None) != (ub < 2):
            ctx.fail('property', 'generators.binary_encoding', 'ub < 2' if ub < 2 else 'ub >= 2', f'ub={ub}: ' + ('refused' if b is None else 'accepted'), repro=src + 'assert False\n')
            continue
        if b is None:
            out = 'err'
        else:
            cs = [int(b.get_linear(u)) for u in b.variables]
            sums = {0}
            for c in cs:
                sums |= {s + c for s in sums}
            good = (sums == set(range(ub + 1)) and b.num_interactions == 0 and b.offset == 0 and b.vartype.name == 'BINARY'
                    and all(isinstance(u, tuple) and u[0] == v and u[1] == c for u, c in zip(b.variables, cs)) and len(set(b.variables)) == len(cs))
            if not good:
                ctx.fail('property', 'generators.binary_encoding', 'ub >= 2', f'ub={ub}: coefficients {cs} represent {sorted(sums)[:8]}... not exactly 0..{ub}', repro=src)
            out = 'ok ' + ','.join(f'{lab(u)}={c}' for u, c in zip(b.variables, cs))
        lines.append(f'benc {lab(v)} {ub}')
        checks.append(('binary_encoding vs Pen.binaryEncoding', 'ub', out, src, False))


# ------------------------------------------------------------------------------------ cqm_to_bqm

def qm_text(lin, quad, off):
    return ((','.join(f'{lab(v)}={rat(a)}' for v, a in lin) or '-') + '!' + (','.join(f'{lab(u)}~{lab(v)}={rat(a)}' for (u, v), a in quad) or '-') + '!' + rat(off))


def cqm_case(ctx, r, lines, checks):
    nv = r.randint(1, 3)
    names = r.sample(['x', 'y', 'z', 0, 1, 'i', 'j'], nv)
    kinds = []
    for v in names:
        k = r.random()
        if k < .4:
            kinds.append(('B',))
        elif k < .6:
            kinds.append(('S',))
        else:
            lbv = 0 if r.random() < .93 else r.choice([1, -1])
            kinds.append(('I', lbv, r.choice([2, 3, 3, 4, 5, 6, 7, 1] if r.random() < .9 else [1])))
    # a binary/spin variable labelled like a `binary_encoding` bit of one of the integers: must be refused (D64)
    conflict = False
    ints = [(v, k) for v, k in zip(names, kinds) if k[0] == 'I' and k[1] == 0 and k[2] >= 2]
    if ints and r.random() < .1:
        v, k = r.choice(ints)
        kk = k[2].bit_length() - 1
        bits = [(v, 2 ** e) for e in range(kk)] + [(v, k[2] - (2 ** kk - 1), 'msb')]
        names = names + [r.choice(bits)]; kinds = kinds + [r.choice([('B',), ('S',)])]
        if r.random() < .5:
            names = names[-1:] + names[:-1]; kinds = kinds[-1:] + kinds[:-1]
        nv += 1
        conflict = True
    intcoef = lambda: r.choice([-4, -3, -2, -1, 1, 1, 2, 3, 4, 5])  # noqa: E731
    # objective
    olin = [(v, dy(r, 12, 2)) for v in names if r.random() < .8]
    oquad = []
    for i, u in enumerate(names):
        for v in names[i:]:
            if u == v and kinds[names.index(u)][0] != 'I':
                continue
            if r.random() < .4:
                oquad.append(((u, v), dy(r, 8, 2)))
    # spin variables that occur ONLY in interactions (linear bias 0), with spin, binary and integer partners: the
    # SPIN -> BINARY substitution of `_qm_to_bqm` must not depend on a linear bias being present (seed C16-7)
    spins = [v for v, k in zip(names, kinds) if k[0] == 'S']
    spin_quad_only = False
    if spins and len(names) >= 2 and r.random() < .3:
        olin = [(v, a) for v, a in olin if v not in spins]
        have = {frozenset(p) for p, _ in oquad}
        for sv in spins:
            partner = r.choice([u for u in names if u != sv])
            if frozenset((sv, partner)) not in have:
                a = F(0)
                while a == 0:
                    a = dy(r, 8, 2)
                pair = (sv, partner) if names.index(sv) < names.index(partner) else (partner, sv)
                oquad.append((pair, a)); have.add(frozenset(pair))
        spin_quad_only = any(sv in p for p, a in oquad for sv in spins if a != 0)
    ooff = dy(r, 8, 2) if r.random() < .5 else F(0)
    cons = []
    for _ in range(r.choice([0, 1, 1, 2, 2, 3])):
        vs = r.sample(names, r.randint(1, nv))
        cl = [(v, F(intcoef())) for v in vs]
        cq = []
        if r.random() < .05 and nv >= 2:
            cq = [((names[0], names[1]), F(1))]
        sense = r.choice(['le', 'ge', 'eq'])
        lo = sum(min(0, a) * (kinds[names.index(v)][-1] if kinds[names.index(v)][0] == 'I' else 1) - (abs(a) if kinds[names.index(v)][0] == 'S' else 0) for v, a in cl)
        hi = sum(max(0, a) * (kinds[names.index(v)][-1] if kinds[names.index(v)][0] == 'I' else 1) + (abs(a) if kinds[names.index(v)][0] == 'S' else 0) for v, a in cl)
        coff = F(r.randint(-2, 2)) if r.random() < .4 else F(0)
        rhs = F(r.randint(int(lo), int(hi))) if r.random() < .85 else F(r.randint(int(lo) - 2, int(hi) + 2))
        cons.append((cl, cq, coff, sense, rhs))
    lam = r.choice([None, F(1), F(2), F(5), F(1, 2)])

    def build():
        cqm = CQM()
        sym = {}
        for v, k in zip(names, kinds):
            if k[0] == 'B':
                sym[v] = dimod.Binary(v)
            elif k[0] == 'S':
                sym[v] = dimod.Spin(v)
            else:
                sym[v] = dimod.Integer(v, lower_bound=k[1], upper_bound=k[2])
        obj = dimod.QuadraticModel()
        for v, k in zip(names, kinds):
            obj.add_variable({'B': 'BINARY', 'S': 'SPIN', 'I': 'INTEGER'}[k[0]], v, **({'lower_bound': k[1], 'upper_bound': k[2]} if k[0] == 'I' else {}))
        for v, a in olin:
            obj.add_linear(v, float(a))
        for (u, v), a in oquad:
            obj.add_quadratic(u, v, float(a))
        obj.offset += float(ooff)
        cqm.set_objective(obj)
        for cl, cq, coff, sense, rhs in cons:
            e = sum((float(a) * sym[v] for v, a in cl), start=0 * sym[names[0]]) + float(coff)
            for (u, v), a in cq:
                e = e + float(a) * sym[u] * sym[v]
            cqm.add_constraint({'le': e <= float(rhs), 'ge': e >= float(rhs), 'eq': e == float(rhs)}[sense])
        return cqm
    build_src = (f'names, kinds = {names!r}, {kinds!r}\nolin, oquad, ooff = {[(v, float(a)) for v, a in olin]!r}, {[(k, float(a)) for k, a in oquad]!r}, {float(ooff)!r}\n'
                 f'cons = {[([(v, float(a)) for v, a in cl], [(k, float(a)) for k, a in cq], float(coff), sense, float(rhs)) for cl, cq, coff, sense, rhs in cons]!r}\n'
                 f'lam = {None if lam is None else float(lam)!r}\n'
                 'cqm = CQM(); sym = {}\n'
                 'for v, k in zip(names, kinds):\n'
                 '    sym[v] = dimod.Binary(v) if k[0] == "B" else dimod.Spin(v) if k[0] == "S" else dimod.Integer(v, lower_bound=k[1], upper_bound=k[2])\n'
                 'obj = dimod.QuadraticModel()\n'
                 'for v, k in zip(names, kinds):\n'
                 '    obj.add_variable({"B": "BINARY", "S": "SPIN", "I": "INTEGER"}[k[0]], v, **({"lower_bound": k[1], "upper_bound": k[2]} if k[0] == "I" else {}))\n'
                 'for v, a in olin: obj.add_linear(v, a)\n'
                 'for (u, v), a in oquad: obj.add_quadratic(u, v, a)\n'
                 'obj.offset += ooff; cqm.set_objective(obj)\n'
                 'for cl, cq, coff, sense, rhs in cons:\n'
                 '    e = sum((a * sym[v] for v, a in cl), start=0 * sym[names[0]]) + coff\n'
                 '    for (u, v), a in cq: e = e + a * sym[u] * sym[v]\n'
                 '    cqm.add_constraint({"le": e <= rhs, "ge": e >= rhs, "eq": e == rhs}[sense])\n')
    src = (HDR + build_src +
           'def dom(k): return (0, 1) if k[0] == "B" else (-1, 1) if k[0] == "S" else tuple(range(k[1], k[2] + 1))\n'
           'def one(y, c):\n'
           '    cl, cq, coff, sense, rhs = c\n'
           '    t = sum(F(a)*y[v] for v, a in cl) + sum(F(a)*y[u]*y[v] for (u, v), a in cq) + F(coff)\n'
           '    return {"le": t <= rhs, "ge": t >= rhs, "eq": t == rhs}[sense]\n'
           'try:\n'
           '    bqm, inv = dimod.cqm_to_bqm(cqm, lam)\n'
           'except ValueError:\n'
           '    ally = [dict(zip(names, t)) for t in itertools.product(*[dom(k) for k in kinds])]\n'
           f'    assert ({conflict} or any(k[0] == "I" and (k[1] != 0 or k[2] < 2) for k in kinds) or any(cq for _, cq, _, _, _ in cons)\n'
           '            or any(not any(one(y, c) for y in ally) for c in cons)), "refused a CQM it should convert"\n'
           '    raise SystemExit(0)\n'
           'if lam is None: lam = 0\n'
           'enc = [u for u in bqm.variables if not (isinstance(u, str) and u.startswith("slack_"))]\n'
           'sl = [u for u in bqm.variables if u not in enc]\n'
           'def objv(y): return F(ooff) + sum(F(a)*y[v] for v, a in olin) + sum(F(a)*y[u]*y[v] for (u, v), a in oquad)\n'
           'def feas(y):\n'
           '    for cl, cq, coff, sense, rhs in cons:\n'
           '        t = sum(F(a)*y[v] for v, a in cl) + F(coff)\n'
           '        if not {"le": t <= rhs, "ge": t >= rhs, "eq": t == rhs}[sense]: return False\n'
           '    return True\n'
           'def en(z): return F(bqm.offset) + sum(F(bqm.get_linear(v))*z[v] for v in bqm.variables) + sum(F(q)*z[u]*z[v] for u, v, q in bqm.iter_quadratic())\n'
           'for t in itertools.product((0, 1), repeat=len(enc)):\n'
           '    z = dict(zip(enc, t)); y = inv({**z, **{u: 0 for u in sl}})\n'
           '    m = min(en({**z, **dict(zip(sl, s))}) for s in itertools.product((0, 1), repeat=len(sl)))\n'
           '    assert (m == objv(y)) if feas(y) else (m >= objv(y) + F(lam)), (y, m, objv(y), feas(y))\n')
    vartxt = ','.join(f"{lab(v)}={':'.join(map(str, k))}" for v, k in zip(names, kinds))
    ctxt = '&'.join(f'{qm_text(cl, cq, coff)}@{sense}@{rat(rhs)}' for cl, cq, coff, sense, rhs in cons) or '-'
    line = f"cqm {'-' if lam is None else rat(lam)} {vartxt} {qm_text(olin, oquad, ooff)} {ctxt}"
    has_spin = any(k[0] == 'S' for k in kinds)
    bad_lb = any(k[0] == 'I' and k[1] != 0 for k in kinds)
    small_ub = any(k[0] == 'I' and k[2] < 2 for k in kinds)
    quad_cons = any(cq for _, cq, _, _, _ in cons)

    def dom(k):
        return (0, 1) if k[0] == 'B' else (-1, 1) if k[0] == 'S' else tuple(range(k[1], k[2] + 1))

    def objv(y):
        return ooff + sum(a * y[v] for v, a in olin) + sum(a * y[u] * y[v] for (u, v), a in oquad)

    def feas(y):
        for cl, cq, coff, sense, rhs in cons:
            t = sum(a * y[v] for v, a in cl) + sum(a * y[u] * y[v] for (u, v), a in cq) + coff
            if not {'le': t <= rhs, 'ge': t >= rhs, 'eq': t == rhs}[sense]:
                return False
        return True
    # a constraint no assignment satisfies may be refused (ValueError) — "refuses only truly infeasible"
    ally = [dict(zip(names, t)) for t in itertools.product(*[dom(k) for k in kinds])]
    each_feasible = all(any(_one(y, c) for y in ally) for c in cons) if not bad_lb else True
    def _probe():
        bq, _ = dimod.cqm_to_bqm(build(), None if lam is None else float(lam))
        coef(bq); bq.energies(np.ones((1, bq.num_variables), dtype=np.int8))
    if crashed(ctx, 'cqm_to_bqm', 'linear or empty objective' if not any(True for _ in oquad) else 'quadratic objective', f'CQM of case `{line[:300]}`', src, _probe):
        return
    try:
        with warnings.catch_warnings():
            warnings.simplefilter('ignore')
            cqm = build()
            bqm, inv = dimod.cqm_to_bqm(cqm, None if lam is None else float(lam))
        err = None
    except Exception as e:  # noqa
        err = e
    ctx.tick('cqm' + (':spin' if has_spin else '') + (':spin-only-in-interactions' if spin_quad_only else '') + (':bit-label-conflict' if conflict else '') + (f':{type(err).__name__}' if err is not None else ''))
    ctx.case(('cqm', line), nontrivial=err is None, sample=dict(vars=list(zip(map(repr, names), kinds)), ncons=len(cons), lam=str(lam)))
    site = 'cqm_to_bqm'
    if err is not None:
        legit = isinstance(err, ValueError) and (bad_lb or small_ub or quad_cons or not each_feasible or conflict)
        if not legit:
            cls = 'SPIN variable' if has_spin else 'valid CQM'
            ctx.fail('property', site, cls, f'{type(err).__name__}: {err} on a CQM with linear integer-coefficient constraints over {kinds!r}', repro=src)
            return
        msg = str(err)
        ecls = ('conflict' if 'conflicting variables' in msg else 'lowerBound' if 'lower bound' in msg else 'encoding' if 'upper_bound must be' in msg else
                'quadraticConstraint' if 'quadratic constraints' in msg else 'infeasible' if 'infeasible' in msg else msg)
        lines.append(line)
        checks.append(('cqm_to_bqm vs Pen.cqmToBqm', 'refusal', 'err ' + ecls, src, False))
        return
    if bad_lb or quad_cons:
        ctx.fail('property', site, 'nonzero lower bound' if bad_lb else 'quadratic constraint', 'accepted', repro=src + 'assert False\n')
        return
    if conflict:
        ctx.fail('property', site, 'variable labelled like an encoding bit',
                 f'variables {list(zip(names, kinds))!r}: accepted although a binary/spin variable has the label of a binary_encoding bit of an integer variable; '
                 f'the BQM has {bqm.num_variables} variables and the inverter cannot reach every CQM assignment', repro=src + 'assert False, "accepted"\n')
        return
    lam_used = lam
    enc = [u for u in bqm.variables if not (isinstance(u, str) and u.startswith('slack_'))]
    sl = [u for u in bqm.variables if u not in enc]
    cb = coef(bqm)
    bad = False
    reached = set()
    if len(enc) + len(sl) <= 16 and lam is not None:
        for t in itertools.product((0, 1), repeat=len(enc)):
            z = dict(zip(enc, t))
            y = inv({**z, **{u: 0 for u in sl}})
            if set(y) != set(names) or any(y[v] not in dom(k) for v, k in zip(names, kinds)):
                bad = True
                ctx.fail('property', 'CQMToBQMInverter', 'sample outside the CQM domain', f'{z!r} -> {y!r}', repro=src)
                break
            reached.add(tuple(y[v] for v in names))
            m = min(energy(cb, {**z, **dict(zip(sl, s))}) for s in itertools.product((0, 1), repeat=len(sl)))
            f = feas(y)
            if (m != objv(y)) if f else (m < objv(y) + lam_used):
                bad = True
                ctx.fail('property', site, 'SPIN variable' if has_spin else 'binary/integer variables',
                         f'kinds {kinds!r} cons {cons!r} lam {lam}: at CQM sample {y!r} (feasible={f}) objective {objv(y)} but BQM minimum over slack {m}', repro=src)
                break
        if not bad and len(reached) != len(ally):
            bad = True
            ctx.fail('property', 'CQMToBQMInverter', 'not onto', f'{len(reached)} of {len(ally)} CQM samples reached', repro=src)
    # canonical state with slack labels renamed by order of appearance per constraint
    ren = {}
    groups = []
    for u in sl:
        g = u.rsplit('_', 1)[0]
        if g not in groups:
            groups.append(g)
    # constraint index of a slack group = order of constraints that produced slack
    lines.append(line)
    checks.append(('cqm_to_bqm vs Pen.cqmToBqm', 'ok', ('cqm', bqm, groups, lam), src, bad))


def _one(y, c):
    cl, cq, coff, sense, rhs = c
    t = sum(a * y[v] for v, a in cl) + sum(a * y[u] * y[v] for (u, v), a in cq) + coff
    return {'le': t <= rhs, 'ge': t >= rhs, 'eq': t == rhs}[sense]


def canon_cqm_result(b, groups, model_line):
    """rename the random slack labels to the model's `slack_c<i>_<j>`: the i-th group (in order of first
    appearance) takes the i-th constraint index that has slack in the model's answer"""
    import re
    idxs = []
    for m in re.finditer(r's:([0-9a-f]+)', model_line):
        try:
            s = bytes.fromhex(m.group(1)).decode()
        except Exception:
            continue
        mm = re.match(r'slack_c(\d+)_\d+$', s)
        if mm and int(mm.group(1)) not in idxs:
            idxs.append(int(mm.group(1)))
    idxs.sort()
    ren = {}
    for g, i in zip(groups, idxs):
        ren[g] = f'slack_c{i}'

    def rn(u):
        if isinstance(u, str) and u.startswith('slack_'):
            g, j = u.rsplit('_', 1)
            return f'{ren.get(g, g)}_{j}'
        return u
    lin = sorted(f'{lab(rn(v))}={rat(b.get_linear(v))}' for v in b.variables)
    quad = sorted(f'{pairkey(lab(rn(u)), lab(rn(v)))}={rat(q)}' for u, v, q in b.iter_quadratic() if q != 0)
    return f"{','.join(lin)};{','.join(quad)};{rat(b.offset)}"



# ------------------------------------------------------------------------------------ round 7: slack count at the power-of-two boundaries

def covers_exactly(cs, S):
    """positive integer coefficients whose subset sums are exactly 0..S (sorted prefix rule: every coefficient is at most one
    more than the sum of the smaller ones, and the total is S) — the definition, independent of model and code"""
    if any(c < 0 for c in cs):
        return False
    reach = 0
    for c in sorted(c for c in cs if c):      # a zero coefficient (an idle bit) represents nothing new
        if c > reach + 1:
            return False
        reach += c
    return reach == S


def hit(cs, target):
    """a subset of the coefficient positions summing to `target` (greedy from the largest; valid under the prefix rule)"""
    pick = [0] * len(cs)
    for i in sorted(range(len(cs)), key=lambda i: -cs[i]):
        if 0 < cs[i] <= target:
            pick[i] = 1
            target -= cs[i]
    return pick if target == 0 else None


def slack_boundary_cases(ctx, r, lines, checks):
    """S = 2**k + d, k <= 62, d in {-40 … 1}: the slack terms RETURNED by both inequality methods, the bits of
    binary_encoding and of cqm_to_bqm's integer substitution must represent exactly 0..S (float floor(log2 S) is k, not k-1, for
    S just below 2**k from k = 50 on: D65g).  Exact arithmetic: object dtype / the integers carried by labels and slack terms."""
    from dimod.generators import binary_encoding
    ds = (-40, -11, -5, -2, -1, 0, 1) if ctx.quick else tuple(range(-40, 2))
    Ss = sorted({2 ** k + d for k in range(1, 63) for d in ds if 2 ** k + d >= 2 and 2 ** k + d + 8 < 2 ** 63})
    for S in Ss:
        k = S.bit_length()
        near = f'S = 2**{k} - {2 ** k - S}' if 2 ** k - S <= 41 else f'S = 2**{k - 1} + {S - 2 ** (k - 1)}'
        cls = 'slack range or upper bound just below 2**k, k >= 50' if (S >= 2 ** 49 and 2 ** k - S <= 41) else 'slack range or upper bound near a power of two'
        # (a) binary_encoding
        b = binary_encoding('i', S)
        cs = [u[1] for u in b.variables]
        ctx.case(('bound:benc', S), nontrivial=True); ctx.tick('boundary:benc' + (':>=2**49' if S >= 2 ** 49 else ''))
        ok = covers_exactly(cs, S) and all(b.get_linear(u) == float(u[1]) for u in b.variables)
        if not ok:
            ctx.fail('property', 'generators.binary_encoding', cls, f'binary_encoding("i", {S}) ({near}): coefficients {sorted(cs)[:2]}…{sorted(cs)[-2:]} (sum {sum(cs)}, min {min(cs)}) do not represent exactly 0..{S}',
                     repro=HDR + f'from dimod.generators import binary_encoding\nS = {S}\nb = binary_encoding("i", S)\ncs = sorted(u[1] for u in b.variables)\nreach = 0\nfor c in cs:\n    assert 0 <= c <= reach + 1, (c, reach)\n    reach += c\nassert reach == S, (reach - S)\n')
        lines.append(f'benc {lab("i")} {S}')
        checks.append(('binary_encoding vs Pen.binaryEncoding', cls, 'ok ' + ','.join(f'{lab(u)}={u[1]}' for u in b.variables), None, not ok))
        # (b) BQM slack method: lb = 2 <= a + (S+5) b <= S + 2  ->  tightened range S; the violating a=1, b=0 needs slack S + 1
        for dt in ((object, np.float64) if S < 2 ** 52 else (object,)):
            bq = dimod.BinaryQuadraticModel('BINARY', dtype=dt)
            with warnings.catch_warnings():
                warnings.simplefilter('ignore')
                sl = bq.add_linear_inequality_constraint([('a', 1), ('b', S + 5)], 1, 'c', lb=2, ub=S + 2)
            cs = [int(c) for _, c in sl]
            ctx.case(('bound:bqm', S, dt.__name__), nontrivial=True); ctx.tick('boundary:bqm-slack')
            ok = covers_exactly(cs, S) and all(isinstance(c, int) for _, c in sl)
            if not ok:
                what = f'BQM({dt.__name__}).add_linear_inequality_constraint([("a", 1), ("b", {S + 5})], 1, "c", lb=2, ub={S + 2}) ({near}): returned slack coefficients sum to {sum(cs)} (range {S})'
                pick = hit(cs, S + 1)
                if pick is not None and dt is object:
                    smp = {'a': 1, 'b': 0, **{v: p for (v, _), p in zip(sl, pick)}}
                    what += f'; at a=1, b=0 (sum 1 < lb 2) with the slack set to {S + 1} the penalty is {bq.energy(smp)}'
                ctx.fail('property', 'BQM.add_linear_inequality_constraint', cls, what,
                         repro=HDR + f'S = {S}\nb = dimod.BinaryQuadraticModel("BINARY", dtype=object)\nsl = b.add_linear_inequality_constraint([("a", 1), ("b", S + 5)], 1, "c", lb=2, ub=S + 2)\n'
                               'assert sum(c for _, c in sl) == S, "the slack reaches %d beyond the range" % (sum(c for _, c in sl) - S)\n')
            if dt is object:
                bqm_cs = cs
        # (c) DQM log2
        if ctx.quick and S % 3 and S > 100:
            pass
        else:
            dq = dimod.DiscreteQuadraticModel(); dq.add_variable(2, 'a'); dq.add_variable(2, 'b')
            with warnings.catch_warnings():
                warnings.simplefilter('ignore')
                st = dq.add_linear_inequality_constraint([('a', 1, 1), ('b', 1, S + 5)], 1, 'c', lb=2, ub=S + 2, slack_method='log2')
            cs = [int(t[2]) for t in st]
            ctx.case(('bound:dqm', S), nontrivial=True); ctx.tick('boundary:dqm-log2')
            lines.append(f'slack2 {S}')
            checks.append(('slack coefficients (BQM; DQM log2) vs Pen.slackLog2Bqm / slackLog2Dqm', cls, ','.join(map(str, bqm_cs)) + ';' + ','.join(map(str, cs)), None, not covers_exactly(cs, S) or not covers_exactly(bqm_cs, S)))
            if not covers_exactly(cs, S):
                ctx.fail('property', 'DQM.add_linear_inequality_constraint', cls, f'slack_method=log2, terms [("a", 1, 1), ("b", 1, {S + 5})], lb=2, ub={S + 2} ({near}): returned slack values sum to {sum(cs)} (range {S})',
                         repro=HDR + f'S = {S}\nd = dimod.DiscreteQuadraticModel(); d.add_variable(2, "a"); d.add_variable(2, "b")\nst = d.add_linear_inequality_constraint([("a", 1, 1), ("b", 1, S + 5)], 1, "c", lb=2, ub=S + 2, slack_method="log2")\n'
                               'assert sum(int(t[2]) for t in st) == S\n')
        # (d) cqm_to_bqm: Integer('i', upper_bound=S), objective i; every BQM sample must invert into 0..S
        if S <= 2 ** 53 - 1 and (not ctx.quick or S % 2 or S < 100):
            cqm = dimod.ConstrainedQuadraticModel(); cqm.set_objective(dimod.Integer('i', upper_bound=S))
            bq, inv = dimod.cqm_to_bqm(cqm)
            lo = inv({v: int(bq.get_linear(v) < 0) for v in bq.variables})['i']
            hi = inv({v: int(bq.get_linear(v) > 0) for v in bq.variables})['i']
            ctx.case(('bound:cqm', S), nontrivial=True); ctx.tick('boundary:cqm_to_bqm integer')
            if not (lo == 0 and hi == S):
                ctx.fail('property', 'cqm_to_bqm', cls, f'Integer("i", upper_bound={S}) ({near}), objective i: the inverter maps BQM samples to i = {lo} and i = {hi}, the domain is 0..{S}',
                         repro=HDR + f'S = {S}\ncqm = dimod.ConstrainedQuadraticModel(); cqm.set_objective(dimod.Integer("i", upper_bound=S))\nb, inv = dimod.cqm_to_bqm(cqm)\n'
                               'lo = inv({v: int(b.get_linear(v) < 0) for v in b.variables})["i"]; hi = inv({v: int(b.get_linear(v) > 0) for v in b.variables})["i"]\nassert (lo, hi) == (0, S), (lo, hi)\n')


def option_cases(ctx, r):
    """the options of BQM.add_linear_inequality_constraint judged against their definition (no model line):
    penalization_method ('unbalanced': energy added = l0*sum - ub_c + l1*(sum - ub_c)**2 as coded, [] returned; unknown: ValueError;
    wrong multiplier shape: TypeError; both only when the constraint is neither always satisfied nor infeasible), the fractional-data
    warning, integral floats behaving like ints, huge Python-int bounds as infinity, float('inf') refused."""
    for _ in range(ctx.scale(120, 1500)):
        n = r.randint(1, 4)
        terms = [(f'x{i}', r.choice([-3, -2, -1, 1, 2, 3, 4])) for i in range(n)]
        tu = sum(a for _, a in terms if a > 0); tl = sum(a for _, a in terms if a < 0)
        c = r.choice([0, 0, 1, -2]); lb = r.randint(tl - 2, tu + 1) - 0; ub = r.randint(lb - 1, tu + 2)
        if r.random() < .3:
            lb = -10 ** r.choice([19, 30])
        if r.random() < .15:
            ub = 10 ** r.choice([19, 30])
        plan = plan_class([a for _, a in terms], c, lb, ub)
        vs = [v for v, _ in terms]
        samples = [dict(zip(vs, t)) for t in itertools.product((0, 1), repeat=n)]
        how = r.choice(['unbalanced', 'unbalanced', 'badmethod', 'scalar-unbalanced', 'short-unbalanced', 'floats', 'fractional', 'inf'])
        ctx.tick(f'option:{how}:{plan.split(":")[0]}')
        ctx.case(('option', how, repr(terms), c, lb, ub), nontrivial=plan.startswith(('slack', 'equality')))
        base = HDR + f'terms = {terms!r}\nc, lb, ub = {c}, {lb}, {ub}\nb = dimod.BinaryQuadraticModel("BINARY", dtype=object)\nfor v, _ in terms: b.add_variable(v)\n'
        b = dimod.BinaryQuadraticModel('BINARY', dtype=object)
        for v in vs:
            b.add_variable(v)
        site = 'BQM.add_linear_inequality_constraint'

        def call(**kw):
            with warnings.catch_warnings(record=True) as w:
                warnings.simplefilter('always')
                try:
                    return b.add_linear_inequality_constraint(list(terms), kw.pop('lam', 1), 'c', constant=c, lb=lb, ub=ub, **kw), None, [str(x.message) for x in w]
                except Exception as e:  # noqa
                    return None, type(e).__name__, [str(x.message) for x in w]
        ubc = min(tu, ub - c)
        if how == 'unbalanced':
            l0, l1 = r.choice([1, 2, 3]), r.choice([1, 2])
            ret, exc, _w = call(lam=[l0, l1], penalization_method='unbalanced')
            if plan == 'skip':
                good = ret == [] and exc is None and b.is_linear() and b.offset == 0 and all(b.get_linear(v) == 0 for v in vs)
            elif plan == 'infeasible':
                good = exc == 'ValueError' and b.offset == 0
            else:
                good = ret == [] and exc is None and all(b.energy(x) == l0 * sum(a * x[v] for v, a in terms) - ubc + l1 * (sum(a * x[v] for v, a in terms) - ubc) ** 2 for x in samples)
            if not good:
                ctx.fail('property', site, "penalization_method='unbalanced'", f'terms {terms!r} c={c} lb={lb} ub={ub} multipliers [{l0}, {l1}] (plan by definition: {plan}): returned {ret!r}, raised {exc}; energies {[b.energy(x) for x in samples][:8]}',
                         repro=base + f'ret = b.add_linear_inequality_constraint(terms, [{l0}, {l1}], "c", constant=c, lb=lb, ub=ub, penalization_method="unbalanced")\nubc = min(sum(a for _, a in terms if a > 0), ub - c)\n'
                               f'import itertools\nfor t in itertools.product((0, 1), repeat=len(terms)):\n    x = dict(zip([v for v, _ in terms], t)); s = sum(a * x[v] for v, a in terms)\n    assert ret == [] and b.energy(x) == {l0} * s - ubc + {l1} * (s - ubc) ** 2\n')
        elif how in ('badmethod', 'scalar-unbalanced'):
            ret, exc, _w = call(penalization_method='unbalanced' if how == 'scalar-unbalanced' else 'slak')
            want = {'skip': None, 'infeasible': 'ValueError'}.get(plan, 'TypeError' if how == 'scalar-unbalanced' else 'ValueError')
            untouched = b.offset == 0 and b.is_linear() and all(b.get_linear(v) == 0 for v in vs) and list(b.variables) == vs
            if exc != want or not untouched:
                ctx.fail('property', site, 'penalization_method dispatch', f'terms {terms!r} c={c} lb={lb} ub={ub} ({how}; plan by definition: {plan}): raised {exc}, expected {want}; model untouched: {untouched}',
                         repro=base + f'try:\n    b.add_linear_inequality_constraint(terms, 1, "c", constant=c, lb=lb, ub=ub, penalization_method={"unbalanced" if how == "scalar-unbalanced" else "slak"!r})\n    e = None\nexcept Exception as ex:\n    e = type(ex).__name__\nassert e == {want!r} and b.offset == 0 and b.is_linear()\n')
        elif how == 'short-unbalanced':
            # "A list with two lagrange_multiplier are needed": a shorter list (or a set / generator) is refused -- and, like every refusal, leaves the model as it was
            lam = r.choice([[], [2], (3,), [], [1]])
            ret, exc, _w = call(lam=lam, penalization_method='unbalanced')
            want_exc = {'skip': False, 'infeasible': True}.get(plan, True)
            untouched = b.offset == 0 and b.is_linear() and all(b.get_linear(v) == 0 for v in vs) and list(b.variables) == vs
            if (exc is not None) != want_exc or not untouched:
                ctx.fail('property', site, "penalization_method='unbalanced', fewer than two multipliers", f'terms {terms!r} c={c} lb={lb} ub={ub} multipliers {lam!r} (plan by definition: {plan}): raised {exc}; model untouched: {untouched} '
                         f'(linear {[b.get_linear(v) for v in vs]}, offset {b.offset})',
                         repro=base + f'try:\n    b.add_linear_inequality_constraint(terms, {lam!r}, "c", constant=c, lb=lb, ub=ub, penalization_method="unbalanced")\n    e = None\nexcept Exception as ex:\n    e = type(ex).__name__\n'
                               f'assert (e is not None) == {want_exc} and b.offset == 0 and b.is_linear() and all(b.get_linear(v) == 0 for v, _ in terms), (e, b)\n')
        elif how == 'floats':
            # integral floats are integers: same slack terms, same model, no warning
            b2 = dimod.BinaryQuadraticModel('BINARY', dtype=object)
            for v in vs:
                b2.add_variable(v)
            ret, exc, w = call()
            with warnings.catch_warnings(record=True) as w2:
                warnings.simplefilter('always')
                try:
                    ret2 = b2.add_linear_inequality_constraint([(v, float(a)) for v, a in terms], 1, 'c', constant=float(c), lb=float(lb) if abs(lb) < 2 ** 53 else lb, ub=float(ub) if abs(ub) < 2 ** 53 else ub); exc2 = None
                except Exception as e:  # noqa
                    ret2, exc2 = None, type(e).__name__
            frac = [m for m in [str(x.message) for x in w2] if 'fractional' in m]
            same = exc == exc2 and (ret is None or [(v, int(a)) for v, a in ret] == [(v, int(a)) for v, a in ret2]) and (exc is not None or coef(b) == coef(b2))
            if not same or frac or any('fractional' in m for m in w):
                ctx.fail('property', site, 'integral float data', f'terms {terms!r} c={c} lb={lb} ub={ub}: ints give {ret!r}/{exc}, integral floats give {ret2!r}/{exc2}, fractional-data warning: {bool(frac)}',
                         repro=base + 'import warnings\nwith warnings.catch_warnings(record=True) as w:\n    warnings.simplefilter("always")\n    try: b.add_linear_inequality_constraint([(v, float(a)) for v, a in terms], 1, "c", constant=float(c), lb=lb, ub=ub)\n    except ValueError: pass\nassert not any("fractional" in str(x.message) for x in w)\n')
        elif how == 'fractional':
            which = r.choice(['c', 'bias', 'ub'])
            t2 = [(v, a + (0.5 if (which == 'bias' and i == 0) else 0)) for i, (v, a) in enumerate(terms)]
            with warnings.catch_warnings(record=True) as w:
                warnings.simplefilter('always')
                try:
                    b.add_linear_inequality_constraint(t2, 1, 'c', constant=c + (0.5 if which == 'c' else 0), lb=lb, ub=ub + (0.5 if which == 'ub' and abs(ub) < 2 ** 50 else 0))
                except ValueError:
                    pass
            warned = any('fractional' in str(x.message) for x in w)
            if not warned and not (which == 'ub' and abs(ub) >= 2 ** 50):
                ctx.fail('property', site, 'fractional data warning', f'terms {t2!r} c={c} lb={lb} ub={ub} with a fractional {which}: no warning about fractional coefficients',
                         repro=base + 'import warnings\nwith warnings.catch_warnings(record=True) as w:\n    warnings.simplefilter("always")\n    try: b.add_linear_inequality_constraint(terms, 1, "c", constant=c + 0.5, lb=lb, ub=ub)\n    except ValueError: pass\nassert any("fractional" in str(x.message) for x in w)\n')
        else:
            # float infinities are not bounds (ints are; the default lb is the int64 minimum): refused before anything is added
            ret, exc, _w = (lambda: None)(), None, None
            try:
                b.add_linear_inequality_constraint(list(terms), 1, 'c', constant=c, lb=-float('inf') if r.random() < .5 else lb, ub=float('inf'))
                exc = None
            except Exception as e:  # noqa
                exc = type(e).__name__
            untouched = b.offset == 0 and b.is_linear() and list(b.variables) == vs
            if exc != 'OverflowError' or not untouched:
                ctx.fail('property', site, 'float infinity as a bound', f'terms {terms!r}: ub=inf raised {exc} (expected the OverflowError of int(inf)), model untouched: {untouched}',
                         repro=base + 'try:\n    b.add_linear_inequality_constraint(terms, 1, "c", constant=c, lb=lb, ub=float("inf"))\n    e = None\nexcept Exception as ex:\n    e = type(ex).__name__\nassert e == "OverflowError" and b.offset == 0 and b.is_linear()\n')

# ------------------------------------------------------------------------------------ log2 / log10 as computed by the code

def log10_boundary_cases(ctx, r):
    """`slack_method='log10'` at S = 10**k + d, k <= 18: the number of slack variables is the number of decimal digits of S.
    Computed as `int(np.ceil(np.log10(S + 1)))` it is one short at S = 10**15 (log10(10**15 + 1) rounds to 15.0) and for
    S = 10**k + d, k >= 16 (S + 1 is not even a float): the highest digit variable is missing, the slack reaches only
    10**k - 1 < S, and the FEASIBLE assignment with sum == lb gets a positive penalty.  Judged on the returned slack terms in
    exact integers (sound bound: the sum of the per-variable maxima); the over-coverage of the digit lists is D17 (known)."""
    ds = (-2, -1, 0, 1, 2, 9, 37) if ctx.quick else tuple(range(-40, 41))
    Ss = sorted({10 ** k + d for k in range(1, 19) for d in ds if 10 ** k + d >= 2})
    float_wrong = []
    for S in Ss:
        if int(np.ceil(np.log10(S + 1))) != len(str(S)):
            float_wrong.append(S)
        dq = dimod.DiscreteQuadraticModel(); dq.add_variable(2, 'a'); dq.add_variable(2, 'b')
        with warnings.catch_warnings():
            warnings.simplefilter('ignore')
            st = dq.add_linear_inequality_constraint([('a', 1, 2), ('b', 1, S + 5)], 1, 'c', lb=2, ub=S + 2, slack_method='log10')
        per = {}
        for v, _case, bias in st:
            per.setdefault(v, []).append(int(bias))
        reach = sum(max(x) for x in per.values())
        k = len(str(S)) - 1
        ctx.case(('bound:log10', S), nontrivial=True); ctx.tick('boundary:dqm-log10' + (':>=10**15' if S >= 10 ** 15 else ''))
        if reach < S or len(per) < len(str(S)):
            ctx.fail('property', 'DQM.add_linear_inequality_constraint', 'slack_method=log10, slack range 10**k + d, k >= 15',
                     f'DQM.add_linear_inequality_constraint([("a", 1, 2), ("b", 1, {S + 5})], 1, "c", lb=2, ub={S + 2}, slack_method="log10") (S = 10**{k} + {S - 10 ** k}): {len(per)} slack variables for a '
                     f'{len(str(S))}-digit range; the returned slack terms reach at most {reach} < S = {S}, so the feasible assignment a=1, b=0 (sum 2 = lb, needs slack {S}) cannot get penalty 0',
                     repro=HDR + f'S = {S}\nd = dimod.DiscreteQuadraticModel(); d.add_variable(2, "a"); d.add_variable(2, "b")\nst = d.add_linear_inequality_constraint([("a", 1, 2), ("b", 1, S + 5)], 1, "c", lb=2, ub=S + 2, slack_method="log10")\n'
                           'per = {}\nfor v, _, bias in st: per.setdefault(v, []).append(int(bias))\nassert sum(max(x) for x in per.values()) >= S and len(per) == len(str(S)), (len(per), sum(max(x) for x in per.values()) - S)\n')
            break
    ctx.extra['float_log10_digit_count'] = dict(checked=len(Ss), range='S = 10**k + d, k <= 18, d in ' + (str(list(ds)) if ctx.quick else '-40..40'),
                                                float_differs_from_exact=[f'10**{len(str(s)) - 1}+{s - 10 ** (len(str(s)) - 1)}' for s in float_wrong][:12], n_differs=len(float_wrong))
    ctx.notes.append(f'TEST (not a theorem): int(ceil(np.log10(S + 1))) != len(str(S)) for {len(float_wrong)} of the {len(Ss)} boundary values S = 10**k + d (first: {float_wrong[:3]}); the source uses the exact digit count')


def float_log_test(ctx):
    top = ctx.scale(2 ** 13, 2 ** 20)
    S = np.arange(1, top + 1, dtype=np.int64)
    fl = np.floor(np.log2(S)).astype(np.int64)
    ref = np.array([int(s).bit_length() - 1 for s in S], dtype=np.int64)
    bad = np.nonzero(fl != ref)[0]
    extra = [2 ** k + e for k in range(2, 63) for e in (-1, 0, 1)]
    bad2 = [s for s in extra if int(np.floor(np.log2(s))) != s.bit_length() - 1]
    bad3 = [s for s in extra + list(range(2, 5000)) if s < 2 ** 53 and math.floor(math.log2(s)) != s.bit_length() - 1]
    cl = np.ceil(np.log10(S + 1)).astype(np.int64)
    refc = np.array([len(str(int(s))) for s in S], dtype=np.int64)   # smallest k with S+1 <= 10^k  == number of digits of S
    badc = np.nonzero(cl != refc)[0]
    ctx.extra['float_log_test'] = dict(range_checked=int(top), np_log2_mismatches=int(len(bad)), np_log2_mismatch_near_powers=[str(s) for s in bad2[:6]],
                                       math_log2_mismatches=[str(s) for s in bad3[:6]], np_log10_mismatches=int(len(badc)))
    ctx.notes.append(f'TEST (not a theorem): int(floor(np.log2 S)) == Nat.log2 S for all S <= {top}: {len(bad) == 0}; '
                     f'near 2^k (k<63): first float disagreements at {bad2[:3]} (slack ranges that large do not occur for int64-bounded constraints with |coefficients| small); '
                     f'ceil(np.log10(S+1)) == clog10 S for all S <= {top}: {len(badc) == 0}')
    ctx.tick('float_log_test', int(top))
    return len(bad) == 0 and len(badc) == 0


def directed_known(ctx):
    """the two documented counter-examples, evaluated on every run so that the findings are reported for every seed"""
    # D17: one variable with value a in 0..30, 5 <= a <= 20, log10 slack
    src = (HDR + 'd = DQM(); d.add_variable(31, "a")\n'
           'sl = d.add_linear_inequality_constraint([("a", i, i) for i in range(31)], 1.0, "c", lb=5, ub=20, slack_method="log10")\n'
           'ss = [v for v in d.variables if v != "a"]\n'
           'for a in range(31):\n'
           '    m = min(d.energy({"a": a, **dict(zip(ss, u))}) for u in itertools.product(*[range(d.num_cases(v)) for v in ss]))\n'
           '    assert (m == 0) if 5 <= a <= 20 else (m >= 1), (a, m)\n')
    d = DQM(); d.add_variable(31, 'a')
    with warnings.catch_warnings():
        warnings.simplefilter('ignore')
        d.add_linear_inequality_constraint([('a', i, i) for i in range(31)], 1.0, 'c', lb=5, ub=20, slack_method='log10')
    ss = [v for v in d.variables if v != 'a']
    ctx.tick('directed:D17'); ctx.case(('directed', 'D17'), nontrivial=True)
    for a in range(31):
        m = min(d.energy({'a': a, **dict(zip(ss, u))}) for u in itertools.product(*[range(d.num_cases(v)) for v in ss]))
        if (m != 0) if 5 <= a <= 20 else (m < 1):
            ctx.fail('property', 'DQM.add_linear_inequality_constraint', 'slack_method=log10',
                     f'one variable with value a in 0..30, 5 <= a <= 20, lam 1: a={a} has penalty {m} minimised over the slack variables', repro=src)
            break
    # D18: SPIN model, a + b <= 0
    src = (HDR + 'b = BQM("SPIN")\nsl = b.add_linear_inequality_constraint([("a", 1), ("b", 1)], 1.0, "c", ub=0, lb=-5)\n'
           'ss = [v for v, _ in sl]\n'
           'for a, bb in itertools.product((-1, 1), repeat=2):\n'
           '    m = min(b.energy({"a": a, "b": bb, **dict(zip(ss, u))}) for u in itertools.product((-1, 1), repeat=len(ss)))\n'
           '    assert (m == 0) if -5 <= a + bb <= 0 else (m >= 1), (a, bb, m)\n')
    b = BQM('SPIN')
    ctx.tick('directed:D18'); ctx.case(('directed', 'D18'), nontrivial=True)
    try:
        with warnings.catch_warnings():
            warnings.simplefilter('ignore')
            sl = b.add_linear_inequality_constraint([('a', 1), ('b', 1)], 1.0, 'c', ub=0, lb=-5)
    except Exception as e:  # noqa  the directed (known-finding) case itself must not stop the run
        ctx.tick('directed:D18:raises:' + type(e).__name__)
        return
    ss = [v for v, _ in sl]
    for a, bb in itertools.product((-1, 1), repeat=2):
        m = min(b.energy({'a': a, 'b': bb, **dict(zip(ss, u))}) for u in itertools.product((-1, 1), repeat=len(ss)))
        if (m != 0) if -5 <= a + bb <= 0 else (m < 1):
            ctx.fail('property', 'BQM.add_linear_inequality_constraint', 'SPIN model',
                     f'SPIN model, a + b <= 0 (lb=-5): (a, b)=({a}, {bb}) has penalty {m} minimised over slack', repro=src)
            break


def run(ctx):
    r = ctx.rng
    ctx.rule = ('random linear constraints with small dyadic / integer coefficients, repeated labels with probability 1/4, routed through cyBQM float64/float32, '
                'object dtype, .spin/.binary views, cyDQM (all three slack methods) and cqm_to_bqm; a case = one call; the predicate is evaluated at every '
                'sample x every slack assignment; non-trivial = the call added a penalty (not refused, not an empty term list / zero multiplier)')
    lines, checks = [], []
    install_safety_net()
    _NET['always'] = ctx.quick
    netted(ctx, 'directed_known', lambda: directed_known(ctx))
    n = ctx.scale(260, 6000)
    for _ in range(n):
        netted(ctx, 'eq_bqm_case', lambda: eq_bqm_case(ctx, r, lines, checks))
    for _ in range(ctx.scale(160, 4000)):
        netted(ctx, 'eq_dqm_case', lambda: eq_dqm_case(ctx, r, lines, checks))
    for _ in range(ctx.scale(220, 5000)):
        netted(ctx, 'ineq_bqm_case', lambda: ineq_bqm_case(ctx, r, lines, checks))
    netted(ctx, 'ineq_bqm_sweep', lambda: ineq_bqm_sweep(ctx, r, lines, checks))
    for _ in range(ctx.scale(160, 4000)):
        netted(ctx, 'ineq_dqm_case', lambda: ineq_dqm_case(ctx, r, lines, checks))
    netted(ctx, 'ineq_dqm_sweep', lambda: ineq_dqm_sweep(ctx, r, lines, checks))
    netted(ctx, 'benc_cases', lambda: benc_cases(ctx, r, lines, checks))
    netted(ctx, 'slack_boundary_cases', lambda: slack_boundary_cases(ctx, r, lines, checks))
    netted(ctx, 'option_cases', lambda: option_cases(ctx, r))
    netted(ctx, 'log10_boundary_cases', lambda: log10_boundary_cases(ctx, r))
    for _ in range(ctx.scale(140, 3000)):
        netted(ctx, 'cqm_case', lambda: cqm_case(ctx, r, lines, checks))
    if len(lines) != len(checks):    # a phase stopped by the safety net between the two appends
        k = min(len(lines), len(checks)); del lines[k:]; del checks[k:]
    if not float_log_test(ctx):
        ctx.fail('property', 'np.log2 / np.log10 as used for the slack count', 'small S', 'float floor(log2 S) or ceil(log10(S+1)) differs from the exact integer value', repro=None)
    # slack lists of the model vs the closed forms, small S
    got = run_driver('penaltydriver', lines)
    ctx.corr_lines += len(lines)
    for i, ln in enumerate(lines):
        site, cls, want, src, had_prop_failure = checks[i]
        g = got[i] if i < len(got) else 'MISSING'
        if isinstance(want, tuple):
            _, bqm, groups, lam = want
            if not g.startswith('ok '):
                w = 'ok ...'
            else:
                lam_m, _, rest = g[3:].partition(';')
                w = f'ok {lam_m};' + canon_cqm_result(bqm, groups, g)
        else:
            w = want
        if g != w and not had_prop_failure:
            ctx.fail('correspondence', site, cls, f'line `{ln}`: implementation `{w}` model `{g}`', repro=src)
