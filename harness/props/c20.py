"""C20 — no call sequence corrupts the native data structures.

(i)  C++ header API: random VALID op sequences (harness/props/c20_cpp.py generates them interactively
     from the printed state; harness/cpp/interp.cc executes them on BinaryQuadraticModel / QuadraticModel /
     Expression / Constraint / ConstrainedQuadraticModel built from the scratch build's `dimod/include` with
     clang++-14 -fsanitize=address,undefined -UNDEBUG -D_GLIBCXX_ASSERTIONS).  After every op:
     property predicate = structural invariants evaluated directly on the printed state (sorted, symmetric
     with equal biases, in bounds, no SPIN/BINARY self-loop, counts) + the const API agrees with the rows +
     no sanitizer report / failed assertion / leak;  correspondence = the BQM/QM slots equal the Lean
     index-level model (`cppdriver`), counts (`num_interactions`, `degree`, `is_linear`) included.
(ii) Python boundary: each malformed call (unknown labels, negative / out-of-range indices and cases,
     malformed arrays, NaN/inf, wrong types, None) on FRESH objects in its OWN child process; a crash, abort
     or timeout of the child, a model that changed although the call raised, or a model that cannot be read
     back afterwards is a violation.
(iii) systematic sweeps in batches (a crash re-runs the batch one call per process): every DQM mutator / getter, and
     (`c20_sweep.py`) every BQM / QM mutator x every argument position x every class of malformed argument on fresh
     float64 / float32 / object / range-labelled / empty models and views, incl. dense matrices and arrays LARGER than
     the model with invalid content: a rejected call leaves the full observable state (labels, coefficients through
     three read paths, counts, native size, the base model of a view) unchanged.
(iv) (`c20_pyseq.py`) VALID Python call sequences on two cooperating models (update / += / + / - / -= / symbolic sums /
     from_bqm / QM.update(BQM); receiver empty / linear-only / with interactions / with a self-loop; shared variables in the
     same or a permuted order; float64 / float32) + single edits of the result + a small-scope exhaustive sweep: after every
     line the native adjacency read through the public API is well-formed (strictly sorted neighbourhoods, symmetric,
     binary-search lookups from both sides, counts) and holds the independently computed polynomial.
(v)  (`c20_bulk.py`) every bulk / iterable mutator of CQM / QM / BQM / DQM on a fresh model with the FAILING element in the
     MIDDLE of its argument (new labels / terms first): afterwards labels, num_variables and the native size agree, every
     per-variable record can be read, expressions name only model variables, the adjacency audit of (iv) holds, and a
     follow-up of valid calls (new variable, terms on it, read back, file round trip) succeeds.
"""
import json
import os
import random
import re
import subprocess
import sys
import tempfile
from concurrent.futures import ThreadPoolExecutor
from fractions import Fraction as F

from harness.common import VERIF, rat, run_driver
from harness.props import c20_cpp, c20_sweep, c20_pyseq, c20_bulk

PY = '/venv/bin/python'

# ---------------------------------------------------------------- (i) C++ sequences

MODELLED = {'new', 'q', 'clear', 'copy', 'cctor', 'move', 'mctor', 'swap', 'dense', 'adddense', 'coo', 'aqil', 'addvar', 'addvars',
            'al', 'sl', 'sll', 'ao', 'so', 'aq', 'sq', 'aqb', 'ri', 'rif', 'rv', 'rvs', 'rs', 'rsv', 'sc', 'fx', 'sv', 'svs', 'cv',
            'slb', 'sup', 'svt', 'energy', 'eq', 'qmfrombqm', 'qmfrombqmf'}
NUM = re.compile(r'^-?(0x[0-9a-f.]+p[-+]?\d+|\d+(\.\d+)?(e[-+]?\d+)?)$', re.I)


def norm_token(tok):
    """numbers of an op line as exact p/q (the Lean driver reads nothing else)"""
    def one(x):
        if x in ('inf', '-inf') or not NUM.match(x):
            return x
        if '0x' in x.lower():
            return rat(F(float.fromhex(x)))
        if '.' in x or 'e' in x.lower():
            return rat(F(x))
        return x
    return ','.join(one(x) for x in tok.split(','))


def norm_op(op):
    return ' '.join(norm_token(t) for t in op.split())


def render(st):
    """a parsed interpreter state in the cppdriver's text"""
    j = ','.join
    rows = '|'.join(j(f'{v}:{rat(b)}' for v, b in row) for row in st['adj'])
    return (f"{st['name']} n={st['n']};off={rat(st['off'])};lin={j(rat(x) for x in st['lin'])};adj={rows};vt={''.join(st['vt'])};"
            f"lb={j(rat(x) for x in st['lb'])};ub={j(rat(x) for x in st['ub'])};ni={st['ni']};deg={j(str(d) for d in st['deg'])};"
            f"lin?={1 if st['is_linear'] else 0};bvt={st.get('bvt', '-')}")


CQM_STEPPED = ({'kadd', 'krm', 'kassign', 'kswap', 'crv', 'cfx', 'csv', 'cslb', 'csup', 'csvt', 'ccv'}
               | {p + e for p in 'ok' for e in ('al', 'sl', 'aq', 'ri', 'rv', 'sv')})


def cx_expr(e, empty):
    j = lambda xs: ','.join(xs) or empty
    rows = '|'.join(','.join(f'{v}:{rat(b)}' for v, b in row) for row in e['adj']) or empty
    return f"{j(str(v) for v in e['vars'])}~{j(rat(x) for x in e['lin'])}~{rows}~{rat(e['off'])}"


def cx_state(st, empty):
    """a parsed CQM state of the interpreter in the text of the cppdriver's `cx` command (`empty` = '-' on input, '' in
    the driver's answer)"""
    j = lambda xs: ','.join(xs) or empty
    return ' '.join([''.join(st['vt']) or empty, j(rat(x) for x in st['lb']), j(rat(x) for x in st['ub']), cx_expr(st['obj'], empty),
                     ';'.join(cx_expr(c, empty) for c in st['cons']) or empty])


def cx_canon(text):
    """a `cx` state text up to the order in which an expression lists its variables (`Expression::add_quadratic` evaluates
    `enforce_variable(u)` and `enforce_variable(v)` in an order the C++ standard leaves to the compiler): per expression the
    linear bias per global variable, the bias per directed pair of global variables, the offset"""
    parts = text.split(' ')
    if len(parts) != 5:
        return text
    def ex(t):
        vs, lin, adj, off = t.split('~')
        vs = [int(x) for x in vs.split(',')] if vs not in ('', '-') else []
        lin = lin.split(',') if lin not in ('', '-') else []
        rows = adj.split('|') if adj not in ('', '-') else []
        rows = rows + [''] * (len(vs) - len(rows))
        quad = sorted((vs[i], vs[int(e.split(':')[0])], e.split(':')[1]) for i, r in enumerate(rows) for e in r.split(',') if e)
        return (sorted(zip(vs, lin)), quad, off, len(lin) == len(vs) == len(rows))
    return (parts[0].replace('-', ''), parts[1].replace('-', '') if parts[1] == '-' else parts[1], parts[2] if parts[2] != '-' else '',
            ex(parts[3]), [ex(t) for t in parts[4].split(';')] if parts[4] not in ('', '-') else [])


def cx_finite(st):
    vals = list(st['lb']) + list(st['ub'])
    for e in [st['obj']] + list(st['cons']):
        vals += [e['off']] + list(e['lin']) + [b for row in e['adj'] for _, b in row]
    return all(isinstance(x, F) for x in vals)


def load_line(st):
    j = ','.join
    rows = '|'.join(j(f'{v}:{rat(b)}' for v, b in row) for row in st['adj']) or '-'
    bvt = {'S': 'SPIN', 'B': 'BINARY'}.get(st.get('bvt', '-'), '-')
    return (f"load {st['name']} {bvt} {st['n']} {rat(st['off'])} {j(rat(x) for x in st['lin']) or '-'} {rows} "
            f"{''.join(st['vt']) or '-'} {j(rat(x) for x in st['lb']) or '-'} {j(rat(x) for x in st['ub']) or '-'}")


def finite(st):
    vals = [st['off']] + st['lin'] + st['lb'] + st['ub'] + [b for row in st['adj'] for _, b in row]
    return all(isinstance(x, F) for x in vals)


REPLAY_SRC = '''import os, sys, dimod
from harness.props import c20_cpp, c20_sweep, c20_pyseq, c20_bulk
inc = os.path.join(os.path.dirname(dimod.__file__), 'include')
exe = c20_cpp.build(inc, os.path.join(os.environ.get('VERIF_SCRATCH', '/var/tmp/dimod-verif'), 'c20-cache'))
ops = %r
replies, rc, err = c20_cpp.replay(exe, ops)
bad = []
for op, line in zip(ops, replies):
    rep = c20_cpp.parse_reply(line)
    if rep['inconsistent']: bad.append((op, rep['inconsistent']))
    for st in rep['states'].values():
        inv = c20_cpp.check_invariants(st)
        if inv: bad.append((op, inv))
print(err[-3000:]); print(bad)
assert rc == 0 and not err.strip() and not bad and len(replies) == len(ops), (rc, bad)
'''


def cpp_part(ctx):
    import time
    t0 = time.time()
    inc = os.path.join(os.environ['VERIF_BUILD'], 'dimod', 'include')
    cache = os.path.join(os.environ.get('VERIF_SCRATCH', '/var/tmp/dimod-verif'), 'c20-cache')
    try:
        exe = c20_cpp.build(inc, cache)
    except c20_cpp.BuildError as e:
        ctx.fail('crash', 'cpp:build', 'interp.cc does not compile against dimod/include', str(e)[-1500:])
        return
    nseq = ctx.scale(100, 2500)
    nops = ctx.scale(50, 100)
    lean_lines, lean_expect, lean_meta = [], [], []
    cx_lines, cx_expect, cx_meta = [], [], []
    hist = __import__('collections').Counter()
    for kind in ('bqm', 'qm', 'cqm'):
        for k in range(nseq):
            rng = random.Random(f'c20-{ctx.seed}-{kind}-{k}')
            it = c20_cpp.Interp(exe)
            log, fail = c20_cpp.run_sequence(it, rng, nops, kind, avoid=(), histogram=hist)
            rc, err = (0, '')
            if fail is None:
                try:
                    rc, err = it.close()
                except Exception as e:  # noqa
                    rc, err = -1, str(e)
                if rc != 0 or err.strip():
                    fail = c20_cpp.Failure('crash', f'rc={rc}\n{err}', it.ops)
            else:
                try:
                    it.close()
                except Exception:  # noqa
                    pass
            for op, line, rep in log:
                nontrivial = True
                ctx.case(('cpp', kind, op, line), nontrivial=nontrivial,
                         sample=dict(kind='c++ ' + kind, ops=[o for o, _, _ in log[:12]]) if (k == 0 and op is log[min(11, len(log) - 1)][0]) else None)
            if fail is not None:
                last = (fail.ops[-1].split() or ['?'])[0] if fail.ops else '?'
                sig = fail.signature()
                ctx.fail('crash' if fail.category == 'crash' else 'property', f'cpp:{last}', sig[:160],
                         f'{kind} sequence of {len(fail.ops)} valid ops: {fail.detail[-700:]}',
                         repro=REPLAY_SRC % (list(fail.ops),), detail=dict(ops=list(fail.ops), stderr=fail.detail[-3000:]))
                continue
            # Expression / Constraint / CQM slots: every modelled call is replayed on the Lean model (`Cqm.cstep`, checked by
            # `Cqm.cstep?`) from the state the interpreter printed before it, and the state after is compared
            last = {}
            for op, line, rep in log:
                w = norm_op(op).split()
                cs = [t for t in w[1:] if re.fullmatch(r'c\d', t)]
                if (rep['status'] == 'ok' and w[0] in CQM_STEPPED and len(cs) == 1 and w[1] == cs[0] and cs[0] in last
                        and cs[0] in rep['states'] and cx_finite(last[cs[0]]) and cx_finite(rep['states'][cs[0]])):
                    cx_lines.append('cx ' + cx_state(last[cs[0]], '-') + ' ' + ' '.join([w[0]] + w[2:]))
                    cx_expect.append(cx_state(rep['states'][cs[0]], ''))
                    cx_meta.append((kind, op))
                    ctx.tick('cx:' + w[0])
                for name, st in rep['states'].items():
                    if st['kind'] == 'cqm':
                        last[name] = st
            # correspondence lines for the Lean index-level model
            for op, line, rep in log:
                w = op.split()
                slots = [t for t in w[1:] if re.fullmatch(r'[bqc]\d', t)]
                states = [st for st in rep['states'].values() if st['kind'] in ('bqm', 'qm')]
                if not states:
                    continue
                if w[0] in MODELLED and all(s[0] in 'bq' for s in slots) and all(finite(st) for st in states):
                    lean_lines.append(norm_op(op)); lean_expect.append(' ## '.join(render(st) for st in states))
                    lean_meta.append((kind, op))
                else:
                    for st in states:
                        if finite(st):
                            lean_lines.append(load_line(st)); lean_expect.append(None); lean_meta.append((kind, 'load'))
    for name, c in hist.items():
        ctx.tick('cpp:' + name, c)
    alphabet_part(ctx, inc, hist)
    ctx.extra['cpp_seconds'] = round(time.time() - t0, 1)
    gotx = run_driver('cppdriver', cx_lines)
    ctx.corr_lines += len(cx_lines)
    for i, ln in enumerate(cx_lines):
        g = gotx[i] if i < len(gotx) else 'MISSING'
        if g != cx_expect[i] and cx_canon(g) != cx_canon(cx_expect[i]):
            ctx.fail('correspondence', 'C++ headers vs Lean Expression / CQM model', cx_meta[i][1].split()[0],
                     f'line {i} `{ln}`: interpreter `{cx_expect[i]}` model `{g}`' + (' (the checked call hits a failing vector access)' if g == 'UB' else ''))
            break
    ctx.extra['cx_lines'] = len(cx_lines)
    got = run_driver('cppdriver', lean_lines)
    ctx.corr_lines += len(lean_lines)
    for i, ln in enumerate(lean_lines):
        if lean_expect[i] is None:
            continue
        g = got[i] if i < len(got) else 'MISSING'
        if g != lean_expect[i]:
            ctx.fail('correspondence', 'C++ headers vs Lean CppM', lean_meta[i][1].split()[0],
                     f'line {i} `{ln}`: interpreter `{lean_expect[i]}` model `{g}`', detail=dict(prev=lean_lines[max(0, i - 6):i]))
            break


def alphabet_part(ctx, inc, hist):
    """coverage of the op alphabet, checked: every public mutator of QuadraticModelBase found in abc.h (name, arity,
    initializer-list overload; harness/translators/c20_abc_mutators.py) is called with that arity by an op of
    harness/cpp/interp.cc, that op is one the Lean driver executes (`Cpp.driverOps` = MODELLED) and the generator emitted it
    in this run"""
    import importlib.util
    spec = importlib.util.spec_from_file_location('c20_abc_mutators', os.path.join(VERIF, 'harness', 'translators', 'c20_abc_mutators.py'))
    T = importlib.util.module_from_spec(spec); spec.loader.exec_module(T)
    muts, _ = T.mutators(os.path.join(inc, 'dimod', 'abc.h'))
    calls = T.interp_calls()
    lean_src = open(os.path.join(VERIF, 'lean', 'DimodModel', 'CppCover.lean')).read()
    m = re.search(r'def driverOps : List String :=\s*\[(.*?)\]', lean_src, flags=re.S)
    driver_ops = set(re.findall(r'"(\w+)"', m.group(1))) if m else set()
    if driver_ops != MODELLED:
        ctx.fail('correspondence', 'op alphabet', 'Cpp.driverOps differs from the ops the harness sends to the model',
                 f'only in Lean: {sorted(driver_ops - MODELLED)}, only in c20.py: {sorted(MODELLED - driver_ops)}')
    cover = dict((tuple([n, int(a), il == 'true']), re.findall(r'"(\w+)"', ops))
                 for n, a, il, ops in re.findall(r'\(\("(\w+)", (\d+), (true|false)\), \[(.*?)\]\)', lean_src))
    for s in muts:
        name = f'{s[0]}/{s[1]}' + ('/initializer_list' if s[2] else '')
        toks = sorted(t for t, cs in calls.items() if s in cs)
        if not toks:
            ctx.fail('correspondence', 'op alphabet', f'{name} not exercised', f'abc.h declares the public mutator {name}; no op of harness/cpp/interp.cc calls it with that arity')
        elif not any(t in MODELLED for t in toks):
            ctx.fail('correspondence', 'op alphabet', f'{name} not modelled', f'{name} is called by {toks}, none of which the Lean driver executes')
        elif not any(hist.get(t) for t in toks):
            ctx.fail('correspondence', 'op alphabet', f'{name} not generated', f'{name} is called by {toks}; the generator emitted none of them in this run')
        elif sorted(cover.get(tuple(s), [])) != [t for t in toks]:
            ctx.fail('correspondence', 'op alphabet', f'{name}: coverage table out of step',
                     f'Cpp.cover says {cover.get(tuple(s))}, interp.cc calls it under {toks}')
        else:
            ctx.tick('abc-mutator-covered:' + name, sum(hist.get(t, 0) for t in toks))
    ctx.extra['abc_public_mutators'] = len(muts)


# ---------------------------------------------------------------- (ii) Python boundary

SETUP = {
    'bqm64': "m = dimod.BinaryQuadraticModel({'a': 1.0, 'b': -0.5, 0: 0.25}, {('a', 'b'): 0.5, ('b', 0): -1.5}, 0.75, 'SPIN')",
    'bqm32': "m = dimod.BinaryQuadraticModel({'a': 1.0, 'b': -0.5, 0: 0.25}, {('a', 'b'): 0.5, ('b', 0): -1.5}, 0.75, 'BINARY', dtype=np.float32)",
    'bqmobj': "m = dimod.BinaryQuadraticModel({'a': 1.0, 'b': -0.5, 0: 0.25}, {('a', 'b'): 0.5, ('b', 0): -1.5}, 0.75, 'SPIN', dtype=object)",
    'bqmrange': "m = dimod.BinaryQuadraticModel([1.0, -0.5, 0.25], {(0, 1): 0.5, (1, 2): -1.5}, 0.75, 'SPIN')",
    'view': "base = dimod.BinaryQuadraticModel({'a': 1.0, 'b': -0.5, 0: 0.25}, {('a', 'b'): 0.5, ('b', 0): -1.5}, 0.75, 'SPIN'); m = base.binary",
    'qm': ("m = dimod.QuadraticModel(); m.add_variable('INTEGER', 'i', lower_bound=-2, upper_bound=5); m.add_variable('BINARY', 'x'); "
           "m.add_variable('SPIN', 's'); m.add_variable('REAL', 'r'); m.add_linear('i', 1.5); m.add_quadratic('i', 'x', 0.5); m.add_quadratic('i', 'i', 2.0); m.offset = 0.25"),
    'dqm': ("m = dimod.DiscreteQuadraticModel(); m.add_variable(3, 'a'); m.add_variable(2, 'b'); m.add_variable(4, 'c'); "
            "m.set_linear('a', [1., 2., 3.]); m.set_quadratic('a', 'b', {(0, 1): 1.5, (2, 0): -0.5}); m.set_quadratic_case('b', 1, 'c', 3, 2.0)"),
    'cqm': ("m = dimod.ConstrainedQuadraticModel(); x = dimod.Binary('x'); y = dimod.Binary('y'); i = dimod.Integer('i', upper_bound=7); "
            "m.set_objective(x + 2 * y + x * y - i); m.add_constraint(x + y + i <= 3, label='c0'); m.add_constraint(x * y - i == 0, label='c1')"),
}

STATE = {
    'bqm': ("def state(m):\n    L = list(m.variables)\n    return (L, [float(m.get_linear(v)) for v in L], sorted((repr(u), repr(v), float(b)) for u, v, b in m.iter_quadratic()),"
            " float(m.offset), m.vartype.name, m.num_variables, m.num_interactions)"),
    'qm': ("def state(m):\n    L = list(m.variables)\n    return (L, [(m.vartype(v).name, float(m.lower_bound(v)), float(m.upper_bound(v)), float(m.get_linear(v))) for v in L],"
           " sorted((repr(u), repr(v), float(b)) for u, v, b in m.iter_quadratic()), float(m.offset), m.num_variables, m.num_interactions)"),
    'dqm': ("def state(m):\n    L = list(m.variables)\n    return (L, [list(map(float, m.get_linear(v))) for v in L],"
            " sorted((repr(u), repr(v), sorted(m.get_quadratic(u, v).items())) for u in L for v in m.adj[u] if L.index(u) < L.index(v)), float(m.offset), m.num_cases())"),
    'cqm': ("def state(m):\n    L = list(m.variables)\n    ex = lambda e: (list(e.variables), [float(e.get_linear(v)) for v in e.variables], sorted((repr(u), repr(v), float(b)) for u, v, b in e.iter_quadratic()), float(e.offset))\n"
            "    return (L, [(m.vartype(v).name, float(m.lower_bound(v)), float(m.upper_bound(v))) for v in L], ex(m.objective),"
            " [(repr(k), c.sense.name, float(c.rhs), ex(c.lhs)) for k, c in m.constraints.items()])"),
}
STATE_OF = {'bqm64': 'bqm', 'bqm32': 'bqm', 'bqmobj': 'bqm', 'bqmrange': 'bqm', 'view': 'bqm', 'qm': 'qm', 'dqm': 'dqm', 'cqm': 'cqm'}

BADL = ["'zz'", 'None', '[1]', '-1', '99', "float('nan')", '{}']
BADB = ["'x'", 'None', "float('nan')", "float('inf')", '[1.0, 2.0]', 'object()']


def boundary_cases():
    """(object kind, site, input class, call source).  `m` is the fresh model; the call must not crash the
    interpreter and, if it raises, must leave `m` unchanged."""
    out = []
    def add(kinds, site, cls, src):
        for k in kinds:
            out.append((k, site, cls, src))
    B = ['bqm64', 'bqm32', 'bqmobj', 'view']
    for l in BADL:
        add(B, 'BQM.add_linear', f'label {l}', f'm.add_linear({l}, 1.0)')
        add(B, 'BQM.set_linear', f'label {l}', f'm.set_linear({l}, 1.0)')
        add(B, 'BQM.add_quadratic', f'second label {l}', f"m.add_quadratic('new', {l}, 1.0)")
        add(B, 'BQM.add_quadratic', f'first label {l}', f"m.add_quadratic({l}, 'new', 1.0)")
        add(B, 'BQM.set_quadratic', f'second label {l}', f"m.set_quadratic('new', {l}, 1.0)")
        add(B, 'BQM.get_linear', f'label {l}', f'm.get_linear({l})')
        add(B, 'BQM.get_quadratic', f'label {l}', f"m.get_quadratic('a', {l})")
        add(B, 'BQM.remove_variable', f'label {l}', f'm.remove_variable({l})' if l != 'None' else "m.remove_variable('nope')")
        add(B, 'BQM.remove_interaction', f'label {l}', f"m.remove_interaction('a', {l})")
        add(B, 'BQM.degree', f'label {l}', f'm.degree({l})')
        add(B, 'BQM.iter_neighborhood', f'label {l}', f'list(m.iter_neighborhood({l}))')
        add(B, 'BQM.fix_variable', f'label {l}', f'm.fix_variable({l}, 1)')
        add(B, 'BQM.flip_variable', f'label {l}', f'm.flip_variable({l})')
        add(B, 'BQM.contract_variables', f'label {l}', f"m.contract_variables('a', {l})")
        add(B, 'BQM.relabel_variables', f'target {l}', f"m.relabel_variables({{'a': {l}}})" if l not in ('{}',) else "m.relabel_variables({'a': {}})")
        add(['qm'], 'QM.add_linear', f'label {l}', f'm.add_linear({l}, 1.0)')
        add(['qm'], 'QM.add_quadratic', f'label {l}', f"m.add_quadratic('i', {l}, 1.0)")
        add(['qm'], 'QM.set_quadratic', f'label {l}', f"m.set_quadratic({l}, 'x', 1.0)")
        add(['qm'], 'QM.remove_variable', f'label {l}', f'm.remove_variable({l})' if l != 'None' else "m.remove_variable('nope')")
        add(['qm'], 'QM.change_vartype', f'label {l}', f"m.change_vartype('BINARY', {l})")
        add(['qm'], 'QM.set_lower_bound', f'label {l}', f'm.set_lower_bound({l}, 0)')
        add(['qm'], 'QM.add_variable', f'label {l}', f"m.add_variable('BINARY', {l})" if l != 'None' else "m.add_variable('NOPE', 'q')")
        add(['dqm'], 'DQM.get_linear', f'variable {l}', f'm.get_linear({l})')
        add(['dqm'], 'DQM.set_linear_case', f'variable {l}', f'm.set_linear_case({l}, 0, 1.0)')
        add(['dqm'], 'DQM.set_quadratic_case', f'variable {l}', f"m.set_quadratic_case('a', 0, {l}, 0, 1.0)")
        add(['dqm'], 'DQM.get_quadratic', f'variable {l}', f"m.get_quadratic('a', {l})")
        add(['cqm'], 'CQM.fix_variable', f'label {l}', f'm.fix_variable({l}, 1)')
        add(['cqm'], 'CQM.remove_constraint', f'label {l}', f'm.remove_constraint({l})')
        add(['cqm'], 'CQM.set_lower_bound', f'label {l}', f'm.set_lower_bound({l}, 0)')
    NB = ['bqm64', 'bqm32', 'view']        # an object-dtype model stores any object as a bias
    for b in BADB:
        B = NB
        add(B, 'BQM.add_linear', f'bias {b}', f"m.add_linear('new', {b})")
        add(B, 'BQM.set_linear', f'bias {b}', f"m.set_linear('new', {b})")
        add(B, 'BQM.add_quadratic', f'bias {b}', f"m.add_quadratic('new', 'new2', {b})")
        add(B, 'BQM.set_quadratic', f'bias {b}', f"m.set_quadratic('new', 'new2', {b})")
        add(B, 'BQM.offset', f'value {b}', f'm.offset = {b}')
        add(B, 'BQM.scale', f'value {b}', f'm.scale({b})')
        add(B, 'BQM.fix_variable', f'value {b}', f"m.fix_variable('a', {b})")
        add(['qm'], 'QM.add_linear', f'bias {b}', f"m.add_linear('i', {b})")
        add(['qm'], 'QM.set_quadratic', f'bias {b}', f"m.set_quadratic('i', 'x', {b})")
        add(['qm'], 'QM.set_lower_bound', f'value {b}', f"m.set_lower_bound('i', {b})")
        add(['qm'], 'QM.set_upper_bound', f'value {b}', f"m.set_upper_bound('i', {b})")
        add(['qm'], 'QM.add_variable', f'bound {b}', f"m.add_variable('INTEGER', 'k', lower_bound={b})")
        add(['dqm'], 'DQM.set_linear_case', f'bias {b}', f"m.set_linear_case('a', 0, {b})")
        add(['dqm'], 'DQM.set_linear', f'biases {b}', f"m.set_linear('a', {b})")
    B = ['bqm64', 'bqm32', 'bqmobj', 'view']
    for n in ['-1', '-5', "'x'", 'None', '2.5']:
        add(['bqm64', 'bqm32', 'bqmobj'], 'BQM.resize', f'n {n}', f'm.resize({n})')
        add(['dqm'], 'DQM.add_variable', f'num_cases {n}', f'm.add_variable({n})')
    for c in ['-1', '-7', '3', '99', "'x'", 'None']:
        add(['dqm'], 'DQM.set_linear_case', f'case {c}', f"m.set_linear_case('a', {c}, 1.0)")
        add(['dqm'], 'DQM.get_linear_case', f'case {c}', f"m.get_linear_case('a', {c})")
        add(['dqm'], 'DQM.set_quadratic_case', f'case {c}', f"m.set_quadratic_case('a', {c}, 'b', 0, 1.0)")
        add(['dqm'], 'DQM.set_quadratic_case', f'second case {c}', f"m.set_quadratic_case('a', 0, 'b', {c}, 1.0)")
        add(['dqm'], 'DQM.get_quadratic_case', f'case {c}', f"m.get_quadratic_case('a', {c}, 'b', 0)")
        add(['dqm'], 'DQM.energies', f'case {c}', f"m.energies({{'a': 0, 'b': {c}, 'c': 0}})")
        add(['dqm'], 'DQM.energy', f'case {c}', f"m.energy({{'a': {c}, 'b': 0, 'c': 0}})")
        add(['dqm'], 'DQM.add_linear_equality_constraint', f'case {c}', f"m.add_linear_equality_constraint([('a', {c}, 1.0), ('b', 0, 1.0)], 1.0, 0.0)")
        add(['dqm'], 'DQM.add_linear_equality_constraint', f'case {c}, constant 2', f"m.add_linear_equality_constraint([('b', 0, 1.0), ('a', {c}, 1.0)], 1.0, 2.0)")
        add(['dqm'], 'DQM.add_linear_equality_constraint', f'variable {c}', f"m.add_linear_equality_constraint([({c}, 0, 1.0), ('b', 0, 1.0)], 1.0, 0.0)")
    # malformed arrays
    for q in ['([-1, 0], [1, 0], [1., 2.])', '([0, 1], [-3, 0], [1., 2.])', '([0, 5], [1, 0], [1., 2.])', '([0], [1, 0], [1., 2.])', '([0, 1], [1, 0], [1.])',
              "(['a', 0], [1, 0], [1., 2.])", '([[0, 1]], [[1, 0]], [[1., 2.]])', '([0.5, 1], [1, 0], [1., 2.])', '([0, 1], [1, 0], [float("nan"), 2.])', '(None, None, None)']:
        for cls in ('dimod.BinaryQuadraticModel', 'dimod.Float32BQM', 'dimod.DictBQM'):
            out.append(('none', f'{cls.split(".")[1]}.from_numpy_vectors', f'quadratic {q}', f"m = {cls}.from_numpy_vectors([1., 2.], {q}, 0.0, 'SPIN'); state(m); m.add_linear(0, 1.0); state(m)"))
    for lin in ["['a', 'b']", '[[1., 2.]]', 'None', '[float("nan"), 1.]']:
        out.append(('none', 'BQM.from_numpy_vectors', f'linear {lin}', f"m = dimod.BinaryQuadraticModel.from_numpy_vectors({lin}, ([0], [1], [1.]), 0.0, 'SPIN'); state(m)"))
    for vo in ["['x']", "['x', 'y', 'z']", "['x', 'x']", "['x', [1]]"]:
        out.append(('none', 'BQM.from_numpy_vectors', f'variable_order {vo}', f"m = dimod.BinaryQuadraticModel.from_numpy_vectors([1., 2.], ([0], [1], [1.]), 0.0, 'SPIN', variable_order={vo}); state(m)"))
    for arr in ['[[1., 2.]]', "['a', 'b']", 'None', '[float("nan")]', 'np.zeros((2, 2, 2))']:
        add(['bqm64', 'bqmrange'], 'BQM.add_linear_from_array', f'array {arr}', f'm.add_linear_from_array({arr})')
    for arr in ['[[0., 1.], [1., 0.], [0., 0.]]', '[1., 2.]', 'np.zeros((2, 2, 2))', "[['a', 'b'], ['c', 'd']]", '[[1., 0.], [0., 0.]]', 'None']:
        add(['bqmrange', 'bqm64', 'bqmobj'], 'BQM.add_quadratic_from_dense', f'array {arr}', f'm.add_quadratic_from_dense({arr})')
    for smp in ["{'a': 1}", "[1, -1]", "[[1, -1, 1, 1]]", "{'a': 1, 'b': 'x', 0: 1}", "([[1, -1, 1]], ['a', 'b'])", "np.zeros((1, 3), dtype=complex)", 'None', "{'a': float('nan'), 'b': 1, 0: 1}"]:
        add(['bqm64', 'bqm32', 'bqmobj', 'view'], 'BQM.energies', f'sample {smp}', f'm.energies({smp})')
        add(['qm'], 'QM.energies', f'sample {smp}', f'm.energies({smp})')
    for vo in ["['a', 'b']", "['a', 'b', 'zz']", "['a', 'a', 'b']", "['a', 'b', 0, 'c']", "[[1], 'a', 'b']"]:
        add(['bqm64', 'bqmobj'], 'BQM.to_numpy_vectors', f'variable_order {vo}', f'm.to_numpy_vectors(variable_order={vo})')
    for t in ["[('a', 'x')]", "[(None, 1.0)]", "[([1], 1.0)]", "5", "[('a', 1.0, 2.0)]"]:   # first term bad: nothing applied yet
        add(['bqm64', 'bqmobj', 'view'], 'BQM.add_linear_equality_constraint', f'terms {t}', f'm.add_linear_equality_constraint({t}, 1.0, 0.0)')
    for cs, lb in [('[-1, 1]', '[1., 2., 3.]'), ('[0, 5]', '[1., 2., 3.]'), ('[2, 0]', '[1., 2., 3.]'), ('[0, 1]', '[]'), ('[]', '[1., 2.]'), ('[1]', '[1., 2.]'), ("['a']", '[1.]'), ('[[0]]', '[1.]'), ('None', 'None')]:
        out.append(('none', 'DQM.from_numpy_vectors', f'case_starts {cs} linear {lb}',
                    f"m = dimod.DiscreteQuadraticModel.from_numpy_vectors({cs}, {lb}, ([], [], [])); dstate(m); m.add_variable(2); dstate(m)"))
    for q in ['([-1], [0], [1.])', '([0], [7], [1.])', '([0], [0], [1.])', '([0], [1], [1.])', '([0, 1], [2], [1.])', "(['a'], [2], [1.])"]:
        out.append(('none', 'DQM.from_numpy_vectors', f'quadratic {q}',
                    f"m = dimod.DiscreteQuadraticModel.from_numpy_vectors([0, 2], [1., 2., 3., 4.], {q}); dstate(m); m.add_variable(2); dstate(m)"))
    for sense in ["'<'", 'None', '5']:
        add(['cqm'], 'CQM.add_constraint', f'sense {sense}', f"m.add_constraint_from_iterable([('x', 1)], {sense}, rhs=1)")
    for lab_ in ["'c0'", '[1]']:
        add(['cqm'], 'CQM.add_constraint', f'label {lab_}', f"m.add_constraint(dimod.Binary('x') + 1 <= 2, label={lab_})")
    for d in ["[('x', 'zz')]", "[('x', 'x')]", "[('i', 'x')]", "5"]:
        add(['cqm'], 'CQM.add_discrete', f'arg {d}', f'm.add_discrete({d})')
    return out


CHILD = '''import json, sys, warnings
warnings.simplefilter('ignore')
import numpy as np, dimod
%(state_bqm)s
dstate = None
%(dstate)s
%(state)s
%(setup)s
before = None
try:
    before = state(m) if %(has_m)s else None
except Exception as e:
    print(json.dumps(dict(result='setup', what=repr(e)))); sys.exit(0)
raised = None
try:
    %(call)s
except BaseException as e:
    raised = type(e).__name__ + ': ' + str(e)[:200]
if not %(has_m)s:
    print(json.dumps(dict(result='raised' if raised else 'accepted', raised=raised))); sys.exit(0)
try:
    after = state(m)
    after2 = state(m)
except BaseException as e:
    print(json.dumps(dict(result='unreadable', raised=raised, what=type(e).__name__ + ': ' + str(e)[:200]))); sys.exit(0)
if raised is not None and repr(after) != repr(before):
    print(json.dumps(dict(result='changed', raised=raised, before=repr(before)[:600], after=repr(after)[:600])))
else:
    print(json.dumps(dict(result='raised' if raised else 'accepted', raised=raised)))
'''


def child_source(kind, call):
    sk = STATE_OF.get(kind, 'bqm')
    return CHILD % dict(state_bqm=STATE['bqm'], dstate=STATE['dqm'].replace('def state', 'def dstate'), state=STATE[sk] if kind != 'none' else '',
                        setup=SETUP.get(kind, 'm = None'), has_m='True' if kind != 'none' else 'False', call=call)


def run_child(src, env):
    try:
        p = subprocess.run([PY, '-c', src], capture_output=True, text=True, timeout=60, env=env)
    except subprocess.TimeoutExpired:
        # on a loaded machine the import alone can take that long: a real hang is still one after five more minutes
        try:
            p = subprocess.run([PY, '-c', src], capture_output=True, text=True, timeout=300, env=env)
        except subprocess.TimeoutExpired:
            return dict(result='timeout')
    if p.returncode != 0:
        return dict(result='crash', rc=p.returncode, stderr=p.stderr[-800:])
    try:
        return json.loads(p.stdout.strip().splitlines()[-1])
    except Exception:  # noqa
        return dict(result='crash', rc=p.returncode, stderr=(p.stdout + p.stderr)[-800:])


def boundary_part(ctx):
    import time
    t0 = time.time()
    cases = boundary_cases()
    r = ctx.rng
    if ctx.quick:
        # every site at least once, then a random sample
        first, rest, seen = [], [], set()
        for c in cases:
            (first if (c[0], c[1]) not in seen else rest).append(c)
            seen.add((c[0], c[1]))
        r.shuffle(rest)
        # (the BQM / QM classes of this list are all part of the batched sweep `c20_sweep`, every run; the isolated one-call-
        #  per-process form is kept for every site once plus a random sample, which bounds the quick tier's process count)
        cases = first + rest[:max(0, 170 - len(first))]
    env = dict(os.environ)
    srcs = [child_source(k, call) for k, _, _, call in cases]
    with ThreadPoolExecutor(max_workers=6) as ex:
        results = list(ex.map(lambda s: run_child(s, env), srcs))
    for (kind, site, cls, call), src, res in zip(cases, srcs, results):
        ctx.case(('boundary', kind, call), nontrivial=res['result'] != 'setup',
                 sample=dict(kind='python boundary', object=kind, call=call, outcome=res['result']) if call.endswith("('zz', 1.0)") else None)
        ctx.tick('boundary:' + res['result'])
        repro = ("import subprocess, sys, json\nsrc = %r\np = subprocess.run([sys.executable, '-c', src], capture_output=True, text=True, timeout=120)\n"
                 "print(p.stdout[-1500:], p.stderr[-1500:])\nassert p.returncode == 0, p.returncode\n"
                 "res = json.loads(p.stdout.strip().splitlines()[-1])\nassert res['result'] in ('raised', 'accepted'), res\n") % (src,)
        objname = {'none': ''}.get(kind, f' [{kind}]')
        if res['result'] in ('crash', 'timeout'):
            ctx.fail('crash', site + objname, cls, f'`{call}` on a fresh object: child process {res["result"]} '
                     f'(status {res.get("rc")}) {res.get("stderr", "")[-400:]}', repro=repro, detail=res)
        elif res['result'] == 'changed':
            ctx.fail('property', site + objname, cls + ' (changed on raise)', f'`{call}` raised {res["raised"]} but changed the model: '
                     f'{res["before"]} -> {res["after"]}', repro=repro, detail=res)
        elif res['result'] == 'unreadable':
            ctx.fail('property', site + objname, cls + ' (model unreadable afterwards)', f'`{call}` ({"raised " + res["raised"] if res["raised"] else "returned"}); '
                     f'reading the model back: {res["what"]}', repro=repro, detail=res)
        elif res['result'] == 'setup':
            ctx.fail('correspondence', 'harness', 'boundary setup', f'setup of {kind} failed: {res.get("what")}')
    ctx.extra['boundary_seconds'] = round(time.time() - t0, 1)
    ctx.extra['boundary_cases'] = len(cases)


# ---------------------------------------------------------------- DQM: every argument position of every mutator / getter

DQM_MK = ("def mk():\n    m = dimod.DiscreteQuadraticModel(); m.add_variable(3, 'a'); m.add_variable(2, 'b'); m.add_variable(4, 'c')\n"
          "    m.set_linear('a', [1., 2., 3.]); m.set_quadratic('a', 'b', {(0, 1): 1.5, (2, 0): -0.5}); m.set_quadratic_case('b', 1, 'c', 3, 2.0)\n"
          "    return m\n")
# the labelled view *and* the native content (case-level vectors, counts, adjacency): a write that is not recorded in the
# variable adjacency is invisible to get_quadratic but not to to_numpy_vectors / num_case_interactions
DQM_STATE = ("def dq_state(m):\n    L = list(m.variables)\n    cs, lb, (ir, ic, qb), lab, off = m.to_numpy_vectors(return_offset=True)\n"
             "    return (L, [list(map(float, m.get_linear(v))) for v in L],\n"
             "            sorted((repr(u), repr(v), sorted(m.get_quadratic(u, v).items())) for u in L for v in m.adj[u] if L.index(u) < L.index(v)),\n"
             "            float(m.offset), m.num_cases(), m.num_case_interactions(), m.num_variable_interactions(), {repr(u): sorted(map(repr, m.adj[u])) for u in L},\n"
             "            list(map(int, cs)), list(map(float, lb)), sorted(zip(map(int, ir), map(int, ic), map(float, qb))))\n")
DQM_NC = {'a': 3, 'b': 2, 'c': 4}
DQM_BADV = ["'zz'", '-1', '99', 'None']


def dqm_sweep_cases():
    """(site, input class, call source, must_raise): fresh model `m` (a: 3 cases, b: 2, c: 4; a-b and b-c interact).
    Every argument position of every DQM mutator / getter gets an unknown variable, a negative and a too-large case,
    for the first and for the second variable / case, in both variable orders.  must_raise: the call is invalid by the
    documented contract, so returning normally is a finding; raising and changing anything (also natively) is one too."""
    out = []
    def add(site, cls, call, must=True):
        out.append((site, cls, call, must))
    def badc(v):
        return ['-1', '-7', str(DQM_NC[v]), '99']
    def kind(c):
        return 'negative case' if c.startswith('-') else 'too-large case'
    for l in DQM_BADV:
        for f in ('get_linear', 'get_cases', 'num_cases', 'degree'):
            if f in ('num_cases', 'get_cases') and l == 'None':
                continue          # num_cases(None) is the documented "all variables" form (get_cases is range(num_cases(v)))
            add(f'DQM.{f} variable', f'variable {l}', f'm.{f}({l})')
        add('DQM.get_linear_case variable', f'variable {l}', f'm.get_linear_case({l}, 0)')
        add('DQM.set_linear variable', f'variable {l}', f'm.set_linear({l}, [1., 2.])')
        add('DQM.set_linear_case variable', f'variable {l}', f'm.set_linear_case({l}, 0, 1.0)')
        for arr in ('', ', array=True'):
            add('DQM.get_quadratic first variable', f'variable {l}{arr}', f"m.get_quadratic({l}, 'b'{arr})")
            add('DQM.get_quadratic second variable', f'variable {l}{arr}', f"m.get_quadratic('a', {l}{arr})")
        add('DQM.get_quadratic_case first variable', f'variable {l}', f"m.get_quadratic_case({l}, 0, 'b', 0)")
        add('DQM.get_quadratic_case second variable', f'variable {l}', f"m.get_quadratic_case('a', 0, {l}, 0)")
        add('DQM.set_quadratic_case first variable', f'variable {l}', f"m.set_quadratic_case({l}, 0, 'b', 0, 1.0)")
        add('DQM.set_quadratic_case second variable', f'variable {l}', f"m.set_quadratic_case('a', 0, {l}, 0, 1.0)")
        add('DQM.set_quadratic(dict) first variable', f'variable {l}', f"m.set_quadratic({l}, 'b', {{(0, 0): 1.0}})")
        add('DQM.set_quadratic(dict) second variable', f'variable {l}', f"m.set_quadratic('a', {l}, {{(0, 0): 1.0}})")
        add('DQM.set_quadratic(dense) first variable', f'variable {l}', f"m.set_quadratic({l}, 'b', np.ones((3, 2)))")
        add('DQM.set_quadratic(dense) second variable', f'variable {l}', f"m.set_quadratic('a', {l}, np.ones((3, 2)))")
    for v in 'abc':
        for c in badc(v):
            add('DQM.get_linear_case case', f'{v}: {kind(c)}', f"m.get_linear_case('{v}', {c})")
            add('DQM.set_linear_case case', f'{v}: {kind(c)}', f"m.set_linear_case('{v}', {c}, 1.0)")
        n = DQM_NC[v]
        for k in (n - 1, n + 1, 0):
            add('DQM.set_linear length', f'{v}: {k} biases', f"m.set_linear('{v}', {[1.0] * k})")
    for u, v in (('a', 'b'), ('b', 'a'), ('b', 'c'), ('c', 'b'), ('a', 'c'), ('c', 'a')):
        linked = {u, v} != {'a', 'c'}
        for c in badc(u):
            add('DQM.set_quadratic_case first case', f'({u},{v}): {kind(c)}', f"m.set_quadratic_case('{u}', {c}, '{v}', 0, 1.0)")
            add('DQM.set_quadratic(dict) first case', f'({u},{v}): {kind(c)}', f"m.set_quadratic('{u}', '{v}', {{({c}, 0): 7.0}})")
            add('DQM.set_quadratic(dict) first case after a valid entry', f'({u},{v}): {kind(c)}', f"m.set_quadratic('{u}', '{v}', {{(0, 0): 1.0, ({c}, 0): 7.0}})")
            if linked:
                add('DQM.get_quadratic_case first case', f'({u},{v}): {kind(c)}', f"m.get_quadratic_case('{u}', {c}, '{v}', 0)")
        for c in badc(v):
            add('DQM.set_quadratic_case second case', f'({u},{v}): {kind(c)}', f"m.set_quadratic_case('{u}', 0, '{v}', {c}, 1.0)")
            add('DQM.set_quadratic(dict) second case', f'({u},{v}): {kind(c)}', f"m.set_quadratic('{u}', '{v}', {{(0, {c}): 7.0}})")
            add('DQM.set_quadratic(dict) second case after a valid entry', f'({u},{v}): {kind(c)}', f"m.set_quadratic('{u}', '{v}', {{(0, 0): 1.0, (0, {c}): 7.0}})")
            if linked:
                add('DQM.get_quadratic_case second case', f'({u},{v}): {kind(c)}', f"m.get_quadratic_case('{u}', 0, '{v}', {c})")
        nu, nv = DQM_NC[u], DQM_NC[v]
        for shp in (f'({nu}, {nv + 1})', f'({nu + 1}, {nv})', f'({nu * nv + 1},)', f'({nu}, {nv}, 2)'):
            add('DQM.set_quadratic(dense) shape', f'({u},{v}): shape {shp}', f"m.set_quadratic('{u}', '{v}', np.ones({shp}))")
        add('DQM.set_quadratic(dict) malformed key', f'({u},{v})', f"m.set_quadratic('{u}', '{v}', {{(0,): 1.0}})")
        add('DQM.set_quadratic(dict) malformed bias', f'({u},{v})', f"m.set_quadratic('{u}', '{v}', {{(0, 0): 1.0, (0, 1): 'x'}})")
    for v in 'abc':
        add('DQM.set_quadratic same variable', f'{v}', f"m.set_quadratic('{v}', '{v}', {{(0, 1): 1.0}})")
        add('DQM.set_quadratic_case same variable', f'{v}', f"m.set_quadratic_case('{v}', 0, '{v}', 1, 1.0)")
    add('DQM.get_quadratic no interaction', '(a,c)', "m.get_quadratic('a', 'c')")
    add('DQM.get_quadratic no interaction', '(c,a) array', "m.get_quadratic('c', 'a', array=True)")
    return out


DQM_BATCH = '''import json, sys, warnings
warnings.simplefilter('ignore')
import numpy as np, dimod
%(mk)s
%(state)s
calls = %(calls)r
out = []
for i, call in enumerate(calls):
    m = mk()
    before = dq_state(m)
    raised = None
    print('@' + str(i), flush=True)          # progress marker: a crash is attributed to the call after the last marker
    try:
        exec(call)
    except BaseException as e:
        raised = type(e).__name__ + ': ' + str(e)[:160]
    try:
        after = dq_state(m)
    except BaseException as e:
        out.append(dict(result='unreadable', raised=raised, what=type(e).__name__ + ': ' + str(e)[:160])); continue
    if repr(after) != repr(before) and raised is not None:
        out.append(dict(result='changed', raised=raised, before=repr(before)[:700], after=repr(after)[:700]))
    else:
        out.append(dict(result='raised' if raised else 'accepted', raised=raised, changed=repr(after) != repr(before)))
print('RESULT ' + json.dumps(out))
'''


def dqm_sweep_part(ctx):
    import time
    t0 = time.time()
    cases = dqm_sweep_cases()
    env = dict(os.environ)
    def run_batch(chunk):
        src = DQM_BATCH % dict(mk=DQM_MK, state=DQM_STATE, calls=[c[2] for c in chunk])
        try:
            p = subprocess.run([PY, '-c', src], capture_output=True, text=True, timeout=300, env=env)
        except subprocess.TimeoutExpired:
            return src, None, 'timeout'
        lines = p.stdout.strip().splitlines()
        if p.returncode == 0 and lines and lines[-1].startswith('RESULT '):
            return src, json.loads(lines[-1][7:]), None
        last = max([int(x[1:]) for x in lines if x.startswith('@')] or [0])
        return src, None, f'child process exited {p.returncode} during call #{last} `{chunk[last][2]}`: {p.stderr[-300:]}'
    chunks = [cases[i::4] for i in range(4)]
    with ThreadPoolExecutor(max_workers=4) as ex:
        batches = list(ex.map(run_batch, chunks))
    for chunk, (src, results, err) in zip(chunks, batches):
        if results is None:
            # a call of this batch killed the child: run the calls of the batch one by one
            with ThreadPoolExecutor(max_workers=4) as ex:
                singles = list(ex.map(lambda c: run_batch([c]), chunk))
            results = []
            for c, (s1, r1, e1) in zip(chunk, singles):
                if r1 is None:
                    ctx.fail('crash', c[0], c[1], f'`{c[2]}` on a fresh DQM: {e1}',
                             repro="import subprocess, sys\nsrc = %r\np = subprocess.run([sys.executable, '-c', src], capture_output=True, text=True)\nprint(p.stdout[-800:], p.stderr[-800:]); assert p.returncode == 0\n" % (s1,))
                    results.append(dict(result='crash'))
                else:
                    results.append(r1[0])
        for (site, cls, call, must), res in zip(chunk, results):
            ctx.case(('dqm-sweep', call), nontrivial=True)
            ctx.tick('dqm_sweep:' + res['result'])
            repro = (DQM_MK + DQM_STATE + f"import dimod, numpy as np\nm = mk(); before = dq_state(m); raised = None\ntry:\n    {call}\nexcept Exception as e:\n    raised = e\n"
                     "print('raised', repr(raised)); print(before); print(dq_state(m))\n"
                     + ("assert raised is not None, 'accepted an invalid call'\n" if must else '') + "assert raised is None or dq_state(m) == before, 'changed on raise'\n")
            repro = 'import dimod, numpy as np\n' + repro
            if res['result'] == 'changed':
                ctx.fail('property', site, cls + ' (changed on raise)', f'`{call}` raised {res["raised"]} but changed the model (labelled or native state): '
                         f'{res["before"]} -> {res["after"]}', repro=repro, detail=res)
            elif res['result'] == 'unreadable':
                ctx.fail('property', site, cls + ' (model unreadable afterwards)', f'`{call}` ({"raised " + res["raised"] if res["raised"] else "returned"}); '
                         f'reading the model back: {res["what"]}', repro=repro, detail=res)
            elif res['result'] == 'accepted' and must:
                ctx.fail('property', site, cls + ' (accepted an invalid call)', f'`{call}` returned normally'
                         + (' and changed the model' if res.get('changed') else ''), repro=repro, detail=res)
    ctx.extra['dqm_sweep_seconds'] = round(time.time() - t0, 1)
    ctx.extra['dqm_sweep_cases'] = len(cases)


def run(ctx):
    ctx.rule = ('(i) random sequences of VALID calls on the C++ header API (ASan+UBSan+assertions), one case per op: invariants on the '
                'printed state, const API consistency, Lean model; (ii) one malformed Python call per child process on fresh objects; '
                'non-trivial = all (every op changes or probes a state; every malformed call exercises a rejection path); '
                '(iv) valid Python call sequences on two cooperating QM / BQM models (receiver class x shared-variable order x operator), '
                'native adjacency audited through the public API after every line; (v) bulk / iterable mutators of CQM / QM / BQM / DQM with the failing '
                'element in the middle: structural audit (labels vs native counts, per-variable records) and valid follow-up calls')
    cpp_part(ctx)
    boundary_part(ctx)
    dqm_sweep_part(ctx)
    c20_sweep.sweep_part(ctx)
    c20_pyseq.pyseq_part(ctx)
    c20_bulk.bulk_part(ctx)
