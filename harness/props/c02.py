"""C02 — changing between spin and binary representation never changes any energy.

(i)  correspondence with the Lean models (`DimodModel/Convert.lean`, driver `energydriver`):
     `substitute_variables` / `BQM::change_vartype` (`bqmcv`), `pyBQM.change_vartype` (`pycv`, generated multiplier table),
     `QM/CQM::change_vartype(vartype, v)` (`qmcv`, `cqmcv`), `VartypeView` reads and writes over the dict back-end
     (`lb …`, generated factor tables), `ising_to_qubo`/`qubo_to_ising`, `BinaryPolynomial.to_binary/to_spin`:
     coefficient-for-coefficient equality with the implementation after every operation.
(ii) property predicate on the real code, independent of the model: the reference is a *generic polynomial*
     (dict monomial -> Fraction) with substitution of an affine expression for a variable, multiplied out
     (`GP.substitute`).  Conversions must equal the substituted polynomial (hence every energy at x = (s+1)/2
     is preserved; all 2^n samples are also evaluated through the reported coefficients); an edit through a
     view must equal substitute → edit → substitute back; a round trip must restore the coefficients.
"""
import itertools
import textwrap
from fractions import Fraction

import numpy as np

import dimod
from dimod import (BinaryQuadraticModel as BQM, QuadraticModel as QM, ConstrainedQuadraticModel as CQM,  # noqa: F401
                   BinaryPolynomial, SampleSet)

from harness.common import lab, rat, run_driver
from harness.props.energy_common import (LABELS, Recipe, q8, F, fl, poly_value, rats, labs, rows_tok, adj_tok, qmb_tokens, parse_qmb,
                                         qmb_canon, model_canon, domain, perm_of, exc_class, gen_bqm, gen_qm, edit_history)
from harness.props.c01 import Batch

HALF = Fraction(1, 2)
TO_BINARY = (Fraction(2), Fraction(-1))      # s = 2x - 1
TO_SPIN = (HALF, HALF)                        # x = (s + 1) / 2


# ------------------------------------------------------------------------------------------ generic polynomial

class GP:
    """generic polynomial over variable ids (any hashable with a total order on repr): monomial = sorted tuple"""

    def __init__(self, terms=None):
        self.t = {}
        for k, v in (terms or {}).items():
            self.add(k, v)

    @staticmethod
    def key(mono):
        return tuple(sorted(mono, key=repr))

    def add(self, mono, c):
        k = self.key(mono)
        self.t[k] = self.t.get(k, Fraction(0)) + F(c)

    def set(self, mono, c):
        self.t[self.key(mono)] = F(c)

    def get(self, mono):
        return self.t.get(self.key(mono), Fraction(0))

    def drop(self, pred):
        self.t = {k: v for k, v in self.t.items() if not pred(k)}

    def copy(self):
        g = GP(); g.t = dict(self.t); return g

    def nz(self):
        return {k: v for k, v in self.t.items() if v != 0}

    def eval(self, x):
        e = Fraction(0)
        for k, c in self.t.items():
            p = c
            for v in k:
                p *= F(x[v])
            e += p
        return e

    def substitute(self, sub):
        """replace every variable v in `sub` by a*v + c, (a, c) = sub[v], and multiply out"""
        out = GP()
        for k, c in self.t.items():
            parts = [((), c)]
            for v in k:
                if v in sub:
                    a, b = sub[v]
                    parts = [(m + (v,), cc * a) for m, cc in parts] + [(m, cc * b) for m, cc in parts]
                else:
                    parts = [(m + (v,), cc) for m, cc in parts]
            for m, cc in parts:
                out.add(m, cc)
        return out

    @classmethod
    def of_model(cls, m):
        g = cls()
        g.add((), m.offset)
        for v, b in m.iter_linear():
            g.add((v,), b)
        for u, v, b in m.iter_quadratic():
            g.add((u, v), b)
        return g


def fits(x, dtype):
    """is the exact value representable in the back-end's dtype (with room for the sums the code forms)"""
    x = Fraction(x)
    if dtype == 'np.float32':
        return abs(x.numerator) < 2 ** 11 and x.denominator <= 2 ** 10
    return abs(x.numerator) < 2 ** 40 and x.denominator <= 2 ** 40


def sorted_pair(e):
    return tuple(sorted(e, key=repr))


def all_samples(labels, vt):
    dom = domain(vt)
    for vals in itertools.product(dom, repeat=len(labels)):
        yield dict(zip(labels, vals))


# ------------------------------------------------------------------------------------------ A. whole-model conversion

def case_bqm_convert(ctx, r, B):
    R = Recipe()
    dtype = r.choice(['np.float64', 'np.float32', 'object'])
    labels, vt = gen_bqm(r, R, dtype=dtype, nmax=5)
    convert_and_check(ctx, r, B, R, labels, vt, dtype)


def convert_and_check(ctx, r, B, R, labels, vt, dtype, after=''):
    """`m` of the recipe (freshly built, or reached through a history: `after` names it) is converted to the other vartype"""
    m = R['m']
    other = 'BINARY' if vt == 'SPIN' else 'SPIN'
    site = f'BQM{"[object]" if dtype == "object" else "[float32]" if dtype == "np.float32" else ""}.change_vartype'
    ic = f'{vt}->{other}' + ('' if labels else ' (no variables)') + ('' if m.num_interactions else ' (no interactions)' if labels else '') + after
    inplace = r.random() < .5
    P = GP.of_model(m)
    sub = TO_BINARY if other == 'BINARY' else TO_SPIN       # old variable in terms of the new one
    expect = P.substitute({v: sub for v in labels})
    l0, a0, o0 = qmb_tokens(m)
    order = list(m.variables)
    if inplace:
        R.do(f'n = m.copy(); n.change_vartype({other!r}, inplace=True)')
    else:
        R.do(f'n = m.change_vartype({other!r}, inplace=False)')
    nmod = R['n']
    ctx.tick(f'{site}:{vt}->{other}')
    ctx.case((site, tuple(R.lines[4:])), nontrivial=bool(labels),
             sample=dict(script=R.lines[4:]) if len(labels) == 3 else None)
    got = GP.of_model(nmod)
    repro = R.script(textwrap.dedent(f'''
        import itertools
        labels = {labels!r}
        for s in itertools.product({domain(vt)!r}, repeat=len(labels)):
            old = dict(zip(labels, s))
            new = {{v: {"(x + 1) // 2" if other == "BINARY" else "2 * x - 1"} for v, x in old.items()}}
            assert poly_value(m, old) == poly_value(n, new), (old, poly_value(m, old), new, poly_value(n, new))
        assert n.vartype.name == {other!r} and m.vartype.name == {vt!r}
        '''))
    if nmod.vartype.name != other or m.vartype.name != vt:
        ctx.fail('property', site, ic, 'vartype attribute wrong after the conversion', repro=repro)
    if got.nz() != expect.nz():
        # find the sample whose energy moved
        bad = None
        for old in all_samples(labels, vt):
            new = {v: ((x + 1) // 2 if other == 'BINARY' else 2 * x - 1) for v, x in old.items()}
            if poly_value(m, old) != poly_value(nmod, new):
                bad = (old, poly_value(m, old), poly_value(nmod, new)); break
        ctx.fail('property', site, ic, f'converted coefficients differ from the substituted polynomial; sample {bad}', repro=repro)
        return
    # every energy, through the coefficients the two objects report
    for old in all_samples(labels, vt):
        new = {v: ((x + 1) // 2 if other == 'BINARY' else 2 * x - 1) for v, x in old.items()}
        if poly_value(m, old) != poly_value(nmod, new):
            ctx.fail('property', site, ic, f'energy moved at {old}', repro=repro)
            return
    # there and back
    R.do(f'b = n.change_vartype({vt!r}, inplace=False)')
    back = R['b']
    if all(fits(x, dtype) for x in expect.t.values()):
        if GP.of_model(back).nz() != P.nz() or list(back.variables) != list(m.variables):
            ctx.fail('property', site, f'round trip {vt}->{other}->{vt}', f'coefficients not restored: {GP.of_model(back).nz()} vs {P.nz()}',
                     repro=R.script('assert (b.offset, dict(b.linear), dict(b.quadratic)) == (m.offset, dict(m.linear), dict(m.quadratic)) or b.is_equal(m)\n'))
    # (i) model
    if dtype == 'object':
        line = f'pycv {l0} {a0 if a0 != "~" else "-"} {o0} {other}'
        exp_c = model_canon(nmod, order)
        B.add(line, '', site, ic, 'pyBQM.change_vartype vs model', detail=dict(script=R.lines[4:]),
              on_mismatch=lambda g, exp_c=exp_c: qmb_canon(*parse_qmb(g)) == exp_c)
    else:
        line = f'bqmcv {vt} {l0} {a0} {o0} {other}'
        exp_c = model_canon(nmod, order)
        B.add(line, '', site, ic, 'BQM::change_vartype vs model', detail=dict(script=R.lines[4:]),
              on_mismatch=lambda g, exp_c=exp_c, other=other: g.split(' ')[0] == other and qmb_canon(*parse_qmb(g.split(' ')[1])) == exp_c)


# ------------------------------------------------------------------------------------------ A'. conversion of a model reached through a history

def raw_order(m):
    """dict back-end only: the insertion order of `_adj` and of every neighbourhood dict (what `pyBQM.change_vartype` iterates over)"""
    return ';'.join(f'{lab(u)}>' + ','.join(lab(v) for v in nu) for u, nu in m.data._adj.items()) or '-'


def case_history_convert(ctx, r, B):
    """a BQM of any back-end is edited (relabel, remove / re-add, contract, fix, update, flip, scale, copies, in-place
    vartype changes …) and *then* converted: the conversion has to be exact on every state the public API can reach, not
    only on freshly built models (the dict back-end's loops depend on the insertion order the history leaves behind)"""
    R = Recipe()
    dtype = r.choice(['np.float64', 'np.float32', 'object', 'object'])
    labels, vt = gen_bqm(r, R, dtype=dtype, nmax=5)
    if len(labels) < 2 and r.random() < .8:
        return
    kinds = edit_history(ctx, r, R, dtype, tag='history op before conversion')
    if kinds is None:
        return
    m = R['m']
    labels = list(m.variables)
    vt = m.vartype.name
    if len(labels) > 5 or not kinds:
        return
    P = GP.of_model(m)
    if not all(fits(x * 16, dtype) for x in P.t.values()):
        ctx.tick('cut_for_precision')
        return
    rel = kinds & {'relabel', 'relabel_copy', 'swap', 'as_integers'}
    after = ' after an edit history' + (' with relabelling' if rel else '')
    convert_and_check(ctx, r, B, R, labels, vt, dtype, after=after)


# ------------------------------------------------------------------------------------------ B. views: histories

def state_line(m):
    """canonical state of the data of a BQM in the driver's format"""
    lins = sorted(f'{lab(v)}={rat(F(b))}' for v, b in m.iter_linear())
    quads = []
    for u, v, b in m.iter_quadratic():
        a, c = sorted((lab(u), lab(v)))
        quads.append(f'{a}~{c}={rat(F(b))}')
    quads.sort()
    return f'{m.vartype.name} {rat(F(m.offset))} {",".join(lins) or "-"} {",".join(quads) or "-"}'


class RefBqm:
    """reference state in the data's vartype: generic polynomial + structure (variables, interactions)"""

    def __init__(self, vt):
        self.vt = vt
        self.P = GP()
        self.vars = []
        self.inter = set()

    def sub_to(self, view):
        """old (data) variables in terms of the view's variables"""
        return TO_BINARY if view == 'BINARY' else TO_SPIN

    def in_view(self, view):
        if view == self.vt:
            return self.P.copy()
        s = self.sub_to(view)
        return self.P.substitute({v: s for v in self.vars})

    def from_view(self, Pv, view):
        if view == self.vt:
            self.P = Pv
        else:
            s = TO_BINARY if self.vt == 'BINARY' else TO_SPIN
            self.P = Pv.substitute({v: s for v in self.vars})

    def ensure(self, v):
        if v not in self.vars:
            self.vars.append(v)


def case_view_history(ctx, r, B):
    R = Recipe()
    dtype = r.choice(['np.float64', 'np.float32', 'object'])
    vt0 = r.choice(['SPIN', 'BINARY'])
    R.do(f'm = BQM({vt0!r}, dtype={dtype})')
    other0 = 'BINARY' if vt0 == 'SPIN' else 'SPIN'
    R.do(f'hv = m.{other0.lower()}   # a view object held across later in-place vartype changes')
    m = R['m']
    ref = RefBqm(vt0)
    pool = r.sample(LABELS, 4)
    lines = ['lbnew ' + vt0]
    expects = ['ok ' + state_line(m)]
    metas = [('new', '')]
    hist = []
    nops = r.randint(3, 14)
    site_of = {'m': 'BQM', 'hv': f'BQM.{other0.lower()}(held)', 'm.spin': 'BQM.spin', 'm.binary': 'BQM.binary'}

    st = {'hv': other0}     # the held view's own vartype (`hv.change_vartype` re-types the view object in place)
    stale = r.random() < .4  # histories that dwell on the held view after the vartypes were made to coincide / differ again

    def objvt(o):
        return {'m': ref.vt, 'hv': st['hv'], 'm.spin': 'SPIN', 'm.binary': 'BINARY'}[o]

    def repro(extra=''):
        body = []
        for h in hist:
            body.append('try:\n    ' + h + '\nexcept (ValueError, RuntimeError) as e: print("raised", type(e).__name__, e)')
        return R.script('\n'.join(body) + '\n' + extra)

    def expected_state_src():
        Pd = ref.P
        lin = {v: Pd.get((v,)) for v in ref.vars}
        quad = {tuple(sorted(k, key=repr)): Pd.get(tuple(k)) for k in ref.inter}
        return (f'exp_off = {Pd.get(())!r}\nexp_lin = {lin!r}\nexp_quad = {quad!r}\n'
                'got_quad = {tuple(sorted((u, v), key=repr)): F(b) for u, v, b in m.iter_quadratic()}\n'
                'assert F(m.offset) == exp_off, ("offset", m.offset, exp_off)\n'
                'assert {v: F(b) for v, b in m.iter_linear()} == exp_lin, ("linear", dict(m.linear), exp_lin)\n'
                'assert got_quad == exp_quad, ("quadratic", got_quad, exp_quad)\n'
                f'assert m.vartype.name == {ref.vt!r}\n')

    for step in range(nops):
        if stale and step >= 2:
            o = r.choice(['m', 'hv', 'hv', 'hv'])
            kind = r.choice(['addlin', 'addquad', 'addquad', 'setlin', 'setoff', 'cv', 'cv', 'hvcv', 'getlin', 'getquad', 'getoff',
                             'energies', 'energies', 'toqubo', 'toising'])
        else:
            o = r.choice(['m', 'm', 'hv', 'hv', 'm.spin', 'm.binary'])
            kind = r.choice(['addlin', 'addlin', 'addquad', 'addquad', 'addquad', 'setlin', 'setquad', 'addvar', 'setoff', 'rmint', 'rmvar',
                             'cv', 'getlin', 'getquad', 'getoff', 'energies', 'toqubo', 'toising', 'hvcv', 'relabel', 'relabel'])
        if kind == 'relabel':
            # `relabel_variables` on the base object: one `(old, new)` step of the safe sub-mappings per model line
            if not ref.vars:
                continue
            cur = list(ref.vars)
            free = [l for l in LABELS if l not in cur]
            if len(cur) >= 2 and (r.random() < .3 or not free):
                a_, b_ = r.sample(cur, 2)
                mp = {a_: b_, b_: a_}
            else:
                k_ = r.randint(1, min(2, len(cur), len(free)))
                mp = dict(zip(r.sample(cur, k_), r.sample(free, k_)))
            call = f'm.relabel_variables({mp!r})'
            steps = [(a_, b_) for sub in dimod.utilities.iter_safe_relabels(mp, cur) for a_, b_ in sub.items()]
            exec(call, R.ns); hist.append(call)
            ren = lambda v: mp.get(v, v)  # noqa
            P2 = GP()
            for k_, c_ in ref.P.t.items():
                P2.add(tuple(ren(v) for v in k_), c_)
            ref.P = P2
            ref.vars = [ren(v) for v in ref.vars]
            ref.inter = {frozenset(ren(v) for v in e) for e in ref.inter}
            pool = [ren(v) for v in pool]
            site = 'BQM.relabel_variables'
            ctx.tick(site + (' (swap)' if set(mp) == set(mp.values()) else ''))
            ctx.case((site, tuple(hist)), nontrivial=True)
            Pd = GP.of_model(m)
            if Pd.nz() != ref.P.nz() or set(m.variables) != set(ref.vars):
                ctx.fail('property', site, 'in a history with views and conversions', f'after {call}: data holds {Pd.nz()}, expected {ref.P.nz()}',
                         repro=repro(expected_state_src()))
                return
            # the split itself: the model's iter_safe_relabels (Lean: iter_safe_relabels_split_is_safe) against dimod's, sub-mapping for sub-mapping
            subs_real = '|'.join((','.join(f'{lab(a_)}>{lab(b_)}' for a_, b_ in sub.items()) or '.') for sub in dimod.utilities.iter_safe_relabels(mp, cur))
            B.add(f'saferelabels {labs(cur)} ' + ','.join(f'{lab(a_)}>{lab(b_)}' for a_, b_ in mp.items()), 'ok ' + subs_real,
                  'utilities.iter_safe_relabels', 'swap' if set(mp) == set(mp.values()) else 'fresh labels', f'iter_safe_relabels({mp!r}, {cur!r})')
            ctx.tick('iter_safe_relabels vs model')
            if r.random() < .5:
                # the whole call in the model: it splits the mapping itself and applies every pair
                lines.append(f'lb {ref.vt} relabelmap ' + ','.join(f'{lab(a_)}>{lab(b_)}' for a_, b_ in mp.items()))
                expects.append('ok ' + state_line(m))
                metas.append((site, 'whole mapping in the model'))
                ctx.tick(site + ' (model splits the mapping)')
                continue
            for j_, (a_, b_) in enumerate(steps):
                lines.append(f'lb {ref.vt} relabel {lab(a_)} {lab(b_)}')
                expects.append('ok ' + state_line(m) if j_ == len(steps) - 1 else None)
                metas.append((site, 'one (old, new) step'))
            continue
        if kind == 'hvcv':
            # re-type the held view object itself: from now on it reads/writes as a view of `target`
            target = r.choice(['SPIN', 'BINARY'])
            call = f'hv.change_vartype({target!r}, inplace=True)'
            exec(call, R.ns); hist.append(call); st['hv'] = target
            ctx.tick('BQM(held view).change_vartype')
            continue
        view = objvt(o)
        through_view = view != ref.vt
        obj = R.ev(o)
        Pv = ref.in_view(view)
        if kind in ('toqubo', 'toising'):
            if not ref.vars or len(ref.vars) > 4:
                continue
            site = f'{site_of[o]}.{"to_qubo" if kind == "toqubo" else "to_ising"}'
            ctx.tick(site + (':view' if through_view else ''))
            ctx.case((site, tuple(hist)), nontrivial=True)
            dom_vt = 'BINARY' if kind == 'toqubo' else 'SPIN'
            Pd = ref.in_view(dom_vt)
            try:
                if kind == 'toqubo':
                    Qd, qoff = obj.to_qubo()
                    ev = lambda x: F(qoff) + sum(F(bb) * x[a_] * x[c_] for (a_, c_), bb in Qd.items())  # noqa
                else:
                    hd, Jd, ioff = obj.to_ising()
                    ev = lambda x: F(ioff) + sum(F(bb) * x[a_] for a_, bb in hd.items()) + sum(F(bb) * x[a_] * x[c_] for (a_, c_), bb in Jd.items())  # noqa
                bad = next((x for x in all_samples(ref.vars, dom_vt) if ev(x) != Pd.eval(x)), None)
                what = None if bad is None else f'at {bad}: {ev(bad)} but the converted polynomial gives {Pd.eval(bad)}'
            except Exception as e:  # noqa
                what = f'{type(e).__name__}: {e}'
            if what:
                ctx.fail('property', site, ('held view of equal vartype' if o == 'hv' and not through_view else 'through a view' if through_view else 'base'),
                         what, repro=repro(f'print({o}.{"to_qubo" if kind == "toqubo" else "to_ising"}())\nassert False, {what!r}\n'))
                return
            # (i) entry by entry against the view-read model: to_qubo / to_ising are the reads of the .binary / .spin view
            icq = 'dict entries vs view reads'
            if kind == 'toqubo':
                lin_d = {v: Qd.get((v, v), 0) for v in ref.vars}
                quad_d = {k_: b_ for k_, b_ in Qd.items() if k_[0] != k_[1]}
                off_d = qoff
            else:
                lin_d, quad_d, off_d = hd, Jd, ioff
            if set(lin_d) != set(ref.vars) or {frozenset(k_) for k_ in quad_d} != ref.inter or len(quad_d) != len(ref.inter):
                ctx.fail('property', site, 'keys of the returned dicts', f'linear keys {sorted(map(repr, lin_d))}, interactions {sorted(map(repr, quad_d))}; '
                         f'the model has variables {ref.vars} and interactions {sorted(map(sorted_pair, ref.inter))}',
                         repro=repro(f'print({o}.{"to_qubo" if kind == "toqubo" else "to_ising"}())\nassert False\n'))
                return
            for v_ in ref.vars:
                lines.append(f'lb {dom_vt} getlin {lab(v_)}'); expects.append('ok ' + rat(F(lin_d[v_]))); metas.append((site, icq))
            for (a_, c_), b_ in quad_d.items():
                lines.append(f'lb {dom_vt} getquad {lab(a_)} {lab(c_)}'); expects.append('ok ' + rat(F(b_))); metas.append((site, icq))
            lines.append(f'lb {dom_vt} getoff'); expects.append('ok ' + rat(F(off_d))); metas.append((site, icq))
            continue
        err = None
        call = None
        read = None
        b = q8(r)
        if kind == 'addlin':
            v = r.choice(pool)
            call = f'{o}.add_linear({v!r}, {fl(b)})'; line = f'lb {view} addlin {lab(v)} {rat(F(b))}'
            ref.ensure(v); Pv.add((v,), b)
        elif kind == 'setlin':
            v = r.choice(pool)
            call = f'{o}.set_linear({v!r}, {fl(b)})'; line = f'lb {view} setlin {lab(v)} {rat(F(b))}'
            ref.ensure(v); Pv.set((v,), b)
        elif kind == 'addvar':
            v = r.choice(pool)
            call = f'{o}.add_variable({v!r}, {fl(b)})'; line = f'lb {view} addvar {lab(v)} {rat(F(b))}'
            ref.ensure(v); Pv.add((v,), b)
        elif kind in ('addquad', 'setquad'):
            u, v = (r.sample(pool, 2) if r.random() < .9 else [r.choice(pool)] * 2)
            if u == v and kind == 'setquad' and o != 'm':
                continue   # VartypeView.set_quadratic(u, u) (not wrapped by view_method, so also for a held view of equal
                # vartype) adds u before raising: C04 (D20), not a conversion matter
            call = f'{o}.{"add" if kind == "addquad" else "set"}_quadratic({u!r}, {v!r}, {fl(b)})'
            line = f'lb {view} {kind} {lab(u)} {lab(v)} {rat(F(b))}'
            if u == v:
                err = 'value'
            else:
                ref.ensure(u); ref.ensure(v); ref.inter.add(frozenset((u, v)))
                (Pv.add if kind == 'addquad' else Pv.set)((u, v), b)
        elif kind == 'setoff':
            call = f'{o}.offset = {fl(b)}'; line = f'lb {view} setoff {rat(F(b))}'
            Pv.set((), b)
        elif kind == 'rmint':
            if ref.inter and r.random() < .8:
                u, v = tuple(r.choice(sorted(ref.inter, key=repr)))
            else:
                u, v = r.sample(pool, 2)
            call = f'{o}.remove_interaction({u!r}, {v!r})'; line = f'lb {view} rmint {lab(u)} {lab(v)}'
            if frozenset((u, v)) not in ref.inter:
                err = 'value'
            else:
                ref.inter.discard(frozenset((u, v))); Pv.drop(lambda k: len(k) == 2 and set(k) == {u, v})
        elif kind == 'rmvar':
            v = r.choice(pool)
            call = f'{o}.remove_variable({v!r})'; line = f'lb {view} rmvar {lab(v)}'
            if v not in ref.vars:
                err = 'value'
            else:
                Pv.drop(lambda k: v in k)
        elif kind == 'cv':
            if o != 'm':
                continue
            target = r.choice(['SPIN', 'BINARY'])
            call = f'm.change_vartype({target!r}, inplace=True)'; line = f'lb {view} cv {target}'
        elif kind == 'getlin':
            v = r.choice(pool)
            read = f'{o}.get_linear({v!r})'; line = f'lb {view} getlin {lab(v)}'
            err = None if v in ref.vars else 'value'
            val = Pv.get((v,))
        elif kind == 'getquad':
            u, v = r.sample(pool, 2)
            read = f'{o}.get_quadratic({u!r}, {v!r})'; line = f'lb {view} getquad {lab(u)} {lab(v)}'
            err = None if frozenset((u, v)) in ref.inter else 'value'
            val = Pv.get((u, v))
        elif kind == 'getoff':
            read = f'{o}.offset'; line = f'lb {view} getoff'
            val = Pv.get(())
        else:  # energies through this object: all samples of its own domain
            if not ref.vars or len(ref.vars) > 4:
                continue
            ctx.tick(f'{site_of[o]}.energies' + ('(view)' if through_view else ''))
            samples = list(all_samples(ref.vars, view))
            try:
                got = [F(e) for e in obj.energies((np.array([[s[v] for v in ref.vars] for s in samples], dtype=np.int8), list(ref.vars)))]
            except Exception as e:  # noqa
                ctx.fail('property', f'{site_of[o]}.energies', 'view' if through_view else 'same vartype',
                         f'{type(e).__name__}: {e}', repro=repro(f'{o}.energies(({[[s[v] for v in ref.vars] for s in samples]!r}, {ref.vars!r}))\n'))
                return
            exp = [Pv.eval(s) for s in samples]
            ctx.case((site_of[o], 'energies', tuple(hist)), nontrivial=True)
            if got != exp:
                i = next(i for i in range(len(exp)) if got[i] != exp[i])
                ctx.fail('property', f'{site_of[o]}.energies', 'view' if through_view else 'same vartype',
                         f'sample {samples[i]}: {got[i]} but the converted polynomial gives {exp[i]}',
                         repro=repro(f'e = {o}.energies(({[samples[i][v] for v in ref.vars]!r}, {ref.vars!r}))[0]\nassert F(e) == {exp[i]!r}, (e, {exp[i]!r})\n'))
                return
            continue
        ic = ('through a view' if through_view else 'held view of equal vartype' if o == 'hv' else 'base') + f': {kind}'
        site = f'{site_of[o]}.{kind}'
        ctx.tick(site + (':view' if through_view else ''))
        # precision guard on what the edit will leave in the data
        if err is None and read is None and kind != 'cv':
            trial = RefBqm(ref.vt); trial.vars = list(ref.vars); trial.from_view(Pv.copy(), view)
            if not all(fits(x, dtype) for x in trial.P.t.values()) or not all(fits(x, dtype) for x in Pv.t.values()):
                ctx.tick('cut_for_precision')
                break
        if read is not None:
            try:
                gotv = F(R.ev(read)); out = 'ok ' + rat(gotv)
            except Exception as e:  # noqa
                gotv = None; out = 'err ' + exc_class(e)
            ctx.case((site, tuple(hist), read), nontrivial=through_view)
            if (err is None) != (gotv is not None) or (gotv is not None and gotv != val):
                ctx.fail('property', site, ic, f'{read} -> {out}, convert-and-read gives {"error" if err else val}',
                         repro=repro(f'assert F({read}) == {val!r}, ({read}, {val!r})\n' if not err else f'try:\n    {read}\nexcept ValueError: pass\nelse: raise AssertionError("no error")\n'))
                return
            lines.append(line); expects.append(out); metas.append((site, ic)); hist.append(read)
            continue
        hist.append(call)
        raised = None
        try:
            exec(call, R.ns)
        except (ValueError, RuntimeError) as e:
            raised = exc_class(e)
        except Exception as e:  # noqa
            raised = type(e).__name__
        # reference: convert, edit, convert back
        if kind == 'cv':
            if target != ref.vt:
                s = TO_BINARY if target == 'BINARY' else TO_SPIN
                ref.P = ref.P.substitute({v: s for v in ref.vars}); ref.vt = target
        elif err is None:
            if kind == 'rmvar':
                ref.from_view(Pv, view)
                ref.vars.remove(v); ref.inter = {k for k in ref.inter if v not in k}
            else:
                ref.from_view(Pv, view)
        ctx.case((site, tuple(hist)), nontrivial=(err is None), sample=dict(history=list(hist)) if len(hist) == 7 else None)
        exp_state = None
        if (raised is not None) != (err is not None):
            ctx.fail('property', site, ic, f'{call} {"raised " + raised if raised else "returned"}; convert-edit-convert back {"rejects" if err else "accepts"} it',
                     repro=repro(expected_state_src()))
            return
        # state after the edit == reference
        Pd = GP.of_model(m)
        got_inter = {frozenset((u, v)) for u, v, _ in m.iter_quadratic()}
        if (Pd.nz() != ref.P.nz() or list(m.variables) != ref.vars or got_inter != ref.inter or m.vartype.name != ref.vt):
            if set(m.variables) == set(ref.vars) and Pd.nz() == ref.P.nz() and got_inter == ref.inter and m.vartype.name == ref.vt:
                pass   # order of variables is C04's matter
            else:
                ctx.fail('property', site, ic, f'after {call}: data holds {Pd.nz()} over {list(m.variables)}, convert-edit-convert back gives {ref.P.nz()} over {ref.vars}',
                         repro=repro(expected_state_src()))
                return
        lines.append(line)
        expects.append(('ok ' if raised is None else f'err {raised} ') + state_line(m))
        metas.append((site, ic))
    # round 8: at the end of the history every object (base, held view, fresh views) must report ONE polynomial through every read
    # accessor, and it must be the reference in the vartype the object reports
    from harness.props import accessors as ACC
    for o in ('m', 'hv', 'm.spin', 'm.binary'):
        obj = R.ev(o)
        bad, rd = ACC.disagreements(obj)
        ctx.tick('read accessors compared at the end of a history')
        exp = ref.in_view(obj.vartype.name)
        if not bad:
            got = GP(); got.add((), rd[0])
            for v_, b_ in rd[1].items():
                got.add((v_,), b_)
            for k_, b_ in rd[2].items():
                got.add(tuple(k_), b_)
            if got.nz() != exp.nz():
                bad = [('all accessors', f'report {got.nz()} but the model, in {obj.vartype.name}, is {exp.nz()}')]
        if bad:
            ctx.fail('property', f'{site_of[o]} read accessors', f'at the end of a history with views and in-place vartype changes; accessor={bad[0][0].split("(")[0].strip()}',
                     f'{o}: {bad[0][0]}: {bad[0][1]}', repro=repro(ACC.repro_src(o)))
            return
    if dtype == 'object':
        # the dict model is in the same *insertion order* as `_adj` (what `pyBQM.change_vartype` and `relabel_variables` iterate over)
        lines.append(f'lb {ref.vt} order'); expects.append('ok ' + raw_order(m)); metas.append(('pyBQM._adj insertion order', 'after a history'))
        ctx.tick('dict order compared')
    B.items.append((lines, expects, metas, list(R.lines[4:]) + hist))


def flush_histories(ctx, B):
    hs = [it for it in B.items if isinstance(it[0], list)]
    B.items = [it for it in B.items if not isinstance(it[0], list)]
    lines = [ln for h in hs for ln in h[0]]
    if not lines:
        return
    got = run_driver('energydriver', lines)
    ctx.corr_lines += len(lines)
    i = 0
    for hl, he, hm, script in hs:
        for j in range(len(hl)):
            g = got[i + j] if i + j < len(got) else 'MISSING'
            if he[j] is not None and g != he[j]:
                ctx.fail('correspondence', hm[j][0] + ' vs VartypeView/pyBQM model', hm[j][1],
                         f'line `{hl[j]}`: implementation `{he[j]}` model `{g}`', detail=dict(history=script, lines=hl[:j + 1]))
                break
        i += len(hl)


# ------------------------------------------------------------------------------------------ C. per-variable changes (QM, CQM)

def info_tok(m, order):
    return ','.join(f'{m.vartype(v).name}~{rat(F(m.lower_bound(v)))}~{rat(F(m.upper_bound(v)))}' for v in order) or '-'


def value_map(src, dst):
    """value of the converted variable for a value of the original one"""
    if (src, dst) == ('SPIN', 'BINARY') or (src, dst) == ('SPIN', 'INTEGER'):
        return lambda s: (s + 1) // 2
    if (src, dst) == ('BINARY', 'SPIN'):
        return lambda x: 2 * x - 1
    return lambda x: x


def case_qm_change(ctx, r, B):
    R = Recipe()
    labels, vts = gen_qm(r, R, nmax=4, vartypes=('BINARY', 'SPIN', 'SPIN', 'INTEGER'))
    m = R['m']
    if not labels:
        return
    whole = r.random() < .3
    order = list(m.variables)
    l0, a0, o0 = qmb_tokens(m)
    i0 = info_tok(m, order)
    if whole:
        R.do('n = m.spin_to_binary(inplace=False)')
        changes = [(v, 'SPIN', 'BINARY') for v in order if vts[v] == 'SPIN']
        site, ic = 'QM.spin_to_binary', 'all SPIN variables'
    else:
        v = r.choice(labels)
        target = r.choice(['SPIN', 'BINARY', 'INTEGER', 'REAL'])
        site, ic = 'QM.change_vartype', f'{vts[v]}->{target}'
        R.do('n = m.copy()')
        try:
            R.do(f'n.change_vartype({target!r}, {v!r})')
            ok = True
        except TypeError:
            ok = False
        changes = [(v, vts[v], target)] if ok else []
        line = f'qmcv {l0} {a0} {o0} {i0} {target} {order.index(v)}'
    nmod = R['n']
    ctx.tick(f'{site}:{ic}')
    ctx.case((site, tuple(R.lines[4:])), nontrivial=bool(changes))
    supported = {('SPIN', 'BINARY'), ('BINARY', 'SPIN'), ('SPIN', 'INTEGER'), ('BINARY', 'INTEGER')}
    if not whole:
        expected_ok = vts[v] == target or (vts[v], target) in supported
        if ok != expected_ok:
            ctx.fail('property', site, ic, f'change_vartype {"accepted" if ok else "rejected"}', repro=R.script('assert False\n'))
            return
        if not ok:
            B.add(line, 'err type', site, ic, 'unsupported change', detail=dict(script=R.lines[4:]))
            if GP.of_model(nmod).nz() != GP.of_model(m).nz():
                ctx.fail('property', site, ic, 'rejected change modified the model', repro=R.script('assert n.is_equal(m)\n'))
            return
    # (ii) substituted polynomial + every assignment
    P = GP.of_model(m)
    sub = {}
    for (cv, s, t) in changes:
        if (s, t) in (('SPIN', 'BINARY'), ('SPIN', 'INTEGER')):
            sub[cv] = TO_BINARY
        elif (s, t) == ('BINARY', 'SPIN'):
            sub[cv] = TO_SPIN
    expect = P.substitute(sub)
    repro = R.script(textwrap.dedent(f'''
        import itertools
        doms = {{'SPIN': [-1, 1], 'BINARY': [0, 1], 'INTEGER': [-1, 0, 2], 'REAL': [-1.5, 0, 2]}}
        vs = list(m.variables)
        for vals in itertools.product(*[doms[m.vartype(v).name] for v in vs]):
            old = dict(zip(vs, vals)); new = dict(old)
            for v in vs:
                if m.vartype(v).name == 'SPIN' and n.vartype(v).name != 'SPIN': new[v] = (old[v] + 1) // 2
                if m.vartype(v).name == 'BINARY' and n.vartype(v).name == 'SPIN': new[v] = 2 * old[v] - 1
            assert poly_value(m, old) == poly_value(n, new), (old, new)
        '''))
    if GP.of_model(nmod).nz() != expect.nz():
        ctx.fail('property', site, ic, f'converted coefficients {GP.of_model(nmod).nz()} differ from the substituted polynomial {expect.nz()}', repro=repro)
        return
    doms = {'SPIN': [-1, 1], 'BINARY': [0, 1], 'INTEGER': [-1, 0, 2], 'REAL': [-1.5, 0, 2]}
    for vals in itertools.product(*[doms[vts[x]] for x in order]):
        old = dict(zip(order, vals)); new = dict(old)
        for (cv, s, t) in changes:
            new[cv] = value_map(s, t)(old[cv])
        if poly_value(m, old) != poly_value(nmod, new):
            ctx.fail('property', site, ic, f'energy moved at {old}', repro=repro)
            return
    for (cv, s, t) in changes:
        if nmod.vartype(cv).name != t:
            ctx.fail('property', site, ic, f'vartype of {cv!r} is {nmod.vartype(cv).name}', repro=repro)
    if not whole:
        exp_c = model_canon(nmod, order)
        exp_i = info_tok(nmod, order)
        B.add(line, '', site, ic, 'QM::change_vartype vs model', detail=dict(script=R.lines[4:]),
              on_mismatch=lambda g, exp_c=exp_c, exp_i=exp_i: g.startswith('ok ') and qmb_canon(*parse_qmb(g.split(' ')[1])) == exp_c and g.split(' ')[2] == exp_i)


def expr_tok(c, e, r=None):
    order = list(e.variables)
    l, a, o = qmb_tokens(e, order=order, r=r)
    vars_tok = ','.join(str(c.variables.index(v)) for v in order) or '-'
    return f'{vars_tok}|{l}|{a}|{o}'


def cqm_tokens(c, r=None):
    info = ','.join(f'{c.vartype(v).name}~{rat(F(c.lower_bound(v)))}~{rat(F(c.upper_bound(v)))}' for v in c.variables) or '-'
    cons = []
    for label in c.constraint_labels:
        k = c.constraints[label]
        sense = k.sense.value
        w = 'inf' if k.lhs.is_soft() is False else rat(F(k.lhs.weight()))
        qp = 1 if (k.lhs.penalty() == 'quadratic') else 0
        disc = 1 if label in c.discrete else 0
        cons.append(f'{expr_tok(c, k.lhs, r)}#{sense}#{rat(F(k.rhs))}#{w}#{qp}#{disc}')
    return f'{info} {expr_tok(c, c.objective, r)} {"@".join(cons) or "-"}'


def parse_expr_tok(tok):
    v, l, a, o = tok.split('|')
    vars_ = [] if v == '-' else [int(x) for x in v.split(',')]
    lin, adj, off = parse_qmb('|'.join((l, a, o)))
    return vars_, lin, adj, off


def expr_canon_from_tok(tok):
    """polynomial over *global* indices of an expression token"""
    vars_, lin, adj, off = parse_expr_tok(tok)
    g = GP(); g.add((), off)
    for i, b in enumerate(lin):
        g.add((vars_[i],), b)
    for u, nb in enumerate(adj or []):
        for v, b in nb:
            if v <= u:
                g.add((vars_[u], vars_[v]), b)
    return g.nz(), sorted(vars_)


def expr_canon_real(c, e):
    g = GP(); g.add((), e.offset)
    idx = {v: i for i, v in enumerate(c.variables)}
    for v, b in e.iter_linear():
        g.add((idx[v],), b)
    for u, v, b in e.iter_quadratic():
        g.add((idx[u], idx[v]), b)
    return g.nz(), sorted(idx[v] for v in e.variables)


def cqm_canon_real(c):
    info = [(c.vartype(v).name, F(c.lower_bound(v)), F(c.upper_bound(v))) for v in c.variables]
    cons = []
    for label in c.constraint_labels:
        k = c.constraints[label]
        cons.append((expr_canon_real(c, k.lhs), k.sense.value, F(k.rhs)))
    return info, expr_canon_real(c, c.objective), cons


def cqm_canon_tok(info, obj, cons):
    inf = [] if info == '-' else [(t.split('~')[0], Fraction(t.split('~')[1]), Fraction(t.split('~')[2])) for t in info.split(',')]
    cs = []
    if cons != '-':
        for ctok in cons.split('@'):
            e, sense, rhs, w, qp, d = ctok.split('#')
            cs.append((expr_canon_from_tok(e), sense, Fraction(rhs)))
    return inf, expr_canon_from_tok(obj), cs


def gen_cqm(r, R, vartypes=('BINARY', 'SPIN', 'INTEGER'), nmax=4, selfloops=True):
    n = r.choice([1, 2, 3, nmax])
    labels = r.sample(LABELS, n)
    R.do('c = CQM()')
    vts = {}
    for l in labels:
        vt = r.choice(vartypes)
        vts[l] = vt
        R.do(f'c.add_variable({vt!r}, {l!r}' + (', lower_bound=-4, upper_bound=8)' if vt in ('INTEGER', 'REAL') else ')'))
    nexpr = r.choice([1, 2, 3])
    for ei in range(nexpr + 1):
        sub = perm_of(r, [l for l in labels if r.random() < .65]) if r.random() < .85 else []
        R.do(f'q{ei} = QM()')
        for l in sub:
            R.do(f'q{ei}.add_variable({vts[l]!r}, {l!r}' + (', lower_bound=-4, upper_bound=8)' if vts[l] in ('INTEGER', 'REAL') else ')'))
            if r.random() < .8:
                R.do(f'q{ei}.set_linear({l!r}, {fl(q8(r))})')
        if sub:
            for _ in range(r.choice([0, 1, 2, 4])):
                u, v = r.choice(sub), r.choice(sub)
                if (u == v and (vts[u] in ('BINARY', 'SPIN') or not selfloops)) or 'REAL' in (vts[u], vts[v]):
                    continue
                R.do(f'q{ei}.add_quadratic({u!r}, {v!r}, {fl(q8(r))})')
        if r.random() < .8 or not sub:
            R.do(f'q{ei}.offset = {fl(q8(r, 1, 16))}')
        if ei == 0:
            R.do('c.set_objective(q0)')
        else:
            sense = r.choice(['<=', '>=', '=='])
            soft = r.random() < .3
            extra = f', weight={fl(abs(q8(r, 1, 16)))}, penalty="linear"' if soft else ''
            R.do(f'c.add_constraint_from_model(q{ei}, {sense!r}, {fl(q8(r))}, label={f"k{ei}"!r}{extra})')
    return labels, vts


def case_cqm_change(ctx, r, B):
    R = Recipe()
    labels, vts = gen_cqm(r, R, vartypes=('BINARY', 'SPIN', 'SPIN', 'INTEGER'))
    c = R['c']
    whole = r.random() < .3
    tok0 = cqm_tokens(c)
    R.do('import copy; n = copy.deepcopy(c)')
    if whole:
        R.do('n = c.spin_to_binary(inplace=False)')
        changes = [(v, 'SPIN', 'BINARY') for v in labels if vts[v] == 'SPIN']
        site, ic = 'CQM.spin_to_binary', 'all SPIN variables'
    else:
        v = r.choice(labels)
        target = r.choice(['SPIN', 'BINARY', 'INTEGER', 'REAL'])
        site, ic = 'CQM.change_vartype', f'{vts[v]}->{target}'
        try:
            R.do(f'n.change_vartype({target!r}, {v!r})')
            ok = True
        except (TypeError, ValueError, RuntimeError):
            ok = False
        changes = [(v, vts[v], target)] if ok else []
        line = f'cqmcv {tok0} {target} {list(c.variables).index(v)}'
    nmod = R['n']
    ctx.tick(f'{site}:{ic}')
    ctx.case((site, tuple(R.lines[4:])), nontrivial=bool(changes))
    supported = {('SPIN', 'BINARY'), ('BINARY', 'SPIN'), ('SPIN', 'INTEGER'), ('BINARY', 'INTEGER')}
    if not whole:
        expected_ok = vts[v] == target or (vts[v], target) in supported
        if ok != expected_ok:
            ctx.fail('property', site, ic, f'change_vartype {"accepted" if ok else "rejected"}', repro=R.script('assert False\n'))
            return
        if not ok:
            B.add(line, 'err type', site, ic, 'unsupported change', detail=dict(script=R.lines[4:]))
            return
    sub = {}
    for (cv, s, t) in changes:
        sub[cv] = TO_BINARY if (s, t) in (('SPIN', 'BINARY'), ('SPIN', 'INTEGER')) else TO_SPIN if (s, t) == ('BINARY', 'SPIN') else (Fraction(1), Fraction(0))
    doms = {'SPIN': [-1, 1], 'BINARY': [0, 1], 'INTEGER': [-1, 0, 2], 'REAL': [-1.5, 0, 2]}
    pairs = [('objective', c.objective, nmod.objective)] + [(lbl, c.constraints[lbl].lhs, nmod.constraints[lbl].lhs) for lbl in c.constraint_labels]
    repro = R.script(textwrap.dedent('''
        import itertools
        doms = {'SPIN': [-1, 1], 'BINARY': [0, 1], 'INTEGER': [-1, 0, 2], 'REAL': [-1.5, 0, 2]}
        vs = list(c.variables)
        for vals in itertools.product(*[doms[c.vartype(v).name] for v in vs]):
            old = dict(zip(vs, vals)); new = dict(old)
            for v in vs:
                if c.vartype(v).name == 'SPIN' and n.vartype(v).name != 'SPIN': new[v] = (old[v] + 1) // 2
                if c.vartype(v).name == 'BINARY' and n.vartype(v).name == 'SPIN': new[v] = 2 * old[v] - 1
            assert poly_value(c.objective, old) == poly_value(n.objective, new), ('objective', old, new)
            for lbl in c.constraint_labels:
                assert poly_value(c.constraints[lbl].lhs, old) == poly_value(n.constraints[lbl].lhs, new), (lbl, old, new)
                assert c.constraints[lbl].rhs == n.constraints[lbl].rhs and c.constraints[lbl].sense == n.constraints[lbl].sense
        '''))
    for name, e0, e1 in pairs:
        expect = GP.of_model(e0).substitute(sub)
        if GP.of_model(e1).nz() != expect.nz():
            ctx.fail('property', site, ic + ('' if all(x in e0.variables for x in sub) else ' (variable absent from the expression)'),
                     f'{name}: converted coefficients {GP.of_model(e1).nz()} differ from the substituted polynomial {expect.nz()}', repro=repro)
            return
        if list(e1.variables) != list(e0.variables):
            ctx.fail('property', site, ic, f'{name}: variables of the expression changed {list(e0.variables)} -> {list(e1.variables)}', repro=repro)
            return
    for lbl in c.constraint_labels:
        k0, k1 = c.constraints[lbl], nmod.constraints[lbl]
        if k0.rhs != k1.rhs or k0.sense != k1.sense:
            ctx.fail('property', site, ic, f'constraint {lbl}: sense/rhs changed', repro=repro)
            return
    order = list(c.variables)
    for vals in itertools.product(*[doms[vts[x]] for x in order]):
        old = dict(zip(order, vals)); new = dict(old)
        for (cv, s, t) in changes:
            new[cv] = value_map(s, t)(old[cv])
        for name, e0, e1 in pairs:
            if poly_value(e0, old) != poly_value(e1, new):
                ctx.fail('property', site, ic, f'{name}: value moved at {old}', repro=repro)
                return
    if whole:
        exp_c = cqm_canon_real(nmod)
        B.add(f'cqms2b {tok0}', '', site, ic, 'CQM.spin_to_binary vs model', detail=dict(script=R.lines[4:]),
              on_mismatch=lambda g, exp_c=exp_c: g.startswith('ok ') and cqm_canon_tok(*g.split(' ')[1:4]) == exp_c)
    if not whole:
        exp_c = cqm_canon_real(nmod)
        B.add(line, '', site, ic, 'CQM::change_vartype vs model', detail=dict(script=R.lines[4:]),
              on_mismatch=lambda g, exp_c=exp_c: g.startswith('ok ') and cqm_canon_tok(*g.split(' ')[1:4]) == exp_c)


# ------------------------------------------------------------------------------------------ D. polynomials, E. dict utilities

def case_poly_convert(ctx, r, B):
    R = Recipe()
    vt = r.choice(['SPIN', 'BINARY'])
    n = r.choice([0, 1, 2, 3, 4, 5])
    labels = r.sample(LABELS, n)
    terms = {}
    for _ in range(r.choice([0, 1, 2, 3, 5])):
        t = tuple(r.sample(labels, min(r.choice([0, 1, 2, 2, 3, 4]), n)))
        terms[t] = q8(r)
    R.do(f'p = BinaryPolynomial({terms!r}, {vt!r})')
    other = 'BINARY' if vt == 'SPIN' else 'SPIN'
    R.do(f'n = p.to_{other.lower()}()')
    p, nmod = R['p'], R['n']
    site, ic = f'BinaryPolynomial.to_{other.lower()}', f'{vt}->{other}, degree {p.degree if len(p) else 0}'
    ctx.tick(site)
    ctx.case((site, tuple(R.lines[4:])), nontrivial=bool(len(p)) and p.degree > 0, sample=dict(script=R.lines[4:]) if n == 3 else None)
    P = GP({tuple(t): b for t, b in p.items()})
    sub = TO_BINARY if other == 'BINARY' else TO_SPIN
    expect = P.substitute({v: sub for v in labels})
    got = GP({tuple(t): b for t, b in nmod.items()})
    repro = R.script(textwrap.dedent(f'''
        import itertools
        labels = {labels!r}
        for s in itertools.product({domain(vt)!r}, repeat=len(labels)):
            old = dict(zip(labels, s))
            new = {{v: {"(x + 1) // 2" if other == "BINARY" else "2 * x - 1"} for v, x in old.items()}}
            assert poly_sum(p, old) == poly_sum(n, new), (old, poly_sum(p, old), poly_sum(n, new))
        assert n.vartype.name == {other!r}
        '''))
    if got.nz() != expect.nz() or nmod.vartype.name != other:
        ctx.fail('property', site, ic, f'{got.nz()} differs from the substituted polynomial {expect.nz()}', repro=repro)
        return
    for old in all_samples(labels, vt):
        new = {v: ((x + 1) // 2 if other == 'BINARY' else 2 * x - 1) for v, x in old.items()}
        if P.eval(old) != got.eval(new):
            ctx.fail('property', site, ic, f'energy moved at {old}', repro=repro)
            return
    back = nmod.to_spin() if vt == 'SPIN' else nmod.to_binary()
    if GP({tuple(t): b for t, b in back.items()}).nz() != P.nz():
        ctx.fail('property', site, f'round trip {vt}->{other}->{vt}', 'coefficients not restored', repro=R.script(f'assert n.to_{vt.lower()}() == p\n'))
    idx = {l: i for i, l in enumerate(labels)}
    tok = ';'.join('.'.join(str(i) for i in sorted(idx[v] for v in t)) + '=' + rat(F(b)) for t, b in p.items()) or '-'
    exp = {tuple(sorted(idx[v] for v in t)): F(b) for t, b in nmod.items()}

    def same(g, exp=exp):
        d = {}
        if g != '-':
            for e in g.split(';'):
                k, b = e.split('=')
                d[tuple(int(x) for x in k.split('.')) if k else ()] = Fraction(b)
        return d == exp
    B.add(f'polyto{other.lower()} {tok}', '', site, ic, 'to_binary/to_spin vs model', detail=dict(script=R.lines[4:]), on_mismatch=same)


def terms_tok(items, idx):
    """`i.j=b;…` with the variables of a term as sorted positions"""
    return ';'.join('.'.join(str(i) for i in sorted(idx[v] for v in t)) + '=' + rat(F(b)) for t, b in items) or '-'


def parse_terms(g):
    d = {}
    if g != '-':
        for e in g.split(';'):
            k, b = e.split('=')
            d[tuple(int(x) for x in k.split('.')) if k else ()] = Fraction(b)
    return d


# ------------------------------------------------------------------------------------------ D'. histories on ONE polynomial object (round 7)

def gp_of_poly(p):
    return GP({tuple(t): b for t, b in p.items()})


def gp_vars(G):
    out = []
    for k in G.t:
        for v in k:
            if v not in out:
                out.append(v)
    return out


def case_poly_history(ctx, r, B):
    """The conversions of a BinaryPolynomial are evaluated ALONG A HISTORY on one object: convert, edit the polynomial a conversion
    handed out (scale / item assignment / deletion / relabel, all in place), edit the source, convert the SAME source again (with
    and without copy=True, to_binary / to_spin / to_hubo / to_hising).  Every polynomial in play carries its own independent
    reference (generic polynomial, Fractions); every conversion of every object must carry the energies of that object's reference
    at the moment of the call — whatever was converted, handed out or edited before."""
    R = Recipe()
    vt = r.choice(['SPIN', 'BINARY'])
    n = r.choice([1, 2, 3, 3, 4])
    labels = r.sample(LABELS, n)
    terms = {}
    for _ in range(r.choice([1, 2, 3, 5])):
        t = tuple(r.sample(labels, min(r.choice([0, 1, 2, 2, 3, 4]), n)))
        if not any(set(t) == set(k) for k in terms):
            terms[t] = q8(r)
    R.do(f'p0 = BinaryPolynomial({terms!r}, {vt!r})')
    pool = {'p0': [gp_of_poly(R['p0']), vt]}      # name -> [reference, vartype]
    fresh = [l for l in LABELS if l not in labels] + ['zz', 'yy', 'xx']
    counter = [0]
    hist = []
    converted = {}

    def alias_of(obj):
        for nm in pool:
            if R[nm] is obj:
                return nm
        return None

    def whose(src):
        return 'the source' if src == 'p0' else 'a handed-out polynomial'

    def check_conversion(src, call, result_vt, value_of):
        """`value_of(new_sample)` = energy the conversion result assigns; must equal the source's reference at the old sample"""
        G, svt = pool[src]
        vs = gp_vars(G)
        meth = call.split('(')[0]
        site = 'BinaryPolynomial.' + meth
        ic = f'{svt}->{result_vt}; ' + ('first conversion of the object' if not converted.get(src) else
                                       'conversion repeated on one object after ' + (', '.join(sorted(set(hist))) or 'no edit'))
        ctx.tick(site + (' (repeated on one object)' if converted.get(src) else ' (first)'))
        ctx.case((site, tuple(R.lines[4:])), nontrivial=bool(G.nz()))
        conv_src = 'a' if svt == result_vt else '(a + 1) // 2' if result_vt == 'BINARY' else '2 * a - 1'
        repro = R.script('\n'.join([
            '# the last line above is the conversion under test; `ref` = the terms the converted polynomial had just before the call',
            'import itertools, math',
            f'ref = {dict(G.nz())!r}',
            f'vs = {vs!r}',
            f'res = {meth!r}',
            f'for vals in itertools.product({domain(svt)!r}, repeat=len(vs)):',
            '    old = dict(zip(vs, vals))',
            f'    new = {{v: {conv_src} for v, a in old.items()}}',
            '    want = sum(Fraction(c) * math.prod(old[v] for v in k) for k, c in ref.items())',
            '    if res in ("to_binary", "to_spin"):',
            '        got = poly_sum(out, {**{v: 0 for v in out.variables}, **new})',
            '    elif res == "to_hubo":',
            '        got = F(out[1]) + sum(F(b) * math.prod(new[v] for v in t) for t, b in out[0].items())',
            '    else:',
            '        got = F(out[2]) + sum(F(b) * new[v] for v, b in out[0].items()) + sum(F(b) * math.prod(new[v] for v in t) for t, b in out[1].items())',
            '    assert got == want, (old, got, want)', '']))
        for old in all_samples(vs, svt):
            new = {v: (a if svt == result_vt else (a + 1) // 2 if result_vt == 'BINARY' else 2 * a - 1) for v, a in old.items()}
            try:
                got = value_of(new)
            except KeyError as e:
                got = f'KeyError {e}'
            if got != G.eval(old):
                ctx.fail('property', site, ic, f'{src}.{call}: at {old} the converted polynomial has energy {G.eval(old)}, the result gives {got}; '
                         f'history: {R.lines[5:]}', repro=repro, detail=dict(script=R.lines[4:]))
                return False
        if gp_of_poly(R[src]).nz() != G.nz():
            ctx.fail('property', site, ic, f'{src}.{call} changed the polynomial it converts: {gp_of_poly(R[src]).nz()} vs {G.nz()}',
                     repro=repro, detail=dict(script=R.lines[4:]))
            return False
        return True

    for step in range(r.randint(3, 8)):
        src = r.choice(list(pool))
        G, svt = pool[src]
        op = r.choice(['conv', 'conv', 'conv', 'hubo', 'hising', 'scale', 'set', 'del', 'relabel', 'copy'])
        if op == 'conv':
            tgt = r.choice(['binary', 'spin'])
            cp = r.choice(['', '', 'copy=True', 'copy=False'])
            call = f'to_{tgt}({cp})'
            R.do(f'out = {src}.{call}')
            out = R['out']
            tvt = tgt.upper()
            gq = gp_of_poly(out)
            ok = check_conversion(src, call, tvt, lambda new, gq=gq, out=out: gq.eval({**{v: 0 for v in out.variables}, **new}))
            if ok and out.vartype.name != tvt:
                ctx.fail('property', 'BinaryPolynomial.to_' + tgt, 'vartype attribute', f'{out.vartype.name}', repro=R.script('assert False\n'))
                ok = False
            if not ok:
                return
            if svt != tvt and not converted.get(src):
                # (i) the model of the powerset expansion on the state at the time of the call
                vs = gp_vars(G)
                idx = {l: i for i, l in enumerate(vs)}
                exp = {tuple(sorted(idx[v] for v in t)): F(b) for t, b in out.items()}
                B.add(f'polyto{tgt} {terms_tok(R[src].items(), idx)}', '', 'BinaryPolynomial.to_' + tgt, 'along a history', 'to_binary/to_spin vs model',
                      detail=dict(script=R.lines[4:]), on_mismatch=lambda g, exp=exp: parse_terms(g) == exp)
            converted[src] = True
            if alias_of(out) is None:
                counter[0] += 1
                nm = f'p{counter[0]}'
                R.do(f'{nm} = out')
                sub = None if svt == tvt else (TO_BINARY if tvt == 'BINARY' else TO_SPIN)
                pool[nm] = [G.copy() if sub is None else G.substitute({v: sub for v in gp_vars(G)}), tvt]
            # an alias (same-vartype call with copy=False returns self, documented) shares its entry
        elif op in ('hubo', 'hising'):
            call = 'to_hubo()' if op == 'hubo' else 'to_hising()'
            R.do(f'out = {src}.{call}')
            out = R['out']

            def val(new, out=out, op=op):
                def ev(d):
                    e = Fraction(0)
                    for t, b in d.items():
                        pr = F(b)
                        for v in t:
                            pr *= new[v]
                        e += pr
                    return e
                if op == 'hubo':
                    return F(out[1]) + ev(out[0])
                return F(out[2]) + sum(F(b) * new[v] for v, b in out[0].items()) + ev(out[1])
            if not check_conversion(src, call, 'BINARY' if op == 'hubo' else 'SPIN', val):
                return
            converted[src] = True
        elif op == 'scale':
            c = r.choice([2, -1, 0.5, 4])
            R.do(f'{src}.scale({c})')
            for k in G.t:
                G.t[k] *= F(c)
            hist.append(f'scale of {whose(src)}')
        elif op == 'set':
            vs = gp_vars(G) or labels
            t = tuple(r.sample(vs, min(len(vs), r.choice([0, 1, 2, 3]))))
            b = q8(r)
            R.do(f'{src}[{t!r}] = {fl(b)}')
            G.set(t, b)
            hist.append(f'item assignment on {whose(src)}')
        elif op == 'del' and G.t:
            k = r.choice(list(G.t))
            R.do(f'del {src}[{tuple(k)!r}]')
            del G.t[k]
            hist.append(f'item deletion on {whose(src)}')
        elif op == 'relabel' and gp_vars(G) and fresh:
            old = r.choice(gp_vars(G))
            new = fresh.pop(0)
            R.do(f'{src}.relabel_variables({ {old: new}!r})')
            G2 = GP()
            for k, c in G.t.items():
                G2.add(tuple(new if v == old else v for v in k), c)
            pool[src][0] = G2
            hist.append(f'relabel of {whose(src)}')
        elif op == 'copy':
            counter[0] += 1
            nm = f'p{counter[0]}'
            R.do(f'{nm} = {src}.copy()')
            pool[nm] = [G.copy(), svt]
        # after every step: no object's coefficients moved unless it was the one edited
        for nm, (Gn, _) in pool.items():
            if gp_of_poly(R[nm]).nz() != Gn.nz():
                ctx.case(('poly-history-alias', tuple(R.lines[4:])), nontrivial=True)
                ctx.fail('property', 'BinaryPolynomial.to_binary/to_spin', 'polynomial handed out by a conversion shares state with another object',
                         f'after `{R.lines[-1]}` the polynomial {nm} reads {gp_of_poly(R[nm]).nz()} but nothing edited it since it was {Gn.nz()}; '
                         f'history: {R.lines[5:]}',
                         repro=R.script(f'assert {{tuple(sorted(t, key=repr)): F(b) for t, b in {nm}.items() if b}} == {dict(Gn.nz())!r}\n'),
                         detail=dict(script=R.lines[4:]))
                return


def case_convert_twice(ctx, r, B):
    """the same for BQMs: `change_vartype(inplace=False)` asked twice on one model, the first result edited in place in between"""
    R = Recipe()
    dtype = r.choice(['np.float64', 'np.float32', 'object'])
    labels, vt = gen_bqm(r, R, dtype=dtype, nmax=4)
    if not labels:
        return
    other = 'BINARY' if vt == 'SPIN' else 'SPIN'
    m = R['m']
    sub = TO_BINARY if other == 'BINARY' else TO_SPIN
    site = f'BQM{"[object]" if dtype == "object" else "[float32]" if dtype == "np.float32" else ""}.change_vartype'
    R.do(f'a = m.change_vartype({other!r}, inplace=False)')
    edit = r.choice(['scale', 'add_linear', 'relabel', 'remove_variable', 'offset'])
    v = r.choice(labels)
    fresh = next(l for l in LABELS if l not in labels)
    R.do({'scale': 'a.scale(2)', 'add_linear': f'a.add_linear({v!r}, {fl(q8(r))})', 'relabel': f'a.relabel_variables({ {v: fresh}!r})',
          'remove_variable': f'a.remove_variable({v!r})', 'offset': 'a.offset += 1'}[edit])
    R.do(f'b = m.change_vartype({other!r}, inplace=False)')
    P = GP.of_model(m)
    expect = P.substitute({x: sub for x in labels})
    ic = f'{vt}->{other}; second conversion of one model after the first result was edited in place ({edit})'
    ctx.tick(site + ' (repeated on one object)')
    ctx.case((site, 'twice', tuple(R.lines[4:])), nontrivial=True)
    if GP.of_model(R['b']).nz() != expect.nz() or R['b'].vartype.name != other or m.vartype.name != vt:
        conv = '(x + 1) // 2' if other == 'BINARY' else '2 * x - 1'
        ctx.fail('property', site, ic, f'second conversion {GP.of_model(R["b"]).nz()} differs from the substituted polynomial {expect.nz()}',
                 repro=R.script('\n'.join(['import itertools', f'labels = {labels!r}',
                                           f'for s in itertools.product({domain(vt)!r}, repeat=len(labels)):',
                                           '    old = dict(zip(labels, s))',
                                           f'    new = {{v: {conv} for v, x in old.items()}}',
                                           '    assert poly_value(m, old) == poly_value(b, new), (old, poly_value(m, old), poly_value(b, new))', ''])))


def case_poly_h(ctx, r, B):
    """BinaryPolynomial.to_hubo / to_hising (either vartype) and from_hubo / from_hising: dicts + offset carry the energies"""
    R = Recipe()
    vt = r.choice(['SPIN', 'BINARY'])
    n = r.choice([1, 2, 3, 4, 5])
    labels = r.sample(LABELS, n)
    idx = {l: i for i, l in enumerate(labels)}
    terms = {}
    for _ in range(r.choice([1, 2, 3, 5])):
        t = tuple(r.sample(labels, min(r.choice([0, 1, 1, 2, 2, 3, 4]), n)))
        if not any(set(t) == set(k) for k in terms):
            terms[t] = q8(r)
    which = r.choice(['to_hubo', 'to_hising', 'from_hubo', 'from_hising'])
    site = 'BinaryPolynomial.' + which
    ctx.tick(site)

    def ev_terms(d, x):
        e = Fraction(0)
        for t, b in d.items():
            pr = F(b)
            for v in t:
                pr *= x[v]
            e += pr
        return e

    if which in ('to_hubo', 'to_hising'):
        R.do(f'p = BinaryPolynomial({terms!r}, {vt!r})')
        p = R['p']
        P = GP({tuple(t): b for t, b in p.items()})
        ic = f'{vt} polynomial, degree {p.degree if len(p) else 0}' + ('; constant term' if () in p else '')
        ctx.case((site, tuple(R.lines[4:])), nontrivial=bool(len(p)))
        if which == 'to_hubo':
            R.do('H, off = p.to_hubo()')
            H, off = R['H'], R['off']
            tgt, conv = 'BINARY', (lambda a: a if vt == 'BINARY' else (a + 1) // 2)
            got = lambda x: F(off) + ev_terms(H, x)  # noqa
            check = 'F(off) + sum(F(b) * __import__("math").prod(new[v] for v in t) for t, b in H.items())'
        else:
            R.do('h, J, off = p.to_hising()')
            h, J, off = R['h'], R['J'], R['off']
            tgt, conv = 'SPIN', (lambda a: a if vt == 'SPIN' else 2 * a - 1)
            got = lambda x: F(off) + sum(F(b) * x[v] for v, b in h.items()) + ev_terms(J, x)  # noqa
            check = ('F(off) + sum(F(b) * new[v] for v, b in h.items()) + '
                     'sum(F(b) * __import__("math").prod(new[v] for v in t) for t, b in J.items())')
        conv_src = 'a' if tgt == vt else ('(a + 1) // 2' if tgt == 'BINARY' else '2 * a - 1')
        repro = R.script(textwrap.dedent(f'''
            import itertools
            labels = {labels!r}
            for vals in itertools.product({domain(vt)!r}, repeat=len(labels)):
                old = dict(zip(labels, vals)); new = {{v: {conv_src} for v, a in old.items()}}
                assert poly_sum(p, old) == {check}, old
            '''))
        for old in all_samples(labels, vt):
            new = {v: conv(a) for v, a in old.items()}
            if P.eval(old) != got(new):
                ctx.fail('property', site, ic, f'at {old}: polynomial {P.eval(old)}, returned dicts + offset {got(new)}', repro=repro)
                return
        ptok = terms_tok(p.items(), idx)
        if which == 'to_hubo':
            exp = ({tuple(sorted(idx[v] for v in t)): F(b) for t, b in H.items()}, F(off))
            B.add(f'polytohubo {vt} {ptok}', '', site, ic, 'to_hubo vs model', detail=dict(script=R.lines[4:]),
                  on_mismatch=lambda g, exp=exp: (parse_terms(g.split(' ')[0]), Fraction(g.split(' ')[1])) == exp)
        else:
            exp = ({(idx[v],): F(b) for v, b in h.items()}, {tuple(sorted(idx[v] for v in t)): F(b) for t, b in J.items()}, F(off))
            B.add(f'polytohising {vt} {ptok}', '', site, ic, 'to_hising vs model', detail=dict(script=R.lines[4:]),
                  on_mismatch=lambda g, exp=exp: (parse_terms(g.split(' ')[0]), parse_terms(g.split(' ')[1]), Fraction(g.split(' ')[2])) == exp)
        return
    off = None if r.random() < .3 else q8(r)
    if which == 'from_hubo':
        R.do(f'p = BinaryPolynomial.from_hubo({terms!r}' + ('' if off is None else f', {off!r}') + ')')
        src = dict(terms)
        dvt = 'BINARY'
        line = f'polyfromhubo {terms_tok(terms.items(), idx)} {"~" if off is None else rat(F(off))}'
        ic = ('offset given' if off is not None else 'no offset') + ('; constant term in H' if () in terms else '')
    else:
        hh = {t[0]: b for t, b in terms.items() if len(t) == 1}
        JJ = {t: b for t, b in terms.items() if len(t) >= 2}
        # keys of J outside "the higher-order terms": `poly.update(J)` / `poly[frozenset([])] = offset` OVERWRITE equal keys.
        # A tuple `()` is not equal to `frozenset()`, so it survives as its own key and the constructor adds it (the property holds);
        # a `frozenset()` key is overwritten by the offset and a `(k,)` key overwrites h[k] (Lean: poly_from_hising_energy and the two
        # witnesses next to it) — these two are compared with the model only, they are the witnesses that the guard is needed.
        special = r.choice([None, None, None, 'tuple () key in J', 'frozenset() key in J', '(k,) key in J'])
        overwritten = False
        Jm = dict(JJ)                     # what the model (canonical keys) receives
        if special == 'tuple () key in J':
            JJ[()] = q8(r); Jm = None if off is not None else dict(JJ)
        elif special == 'frozenset() key in J':
            JJ[frozenset()] = q8(r); Jm = {tuple(k): b for k, b in JJ.items()}; overwritten = off is not None
        elif special == '(k,) key in J' and hh:
            v_ = r.choice(list(hh)); JJ[(v_,)] = q8(r); Jm = dict(JJ); overwritten = True
        else:
            special = None
        R.do(f'p = BinaryPolynomial.from_hising({hh!r}, {JJ!r}' + ('' if off is None else f', {off!r}') + ')')
        src = {**{(v,): b for v, b in hh.items()}}
        for k_, b_ in JJ.items():
            src[tuple(k_)] = src.get(tuple(k_), 0) + b_
        dvt = 'SPIN'
        line = None if Jm is None else (f'polyfromhising {terms_tok([((v,), b) for v, b in hh.items()], idx)} {terms_tok(Jm.items(), idx)} '
                                        f'{"~" if off is None else rat(F(off))}')
        ic = ('offset given' if off is not None else 'no offset') + (f'; {special}' if special else '')
        if special:
            ctx.tick(f'from_hising: {special}' + (' (overwritten: witness of the guard, model only)' if overwritten else ' (added)'))
        if overwritten:
            p = R['p']
            ctx.case((site, tuple(R.lines[4:])), nontrivial=True)
            exp = {tuple(sorted(idx[v] for v in t)): F(b) for t, b in p.items()}
            B.add(line, '', site, ic, which + ' vs model (key overwritten)', detail=dict(script=R.lines[4:]), on_mismatch=lambda g, exp=exp: parse_terms(g) == exp)
            # the witness itself, on the real code: the energies are NOT h + J + offset here
            G = GP({tuple(t): b for t, b in p.items()})
            if all(G.eval(x) == F(0 if off is None else off) + ev_terms(src, x) for x in all_samples(labels, dvt)) and \
                    any(b_ != 0 for k_, b_ in JJ.items() if len(k_) <= 1):
                ctx.tick('from_hising: overwritten key did not change the energies (bias coincidence)')
            return
    p = R['p']
    ctx.case((site, tuple(R.lines[4:])), nontrivial=bool(src))
    repro = R.script(textwrap.dedent(f'''
        import itertools, math
        labels = {labels!r}; src = {src!r}; off = {0 if off is None else off!r}
        assert p.vartype.name == {dvt!r}
        for vals in itertools.product({domain(dvt)!r}, repeat=len(labels)):
            x = dict(zip(labels, vals))
            assert poly_sum(p, x) == F(off) + sum(F(b) * math.prod(x[v] for v in t) for t, b in src.items()), x
        '''))
    if p.vartype.name != dvt:
        ctx.fail('property', site, ic, f'vartype {p.vartype.name}', repro=repro)
        return
    G = GP({tuple(t): b for t, b in p.items()})
    for x in all_samples(labels, dvt):
        if G.eval(x) != F(0 if off is None else off) + ev_terms(src, x):
            ctx.fail('property', site, ic, f'at {x}: polynomial {G.eval(x)}, dicts + offset {F(0 if off is None else off) + ev_terms(src, x)}', repro=repro)
            return
    exp = {tuple(sorted(idx[v] for v in t)): F(b) for t, b in p.items()}
    if line is not None:
        B.add(line, '', site, ic, which + ' vs model', detail=dict(script=R.lines[4:]), on_mismatch=lambda g, exp=exp: parse_terms(g) == exp)


def case_ising_qubo(ctx, r, B):
    n = r.choice([1, 2, 3, 4])
    labels = r.sample(LABELS, n)
    direction = r.choice(['ising_to_qubo', 'qubo_to_ising', 'bqm.to_qubo', 'bqm.to_ising', 'from_ising', 'from_qubo'])
    h = {l: q8(r) for l in labels if r.random() < .8}
    J = {}
    if n >= 2:
        for _ in range(r.choice([0, 1, 2, 4])):
            u, v = r.sample(labels, 2)
            if (u, v) not in J and (v, u) not in J:
                J[(u, v)] = q8(r)
    off = q8(r)
    hdr = 'import dimod, itertools\nfrom fractions import Fraction\nF = lambda x: Fraction(float(x))\n'
    site = 'dimod.' + direction if '.' not in direction and direction.startswith(('ising', 'qubo')) else 'BQM.' + direction.split('.')[-1]
    ctx.tick(site)

    def ising_e(h, J, off, s):
        return F(off) + sum(F(b) * s[v] for v, b in h.items()) + sum(F(b) * s[u] * s[v] for (u, v), b in J.items())

    def qubo_e(Q, off, x):
        return F(off) + sum(F(b) * x[u] * x[v] for (u, v), b in Q.items())

    ctx.case((site, repr(h), repr(J), off), nontrivial=bool(J) or bool(h))
    if direction in ('ising_to_qubo', 'bqm.to_qubo', 'from_ising'):
        if direction == 'ising_to_qubo':
            Q, qoff = dimod.ising_to_qubo(h, J, off)
            call = f'Q, qoff = dimod.ising_to_qubo({h!r}, {J!r}, {off!r})'
        elif direction == 'bqm.to_qubo':
            Q, qoff = BQM.from_ising(h, J, off).to_qubo()
            call = f'Q, qoff = dimod.BQM.from_ising({h!r}, {J!r}, {off!r}).to_qubo()'
        else:
            b = BQM.from_ising(h, J, off).change_vartype('BINARY', inplace=False)
            Q, qoff = b.to_qubo()
            call = f'Q, qoff = dimod.BQM.from_ising({h!r}, {J!r}, {off!r}).change_vartype("BINARY", inplace=False).to_qubo()'
        for s in all_samples(labels, 'SPIN'):
            x = {v: (a + 1) // 2 for v, a in s.items()}
            if ising_e(h, J, off, s) != qubo_e(Q, qoff, x):
                ctx.fail('property', site, 'ising -> qubo', f'energy differs at {s}: {ising_e(h, J, off, s)} vs {qubo_e(Q, qoff, x)}',
                         repro=hdr + call + f'\ns = {s!r}\nx = {x!r}\nassert F({off!r}) + sum(F(b) * s[v] for v, b in {h!r}.items()) + sum(F(b) * s[u] * s[v] for (u, v), b in {J!r}.items()) == F(qoff) + sum(F(b) * x[u] * x[v] for (u, v), b in Q.items())\n')
                return
        if direction == 'ising_to_qubo':
            htok = ','.join(f'{lab(k)}={rat(F(v))}' for k, v in h.items()) or '-'
            jtok = ','.join(f'{lab(a)}~{lab(b)}={rat(F(v))}' for (a, b), v in J.items()) or '-'
            exp = ({(lab(a), lab(b)): F(v) for (a, b), v in Q.items()}, F(qoff))

            def same(g, exp=exp):
                qt, ot = g.split(' ')
                d = {}
                if qt != '-':
                    for e in qt.split(','):
                        k, v = e.split('=')
                        a, b = k.split('~')
                        d[(a, b)] = Fraction(v)
                return (d, Fraction(ot)) == exp
            B.add(f'isingtoqubo {htok} {jtok} {rat(F(off))}', '', site, 'ising -> qubo', 'dict algorithm vs model', on_mismatch=same)
    else:
        Q = {(v, v): b for v, b in h.items()}
        Q.update(J)
        if direction == 'qubo_to_ising':
            h2, J2, off2 = dimod.qubo_to_ising(Q, off)
            call = f'h2, J2, off2 = dimod.qubo_to_ising({Q!r}, {off!r})'
        elif direction == 'bqm.to_ising':
            h2, J2, off2 = BQM.from_qubo(Q, off).to_ising()
            call = f'h2, J2, off2 = dimod.BQM.from_qubo({Q!r}, {off!r}).to_ising()'
        else:
            h2, J2, off2 = BQM.from_qubo(Q, off).change_vartype('SPIN', inplace=False).to_ising()
            call = f'h2, J2, off2 = dimod.BQM.from_qubo({Q!r}, {off!r}).change_vartype("SPIN", inplace=False).to_ising()'
        for x in all_samples(labels, 'BINARY'):
            s = {v: 2 * a - 1 for v, a in x.items()}
            if qubo_e(Q, off, x) != ising_e(h2, J2, off2, s):
                ctx.fail('property', site, 'qubo -> ising', f'energy differs at {x}',
                         repro=hdr + call + f'\nx = {x!r}\ns = {s!r}\nassert F({off!r}) + sum(F(b) * x[u] * x[v] for (u, v), b in {Q!r}.items()) == F(off2) + sum(F(b) * s[v] for v, b in h2.items()) + sum(F(b) * s[u] * s[v] for (u, v), b in J2.items())\n')
                return
        if direction == 'qubo_to_ising':
            qtok = ','.join(f'{lab(a)}~{lab(b)}={rat(F(v))}' for (a, b), v in Q.items()) or '-'
            exp = ({lab(k): F(v) for k, v in h2.items()}, {(lab(a), lab(b)): F(v) for (a, b), v in J2.items()}, F(off2))

            def same2(g, exp=exp):
                ht, jt, ot = g.split(' ')
                hh = {} if ht == '-' else {e.split('=')[0]: Fraction(e.split('=')[1]) for e in ht.split(',')}
                jj = {}
                if jt != '-':
                    for e in jt.split(','):
                        k, v = e.split('=')
                        a, b = k.split('~')
                        jj[(a, b)] = Fraction(v)
                return (hh, jj, Fraction(ot)) == exp
            B.add(f'quboToIsing {qtok} {rat(F(off))}', '', site, 'qubo -> ising', 'dict algorithm vs model', on_mismatch=same2)


SS_HDR = (
    'import dimod, copy\n'
    'from concurrent.futures import Future\n'
    'class Pending:\n'
    '    """future-like object: reports not done until told otherwise; its result is delivered by the result hook"""\n'
    '    def __init__(self, ss): self.ss = ss; self.flag = False\n'
    '    def done(self): return self.flag\n')


def case_sampleset(ctx, r, B):
    """SampleSet.change_vartype: resolved and still-pending (from_future) sets, energy_offset, inplace True/False, other vectors"""
    n = r.choice([1, 2, 3, 4])
    labels = r.sample(LABELS, n)
    vt = r.choice(['SPIN', 'BINARY'])
    target = r.choice(['SPIN', 'BINARY', 'SPIN' if vt == 'BINARY' else 'BINARY'])
    k = r.randint(1, 4)
    rows = [[r.choice(domain(vt)) for _ in labels] for _ in range(k)]
    en = [q8(r) for _ in range(k)]
    occ = [r.randint(1, 5) for _ in range(k)]
    foo = [q8(r) for _ in range(k)]
    eo = r.choice([0.0, q8(r), q8(r), q8(r)])
    inplace = r.random() < .5
    mode = r.choice(['resolved', 'future', 'future', 'pending-object', 'pending-object'])
    twice = r.random() < .25            # a second, opposite change stacked on the first
    base = (f'base = dimod.SampleSet.from_samples(({rows!r}, {labels!r}), {vt!r}, energy={en!r}, num_occurrences={occ!r}, '
            f'foo={foo!r}, info={{"k": [1, 2]}}, sort_labels=False)\n')
    if mode == 'resolved':
        mk = 'ss = copy.deepcopy(base)\n'
        fin = ''
    elif mode == 'future':
        if not inplace:
            inplace = True      # inplace=False copies, and copying a pending set waits for the future: single-threaded here
        mk = 'fut = Future()\nss = dimod.SampleSet.from_future(fut)\n'
        fin = 'fut.set_result(copy.deepcopy(base))\n'
    else:
        mk = 'p = Pending(copy.deepcopy(base))\nss = dimod.SampleSet.from_future(p, result_hook=lambda f: f.ss)\n'
        fin = 'p.flag = True\n'
    call = f'n = ss.change_vartype({target!r}, energy_offset={eo!r}, inplace={inplace})\n'
    if twice:
        call += f'n = n.change_vartype({vt!r}, energy_offset={-eo!r}, inplace={inplace})\n'
    pend = '' if mode == 'resolved' else 'was_pending = not ss.done()\n'
    src = SS_HDR + base + mk + pend + call + fin
    ns = {}
    site = 'SampleSet.change_vartype' + ('' if mode == 'resolved' else '(pending)')
    ic = f'{vt}->{target}' + ('->' + vt if twice else '') + ('' if eo == 0 else ', energy_offset') + (', inplace' if inplace else ', copy')
    ctx.tick(site)
    ctx.case((site, src), nontrivial=True, sample=dict(script=src) if mode != 'resolved' and eo and len(labels) == 2 else None)
    final_vt = vt if twice else target
    conv = (lambda x: x) if final_vt == vt else ((lambda s_: (s_ + 1) // 2) if final_vt == 'BINARY' else (lambda x: 2 * x - 1))
    exp_rows = [[conv(x) for x in row] for row in rows]
    exp_en = [F(e) + (0 if twice else F(eo)) for e in en]
    check = (f'assert n.vartype.name == {final_vt!r}\n'
             f'assert list(n.variables) == {labels!r}\n'
             f'assert n.record.sample.tolist() == {exp_rows!r}, n.record.sample.tolist()\n'
             f'assert [float(e) for e in n.record.energy] == {[float(e) for e in exp_en]!r}, list(n.record.energy)\n'
             f'assert n.record.num_occurrences.tolist() == {occ!r} and [float(x) for x in n.record.foo] == {foo!r}\n'
             f'assert n.info == {{"k": [1, 2]}}\n')
    try:
        exec(src, ns)
        nss = ns['n']
        if mode != 'resolved' and not ns['was_pending']:
            ctx.tick('sampleset:not-pending')   # generator artefact guard
        got_rows = nss.record.sample.tolist()
        bad = None
        if nss.vartype.name != final_vt:
            bad = f'vartype {nss.vartype.name}'
        elif list(nss.variables) != labels:
            bad = f'variables {list(nss.variables)}'
        elif got_rows != exp_rows:
            bad = f'samples {got_rows} != {exp_rows}'
        elif [F(e) for e in nss.record.energy] != exp_en:
            bad = f'energies {[str(F(e)) for e in nss.record.energy]} != {[str(e) for e in exp_en]}'
        elif nss.record.num_occurrences.tolist() != occ or [F(x) for x in nss.record.foo] != [F(x) for x in foo] or nss.info != {'k': [1, 2]}:
            bad = 'another data vector or info changed'
        elif not inplace and mode == 'resolved' and (ns['ss'].record.sample.tolist() != rows or ns['ss'].vartype.name != vt):
            bad = 'inplace=False changed the receiver'
    except Exception as e:  # noqa
        bad = f'{type(e).__name__}: {e}'
        got_rows = None
    if bad:
        ctx.fail('property', site, ic, bad, repro=src + check)
        return
    # (i) the model: direct call (resolved) / the same call applied by the hook (pending)
    line = f'sscv {vt} {rows_tok(rows)} {rats(en)} {target} {rat(F(eo))}'
    if not twice:
        B.add(line, f'{target} {rows_tok(got_rows)} {rats(nss.record.energy)}', site, ic, 'SampleSet.change_vartype vs model', detail=dict(script=src))


def case_sampleset_twice(ctx, r, B):
    """`SampleSet.change_vartype(inplace=False)` asked twice on one sample set, the arrays of the first result edited in place in
    between (rows, energies, occurrences): the second result must be the conversion of the untouched source, which must still hold
    its own rows"""
    n = r.choice([1, 2, 3])
    labels = r.sample(LABELS, n)
    vt = r.choice(['SPIN', 'BINARY'])
    target = 'BINARY' if vt == 'SPIN' else 'SPIN'
    k = r.randint(1, 3)
    rows = [[r.choice(domain(vt)) for _ in labels] for _ in range(k)]
    en = [q8(r) for _ in range(k)]
    eo = r.choice([0.0, q8(r)])
    tgt_dom = domain(target)
    src = (SS_HDR + f'ss = dimod.SampleSet.from_samples(({rows!r}, {labels!r}), {vt!r}, energy={en!r}, sort_labels=False)\n'
           f'a = ss.change_vartype({target!r}, inplace=False)\n'
           f'a.record.sample[0, 0] = {tgt_dom[0]} if a.record.sample[0, 0] == {tgt_dom[1]} else {tgt_dom[1]}\n'
           'a.record.energy[0] += 3\n'
           + ('a.relabel_variables({%r: "zz"})\n' % (labels[0],) if r.random() < .5 else '')
           + f'n = ss.change_vartype({target!r}, energy_offset={eo!r}, inplace=False)\n')
    conv = (lambda s_: (s_ + 1) // 2) if target == 'BINARY' else (lambda x: 2 * x - 1)
    exp_rows = [[conv(x) for x in row] for row in rows]
    exp_en = [float(F(e) + F(eo)) for e in en]
    check = (f'assert n.vartype.name == {target!r} and ss.vartype.name == {vt!r}\n'
             f'assert list(n.variables) == {labels!r} and list(ss.variables) == {labels!r}\n'
             f'assert n.record.sample.tolist() == {exp_rows!r}, n.record.sample.tolist()\n'
             f'assert [float(e) for e in n.record.energy] == {exp_en!r}, list(n.record.energy)\n'
             f'assert ss.record.sample.tolist() == {rows!r} and [float(e) for e in ss.record.energy] == {[float(e) for e in en]!r}\n')
    site = 'SampleSet.change_vartype'
    ic = f'{vt}->{target}; second conversion of one sample set after the arrays of the first result were edited in place'
    ctx.tick(site + ' (repeated on one object)')
    ctx.case((site, 'twice', src), nontrivial=True)
    ns = {}
    try:
        exec(src + check, ns)
    except AssertionError as e:
        ctx.fail('property', site, ic, f'{e}'[:300], repro=src + check)
    except Exception as e:  # noqa
        ctx.fail('property', site, ic, f'{type(e).__name__}: {e}'[:300], repro=src + check)


def case_from_dicts(ctx, r, B):
    """BQM.from_ising / from_qubo (constructors) and to_ising / to_qubo incl. offsets, energies at every sample;
    the constructed model is compared with `LBqm.fromIsing` / `LBqm.fromQubo` (`_init_components` as modelled)"""
    n = r.choice([1, 2, 3, 4])
    labels = r.sample(LABELS, n)
    h = {l: q8(r) for l in labels if r.random() < .8}
    J = {}
    if n >= 2:
        for _ in range(r.choice([0, 1, 2, 4])):
            u, v = r.sample(labels, 2)
            if (u, v) not in J:
                J[(u, v)] = q8(r)     # (u, v) and (v, u) may both occur: their biases add up
    for l in labels:
        if r.random() < .3:
            J[(l, l)] = q8(r)         # diagonal entry: offset (SPIN) / linear bias (BINARY)
    if J and r.random() < .3:
        items = list(J.items())
        r.shuffle(items)
        J = dict(items)
    off = q8(r)
    jtok = ','.join(f'{lab(a)}~{lab(b)}={rat(F(v))}' for (a, b), v in J.items()) or '-'
    hdr = 'import dimod, itertools\nfrom fractions import Fraction\nF = lambda x: Fraction(float(x))\n'
    which = r.choice(['from_ising', 'from_qubo'])
    site = 'BQM.' + which
    ctx.tick(site)
    ctx.case((site, repr(h), repr(J), off), nontrivial=True)
    if which == 'from_ising':
        m = BQM.from_ising(h, J, off)
        src = hdr + f'h, J, off = {h!r}, {J!r}, {off!r}\nm = dimod.BQM.from_ising(h, J, off)\nh2, J2, off2 = m.to_ising()\nQ, qoff = m.to_qubo()\n'
        h2, J2, off2 = m.to_ising()
        Q, qoff = m.to_qubo()
        htok = ','.join(f'{lab(k)}={rat(F(v))}' for k, v in h.items()) or '-'
        B.add(f'fromising {htok} {jtok} {rat(F(off))}', state_line(m), site, 'from_ising with diagonal / reversed keys' if any(a == b or (b, a) in J for a, b in J) else 'from_ising',
              'constructed model vs LBqm.fromIsing', detail=dict(repro=src + 'print(m)\n'))
        for s in all_samples(labels, 'SPIN'):
            e = F(off) + sum(F(b) * s[v] for v, b in h.items()) + sum(F(b) * s[u] * s[v] for (u, v), b in J.items())
            x = {v: (a + 1) // 2 for v, a in s.items()}
            e_m = F(m.energy(s)) if labels else F(m.offset)
            e_i = F(off2) + sum(F(b) * s[v] for v, b in h2.items()) + sum(F(b) * s[u] * s[v] for (u, v), b in J2.items())
            e_q = F(qoff) + sum(F(b) * x[u] * x[v] for (u, v), b in Q.items())
            if not (e == e_m == e_i == e_q):
                ctx.fail('property', site, 'energies of from_ising / to_ising / to_qubo', f'at {s}: definition {e}, model {e_m}, to_ising {e_i}, to_qubo {e_q}',
                         repro=src + f's = {s!r}\nx = {x!r}\ne = F(off) + sum(F(b)*s[v] for v, b in h.items()) + sum(F(b)*s[u]*s[v] for (u, v), b in J.items())\n'
                         'assert e == F(m.energy(s)) == F(off2) + sum(F(b)*s[v] for v, b in h2.items()) + sum(F(b)*s[u]*s[v] for (u, v), b in J2.items()) '
                         '== F(qoff) + sum(F(b)*x[u]*x[v] for (u, v), b in Q.items())\n')
                return
    else:
        Q = {(v, v): b for v, b in h.items()}
        Q.update(J)
        m = BQM.from_qubo(Q, off)
        qtok = ','.join(f'{lab(a)}~{lab(b)}={rat(F(v))}' for (a, b), v in Q.items()) or '-'
        B.add(f'fromqubo {qtok} {rat(F(off))}', state_line(m), site, 'from_qubo with diagonal / reversed keys' if any(a == b or (b, a) in Q for a, b in Q) else 'from_qubo',
              'constructed model vs LBqm.fromQubo', detail=dict(repro=hdr + f'Q, off = {Q!r}, {off!r}\nm = dimod.BQM.from_qubo(Q, off)\nprint(m)\n'))
        src = hdr + f'Q, off = {Q!r}, {off!r}\nm = dimod.BQM.from_qubo(Q, off)\nh2, J2, off2 = m.to_ising()\nQ2, qoff = m.to_qubo()\n'
        h2, J2, off2 = m.to_ising()
        Q2, qoff = m.to_qubo()
        for x in all_samples(labels, 'BINARY'):
            e = F(off) + sum(F(b) * x[u] * x[v] for (u, v), b in Q.items())
            s = {v: 2 * a - 1 for v, a in x.items()}
            e_m = F(m.energy(x)) if labels else F(m.offset)
            e_i = F(off2) + sum(F(b) * s[v] for v, b in h2.items()) + sum(F(b) * s[u] * s[v] for (u, v), b in J2.items())
            e_q = F(qoff) + sum(F(b) * x[u] * x[v] for (u, v), b in Q2.items())
            if not (e == e_m == e_i == e_q):
                ctx.fail('property', site, 'energies of from_qubo / to_ising / to_qubo', f'at {x}: definition {e}, model {e_m}, to_ising {e_i}, to_qubo {e_q}',
                         repro=src + f'x = {x!r}\ns = {s!r}\ne = F(off) + sum(F(b)*x[u]*x[v] for (u, v), b in Q.items())\n'
                         'assert e == F(m.energy(x)) == F(off2) + sum(F(b)*s[v] for v, b in h2.items()) + sum(F(b)*s[u]*s[v] for (u, v), b in J2.items()) '
                         '== F(qoff) + sum(F(b)*x[u]*x[v] for (u, v), b in Q2.items())\n')
                return


# ------------------------------------------------------------------------------------------ the object graph of .spin / .binary (round 8)

def view_depth(o):
    """number of VartypeView layers between the object's `data` and the base data"""
    from dimod.binary.vartypeview import VartypeView
    d, k = o.data, 0
    while isinstance(d, VartypeView):
        d, k = d.data, k + 1
    return k


def case_view_graph(ctx, r, B):
    """a pool of objects reached from ONE model through `.spin` / `.binary` of ANY object in the pool (views of views, the cached
    `_spin` / `_binary`, views held across `change_vartype(inplace=True)` of their parent, of themselves, of a view in between),
    writes through any of them, `other.update(view)`, `to_qubo` / `to_ising` of any of them.  After EVERY step EVERY object in
    the pool must show the current model in the vartype it reports: all read accessors give the reference polynomial
    substituted into that vartype, and `energies` is its value on every sample.
    Model (`viewheap`): which object each call returns (identity), every object's `.vartype` and the nesting of its data."""
    from harness.props import accessors as ACC
    R = Recipe()
    dtype = r.choice(['np.float64', 'object'])
    vt0 = r.choice(['SPIN', 'BINARY'])
    labels = r.sample(LABELS, r.randint(1, 3))
    R.do(f'm = BQM({vt0!r}, dtype={dtype})')
    Ps = GP()          # the model as a polynomial over SPIN values (the invariant all objects must show)

    def in_vt(vt):
        return Ps.copy() if vt == 'SPIN' else Ps.substitute({v: TO_BINARY for v in labels})

    def write(o_expr, call, edit):
        """a write through object `o_expr`: edit the reference in that object's vartype, substitute back"""
        nonlocal Ps
        vt = R.ev(o_expr).vartype.name
        Pv = in_vt(vt)
        edit(Pv)
        R.do(f'{o_expr}.{call}')
        Ps = Pv if vt == 'SPIN' else Pv.substitute({v: TO_SPIN for v in labels})

    for v in labels:
        write('m', f'add_linear({v!r}, {fl(q8(r))})', lambda P, v=v, b=None: None)
    # (the linear biases just written: re-read them into the reference — the model is still fresh, so this is construction)
    Ps = GP.of_model(R['m']) if vt0 == 'SPIN' else GP.of_model(R['m']).substitute({v: TO_SPIN for v in labels})
    if len(labels) >= 2:
        u, v = r.sample(labels, 2)
        b = q8(r)
        write('m', f'add_quadratic({u!r}, {v!r}, {fl(b)})', lambda P: P.add((u, v), b))
    pool = ['m']            # python expressions naming the objects; index = object id of the model
    ops = []
    nops = r.randint(3, 12)
    site = 'BQM' + ('[object]' if dtype == 'object' else '') + ' .spin/.binary object graph'

    def check_all(what):
        for i, name in enumerate(pool):
            o = R.ev(name)
            vt = o.vartype.name
            exp = in_vt(vt)
            ctx.case((site, tuple(R.lines[4:]), name), nontrivial=view_depth(o) > 0 or len(pool) > 1)
            depth = view_depth(o)
            ic = (f'object at nesting depth {min(depth, 3)}{"+" if depth > 3 else ""} read after {what}')
            repro_tail = ACC.repro_src(name)
            try:
                bad, ref = ACC.disagreements(o)
            except Exception as e:  # noqa
                bad, ref = [('reading', f'{type(e).__name__}: {e}')], None
            if bad:
                ctx.fail('property', site, ic + f'; accessor={bad[0][0].split("(")[0].strip()}', f'{name}: {bad[0][0]}: {bad[0][1]}',
                         repro=R.script(repro_tail))
                return False
            off, lin, quad = ref
            got = GP()
            got.add((), off)
            for v_, b_ in lin.items():
                got.add((v_,), b_)
            for k_, b_ in quad.items():
                got.add(tuple(k_), b_)
            if got.nz() != exp.nz():
                ctx.fail('property', site, ic, f'{name} (vartype {vt}) shows {got.nz()} but the model, in {vt}, is {exp.nz()}',
                         repro=R.script(repro_tail + f'assert nonzero(ref) == nonzero(({exp.get(())!r}, '
                                        f'{ {v_: exp.get((v_,)) for v_ in labels}!r}, '
                                        f'{ {ACC.qkey(*k_): c_ for k_, c_ in exp.t.items() if len(k_) == 2}!r})), ref\n'))
                return False
            for x in all_samples(labels, vt):
                try:
                    e = F(o.energy(x))
                except Exception as ex:  # noqa
                    e = f'{type(ex).__name__}: {ex}'
                if e != exp.eval(x):
                    ctx.fail('property', site, ic + '; energies', f'{name}.energy({x}) = {e} but the model, in {vt}, gives {exp.eval(x)}',
                             repro=R.script(f'assert F({name}.energy({x!r})) == Fraction({exp.eval(x)!r}), {name}.energy({x!r})\n'))
                    return False
        return True

    def model_line(what):
        ret = ','.join(map(str, rets)) or '-'
        objs = [R.ev(nm) for nm in pool]
        expect = (f'ret={ret} vts={",".join(o.vartype.name[0] for o in objs)} depth={",".join(str(view_depth(o)) for o in objs)}')
        B.add(f'viewheap {vt0[0]} {";".join(ops) or "-"}', expect, site, f'identity / vartype / nesting after {what}',
              f'{len(ops)} calls on a pool of {len(pool)} objects', detail=dict(model=R.lines[4:]), driver='exprreadsdriver')

    rets = []

    def do_view(i, which):
        """`pool[i].spin` / `.binary`, made explicit (also before the calls that take a view internally: `to_qubo` = `.binary`,
        `to_ising` = `.spin`, `other.update(o)` = `o.<other's vartype>`), so that the model sees every call on the graph"""
        name = pool[i]
        tmp = f'o{len(pool)}'
        R.do(f'{tmp} = {name}.{which}')
        got = R.ev(tmp)
        j = next((k for k, nm in enumerate(pool) if R.ev(nm) is got), None)
        fresh = j is None
        if fresh:
            pool.append(tmp)
            j = len(pool) - 1
        ops.append(f'{which[0]}{i}')
        rets.append(j)
        ctx.tick(f'{site}: .{which} -> ' + ('itself' if j == i else 'new object' if fresh else 'cached object'))
        if got.vartype.name != which.upper():
            ctx.fail('property', site, f'.{which} of an object at nesting depth {min(view_depth(R.ev(name)), 3)}',
                     f'{name}.{which}.vartype is {got.vartype.name}', repro=R.script(f'assert {tmp}.vartype.name == {which.upper()!r}\n'))
            return False
        return True

    if not check_all('construction'):
        return
    for step in range(nops):
        i = r.randrange(len(pool)) if r.random() < .4 else len(pool) - 1
        name = pool[i]
        kind = r.choice(['view', 'view', 'view', 'cv', 'cv', 'write', 'write', 'update', 'dicts'])
        if kind == 'view':
            which = r.choice(['spin', 'binary'])
            if not do_view(i, which):
                return
            what = f'.{which}'
        elif kind == 'cv':
            vt = r.choice(['SPIN', 'BINARY'])
            R.do(f'{name}.change_vartype({vt!r}, inplace=True)')
            ops.append(f'c{vt[0]}{i}')
            rets.append(i)
            what = 'change_vartype in place ' + ('of the base' if i == 0 else 'of a view')
            ctx.tick(f'{site}: {what}')
        elif kind == 'write':
            v = r.choice(labels)
            b = q8(r)
            w = r.choice(['add_linear', 'set_linear', 'offset', 'add_quadratic'] if len(labels) >= 2 else ['add_linear', 'set_linear', 'offset'])
            if w == 'add_linear':
                write(name, f'add_linear({v!r}, {fl(b)})', lambda P: P.add((v,), b))
            elif w == 'set_linear':
                write(name, f'set_linear({v!r}, {fl(b)})', lambda P: P.set((v,), b))
            elif w == 'offset':
                nonlocal_vt = R.ev(name).vartype.name
                Pv = in_vt(nonlocal_vt)
                Pv.set((), b)
                R.do(f'{name}.offset = {fl(b)}')
                Ps = Pv if nonlocal_vt == 'SPIN' else Pv.substitute({x_: TO_SPIN for x_ in labels})
            else:
                u = r.choice([l for l in labels if l != v])
                write(name, f'add_quadratic({u!r}, {v!r}, {fl(b)})', lambda P: P.add((u, v), b))
            what = f'a write ({w}) through an object at nesting depth {min(view_depth(R.ev(name)), 3)}'
            ctx.tick(f'{site}: write through depth {min(view_depth(R.ev(name)), 3)}')
            if any(c.denominator > 2 ** 30 or abs(c.numerator) > 2 ** 30 for c in Ps.t.values()):
                return
        elif kind == 'update':
            vt = r.choice(['SPIN', 'BINARY'])
            if not do_view(i, vt.lower()):
                return
            R.do(f'other = BQM({vt!r}, dtype={dtype})')
            R.do(f'other.update({name})')
            ctx.tick(f'{site}: other.update(object at depth {min(view_depth(R.ev(name)), 3)})')
            ctx.case((site, 'update', tuple(R.lines[4:])), nontrivial=True)
            got = GP.of_model(R['other'])
            if got.nz() != in_vt(vt).nz():
                ctx.fail('property', 'BQM.update', f'other.update(view at nesting depth {min(view_depth(R.ev(name)), 3)}); vartypes '
                         + ('equal' if vt == R.ev(name).vartype.name else 'differ'),
                         f'a fresh {vt} model updated with {name} holds {got.nz()} but the model, in {vt}, is {in_vt(vt).nz()}',
                         repro=R.script(f'exp = {in_vt(vt).nz()!r}\ngot = dict()\n'
                                        'got[()] = F(other.offset)\n'
                                        'for v_, b_ in other.iter_linear(): got[(v_,)] = F(b_)\n'
                                        'for u_, v_, b_ in other.iter_quadratic(): got[tuple(sorted((u_, v_), key=repr))] = F(b_)\n'
                                        'assert {k: v for k, v in got.items() if v} == exp, (got, exp)\n'))
                return
            continue
        else:
            if not (do_view(i, 'binary') and do_view(i, 'spin')):
                return
            o = R.ev(name)
            ctx.tick(f'{site}: to_qubo / to_ising of an object at depth {min(view_depth(o), 3)}')
            ctx.case((site, 'dicts', tuple(R.lines[4:]), name), nontrivial=True)
            Q, qoff = o.to_qubo()
            h, J, ioff = o.to_ising()
            Pb, Psn = in_vt('BINARY'), in_vt('SPIN')
            for x in all_samples(labels, 'BINARY'):
                e = F(qoff) + sum(F(b_) * x[a_] * x[c_] for (a_, c_), b_ in Q.items())
                if e != Pb.eval(x):
                    ctx.fail('property', site, f'to_qubo of an object at nesting depth {min(view_depth(o), 3)}', f'{name}.to_qubo() at {x}: {e}, the model gives {Pb.eval(x)}',
                             repro=R.script(f'Q, off = {name}.to_qubo()\nx = {x!r}\nassert F(off) + sum(F(b) * x[u] * x[v] for (u, v), b in Q.items()) == Fraction({Pb.eval(x)!r})\n'))
                    return
            for x in all_samples(labels, 'SPIN'):
                e = F(ioff) + sum(F(b_) * x[a_] for a_, b_ in h.items()) + sum(F(b_) * x[a_] * x[c_] for (a_, c_), b_ in J.items())
                if e != Psn.eval(x):
                    ctx.fail('property', site, f'to_ising of an object at nesting depth {min(view_depth(o), 3)}', f'{name}.to_ising() at {x}: {e}, the model gives {Psn.eval(x)}',
                             repro=R.script(f'h, J, off = {name}.to_ising()\nx = {x!r}\nassert F(off) + sum(F(b) * x[u] for u, b in h.items()) + sum(F(b) * x[u] * x[v] for (u, v), b in J.items()) == Fraction({Psn.eval(x)!r})\n'))
                    return
            continue
        if not check_all(what):
            return
        model_line(what)


def run(ctx):
    r = ctx.rng
    B = Batch(ctx)
    n = ctx.scale(5000, 60000)
    ctx.rule = ('random BQM (float64/float32/object), QM, CQM (variables in some expressions only), BinaryPolynomial, h/J/Q dicts, sample sets; '
                'both directions; every conversion compared coefficient-wise with generic polynomial substitution and on all samples '
                '(n <= 5, INTEGER domain {-1,0,2}); histories of 3-14 edits/reads through a BQM, its held .spin/.binary views and in-place '
                'change_vartype, each compared with substitute-edit-substitute back; a case = one conversion or one history step; '
                'non-trivial = the model has variables / the step went through a view of the other vartype or changed the state')
    for i in range(n):
        kind = r.choice(['bqm', 'bqmhist', 'bqmhist', 'hist', 'hist', 'hist', 'qm', 'cqm', 'cqm', 'poly', 'polyh', 'dicts', 'ss', 'ss', 'fromdicts',
                         'polyhist', 'polyhist', 'twice', 'sstwice', 'graph', 'graph'])
        ctx.tick('kind:' + kind)
        if kind == 'bqm':
            case_bqm_convert(ctx, r, B)
        elif kind == 'bqmhist':
            case_history_convert(ctx, r, B)
        elif kind == 'hist':
            case_view_history(ctx, r, B)
        elif kind == 'qm':
            case_qm_change(ctx, r, B)
        elif kind == 'cqm':
            case_cqm_change(ctx, r, B)
        elif kind == 'poly':
            case_poly_convert(ctx, r, B)
        elif kind == 'polyhist':
            case_poly_history(ctx, r, B)
        elif kind == 'twice':
            case_convert_twice(ctx, r, B)
        elif kind == 'graph':
            case_view_graph(ctx, r, B)
        elif kind == 'sstwice':
            case_sampleset_twice(ctx, r, B)
        elif kind == 'polyh':
            case_poly_h(ctx, r, B)
        elif kind == 'dicts':
            case_ising_qubo(ctx, r, B)
        elif kind == 'fromdicts':
            case_from_dicts(ctx, r, B)
        else:
            case_sampleset(ctx, r, B)
        if len([f for f in ctx.failures if f['kind'] == 'property']) >= 12:
            break
    flush_histories(ctx, B)
    B.flush()
