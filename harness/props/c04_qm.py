"""C04, QuadraticModel part: random histories on `dimod.QuadraticModel` (float64 / float32) against
(i) the Lean model `Qm` (`qmdriver`) and (ii) the plain polynomial `RefQ` with per-variable vartype and bounds;
(iii) read paths.  See c04.py for the conventions."""
import math
from fractions import Fraction as F

import numpy as np

import dimod
from dimod import BinaryQuadraticModel as BQM, QuadraticModel as QM
from harness.common import rat, run_driver
from harness.props.c04 import LABELS, Unhashable, q8, fits, pkey, lab, _lab, olab, blab, fr, pyval, compare  # noqa: F401

DT = {'f64': np.float64, 'f32': np.float32}
MANT = {'f64': 44, 'f32': 19}
IMAX = {'f64': F(2 ** 53 - 1), 'f32': F(2 ** 24 - 1)}
RMAX = {'f64': F(float(np.float64(1e30))), 'f32': F(float(np.float32(1e30)))}
VTS = ['SPIN', 'BINARY', 'INTEGER', 'REAL']
BIN = ('SPIN', 'BINARY')


class RefQ:
    def __init__(s, dt):
        s.dt = dt
        s.labels, s.vt, s.lb, s.ub, s.lin, s.quad, s.off = [], {}, {}, {}, {}, {}, F(0)

    def copy(s):
        c = RefQ(s.dt)
        c.labels, c.vt, c.lb, c.ub, c.lin, c.quad, c.off = list(s.labels), dict(s.vt), dict(s.lb), dict(s.ub), dict(s.lin), dict(s.quad), s.off
        return c

    def same(s, o):
        return (s.labels, s.vt, s.lb, s.ub, s.lin, s.quad, s.off) == (o.labels, o.vt, o.lb, o.ub, o.lin, o.quad, o.off)

    def vmax(s, t):
        return {'SPIN': F(1), 'BINARY': F(1), 'INTEGER': IMAX[s.dt], 'REAL': RMAX[s.dt]}[t]

    def vmin(s, t):
        return {'SPIN': F(-1), 'BINARY': F(0), 'INTEGER': -IMAX[s.dt], 'REAL': -RMAX[s.dt]}[t]

    def dmin(s, t):
        return F(-1) if t == 'SPIN' else F(0)

    def nbrs(s, v):
        """(neighbour, bias) incl. the self-loop"""
        out = []
        for k, b in s.quad.items():
            if v in k:
                out.append((v if len(k) == 1 else next(iter(k - {v})), b))
        return out

    def auto(s):
        n = len(s.labels)
        if n in s.lin:
            n = 0
            while n in s.lin:
                n += 1
        return n

    def add_variable(s, t, v, lb, ub):
        if v is not None and v in s.lin:
            if s.vt[v] != t:
                return False
            if t not in BIN:
                if lb is not None and lb != s.lb[v]:
                    return False
                if ub is not None and ub != s.ub[v]:
                    return False
            return True
        if t in BIN:
            l, u = s.dmin(t), s.vmax(t)
        else:
            l = s.dmin(t) if lb is None else lb
            u = s.vmax(t) if ub is None else ub
            if lb is not None and lb < s.vmin(t):
                return False
            if ub is not None and ub > s.vmax(t):
                return False
            if l > u:
                return False
            if t == 'INTEGER' and math.ceil(l) > math.floor(u):
                return False
        if v is None:
            v = s.auto()
        s.labels.append(v); s.vt[v] = t; s.lb[v] = l; s.ub[v] = u; s.lin[v] = F(0)
        return True

    def add_linear(s, v, b, dflt=None):
        if v not in s.lin:
            if dflt is None:
                return False
            if not s.add_variable(dflt[0], v, dflt[1], dflt[2]):
                return False
        s.lin[v] += b
        return True

    def set_linear(s, v, b):
        if v not in s.lin:
            return False
        s.lin[v] = b; return True

    def quad_ok(s, u, v):
        if u not in s.lin or v not in s.lin:
            return False
        if u == v and s.vt[u] in BIN:
            return False
        return s.vt[u] != 'REAL' and s.vt[v] != 'REAL'

    def add_quadratic(s, u, v, b):
        if not s.quad_ok(u, v):
            return False
        s.quad[pkey(u, v)] = s.quad.get(pkey(u, v), F(0)) + b; return True

    def set_quadratic(s, u, v, b):
        if not s.quad_ok(u, v):
            return False
        s.quad[pkey(u, v)] = b; return True

    def remove_interaction(s, u, v):
        if u not in s.lin or v not in s.lin or pkey(u, v) not in s.quad:
            return False
        del s.quad[pkey(u, v)]; return True

    def remove_variable(s, v=None):
        if v is None:
            if not s.labels:
                return False
            v = s.labels[-1]
        if v not in s.lin:
            return False
        s.labels.remove(v)
        for d in (s.vt, s.lb, s.ub, s.lin):
            del d[v]
        s.quad = {k: b for k, b in s.quad.items() if v not in k}
        return True

    def scale(s, x):
        s.lin = {v: b * x for v, b in s.lin.items()}
        s.quad = {k: b * x for k, b in s.quad.items()}
        s.off *= x; return True

    def set_offset(s, b):
        s.off = b; return True

    def subst(s, v, mult, c):
        """x_v := mult * x_v' + c  (v has no self-loop)"""
        s.off += s.lin[v] * c
        for w, b in s.nbrs(v):
            s.lin[w] += b * c
            s.quad[pkey(v, w)] = b * mult
        s.lin[v] *= mult

    def change_vartype(s, t, v):
        if v not in s.lin:
            return False
        src = s.vt[v]
        if src == t:
            return True
        if src == 'SPIN' and t in ('BINARY', 'INTEGER'):
            s.subst(v, F(2), F(-1)); s.vt[v] = t; s.lb[v] = F(0); s.ub[v] = F(1); return True
        if src == 'BINARY' and t == 'SPIN':
            s.subst(v, F(1, 2), F(1, 2)); s.vt[v] = t; s.lb[v] = F(-1); s.ub[v] = F(1); return True
        if src == 'BINARY' and t == 'INTEGER':
            s.vt[v] = t; return True
        return False

    def fix_variable(s, v, a):
        if v not in s.lin:
            return False
        for w, b in s.nbrs(v):
            if w == v:
                s.off += a * a * b
            else:
                s.lin[w] += a * b
        s.off += a * s.lin[v]
        return s.remove_variable(v)

    def flip(s, v):
        if v not in s.lin or s.vt[v] not in BIN:
            return False
        if s.vt[v] == 'SPIN':
            s.subst(v, F(-1), F(0))
        else:
            s.subst(v, F(-1), F(1))
        return True

    def relabel(s, m):
        news = list(m.values())
        if len(set(news)) < len(news):
            return False
        for new in news:
            if new in s.lin and new not in m:
                return False
        f = lambda x: m.get(x, x)
        s.labels = [f(x) for x in s.labels]
        for name in ('vt', 'lb', 'ub', 'lin'):
            setattr(s, name, {f(v): b for v, b in getattr(s, name).items()})
        s.quad = {frozenset(f(x) for x in k): b for k, b in s.quad.items()}
        return True

    def relabel_ints(s):
        return s.relabel({v: i for i, v in enumerate(s.labels) if v != i})

    def clear(s):
        s.labels, s.vt, s.lb, s.ub, s.lin, s.quad, s.off = [], {}, {}, {}, {}, {}, F(0); return True

    def set_bound(s, v, x, lower):
        if v not in s.lin or s.vt[v] in BIN:
            return False
        t = s.vt[v]
        if lower:
            if x < s.vmin(t) or x > s.ub[v] or (t == 'INTEGER' and math.ceil(x) > math.floor(s.ub[v])):
                return False
            s.lb[v] = x
        else:
            if x > s.vmax(t) or x < s.lb[v] or (t == 'INTEGER' and math.ceil(s.lb[v]) > math.floor(x)):
                return False
            s.ub[v] = x
        return True

    def spin_to_binary(s):
        for v in list(s.labels):
            if s.vt[v] == 'SPIN':
                s.change_vartype('BINARY', v)
        return True

    def update(s, o):
        for v in o.labels:
            if v in s.lin and (s.vt[v], s.lb[v], s.ub[v]) != (o.vt[v], o.lb[v], o.ub[v]):
                return False
        for v in o.labels:
            if v not in s.lin:
                s.labels.append(v); s.vt[v] = o.vt[v]; s.lb[v] = o.lb[v]; s.ub[v] = o.ub[v]; s.lin[v] = F(0)
        for v in o.labels:
            s.lin[v] += o.lin[v]
        for k, b in o.quad.items():
            s.quad[k] = s.quad.get(k, F(0)) + b
        s.off += o.off
        return True

    def energy(s, x):
        e = s.off + sum(b * x[v] for v, b in s.lin.items())
        for k, b in s.quad.items():
            t = tuple(k)
            e += b * x[t[0]] * x[t[-1]]
        return e

    def text(s):
        qs = []
        for ui, u in enumerate(s.labels):
            for vi in range(ui + 1):
                k = pkey(u, s.labels[vi])
                if k in s.quad:
                    qs.append(f'{ui}:{vi}:{rat(s.quad[k])}')
        j = ','.join
        return ';'.join([j(lab(v) for v in s.labels), j(s.vt[v] for v in s.labels), j(rat(s.lb[v]) for v in s.labels),
                         j(rat(s.ub[v]) for v in s.labels), j(rat(s.lin[v]) for v in s.labels), j(qs), rat(s.off)])

    def literal(s):
        idx = {v: i for i, v in enumerate(s.labels)}
        vars_ = ','.join(f'{_lab(v)}~{s.vt[v]}~{rat(s.lb[v])}~{rat(s.ub[v])}' for v in s.labels) or '-'
        lin = ','.join(rat(s.lin[v]) for v in s.labels) or '-'
        qs = []
        for k, b in s.quad.items():
            t = tuple(k)
            u, v = idx[t[0]], idx[t[-1]]
            qs.append(f'{max(u, v)}:{min(u, v)}:{rat(b)}')
        return f'{vars_} {lin} {",".join(qs) or "-"} {rat(s.off)}'

    def values(s):
        return list(s.lin.values()) + list(s.quad.values()) + [s.off]


def state_text(q):
    labels = list(q.variables)
    idx = {v: i for i, v in enumerate(labels)}
    qs = [f'{idx[u]}:{idx[v]}:{rat(fr(x))}' for u, v, x in q.iter_quadratic()]
    j = ','.join
    return ';'.join([j(lab(v) for v in labels), j(q.vartype(v).name for v in labels), j(rat(fr(q.lower_bound(v))) for v in labels),
                     j(rat(fr(q.upper_bound(v))) for v in labels), j(rat(fr(q.get_linear(v))) for v in labels), j(qs), rat(fr(q.offset))])


def check_reads(q, ref, r):
    L = list(q.variables)
    if L != ref.labels:
        return f'variables {L!r} != {ref.labels!r}'
    n, m = len(L), len(ref.quad)
    if (len(q.variables), q.num_variables, q.num_interactions, q.shape) != (n, n, m, (n, m)):
        return f'num_variables/num_interactions/shape {(q.num_variables, q.num_interactions, q.shape)} expected {(n, m)}'
    if q.is_linear() != (m == 0):
        return f'is_linear() {q.is_linear()} with {m} interactions'
    if fr(q.offset) != ref.off:
        return 'offset'
    if {v: fr(x) for v, x in q.linear.items()} != ref.lin or {v: fr(x) for v, x in q.iter_linear()} != ref.lin:
        return 'linear view'
    for v in L:
        if (q.vartype(v).name, fr(q.lower_bound(v)), fr(q.upper_bound(v))) != (ref.vt[v], ref.lb[v], ref.ub[v]):
            return f'vartype/bounds of {v!r}: {(q.vartype(v).name, q.lower_bound(v), q.upper_bound(v))} expected {(ref.vt[v], ref.lb[v], ref.ub[v])}'
        if fr(q.get_linear(v)) != ref.lin[v] or fr(q.linear[v]) != ref.lin[v]:
            return f'get_linear({v!r})'
        nb = dict(ref.nbrs(v))
        got = [(u, fr(x)) for u, x in q.iter_neighborhood(v)]
        if dict(got) != nb or len(got) != len(nb):
            return f'iter_neighborhood({v!r}) = {got} expected {nb}'
        if q.degree(v) != len(nb) or len(q.adj[v]) != len(nb) or {u: fr(x) for u, x in q.adj[v].items()} != nb:
            return f'degree/adj of {v!r}'
        ids = [L.index(u) for u, _ in got]
        if ids != sorted(ids):
            return f'neighbourhood of {v!r} not in index order'
    seen = {}
    for u, v, x in q.iter_quadratic():
        if pkey(u, v) in seen:
            return f'iter_quadratic repeats {(u, v)}'
        seen[pkey(u, v)] = fr(x)
    if seen != ref.quad or {pkey(*k): fr(x) for k, x in q.quadratic.items()} != ref.quad or len(q.quadratic) != m:
        return f'iter_quadratic / quadratic view {seen} != {ref.quad}'
    for i, u in enumerate(L):
        for v in L[i:]:
            k = pkey(u, v)
            for a, c in ((u, v), (v, u)):
                if k in ref.quad:
                    if fr(q.get_quadratic(a, c)) != ref.quad[k] or fr(q.quadratic[(a, c)]) != ref.quad[k]:
                        return f'get_quadratic({a!r},{c!r})'
                else:
                    try:
                        q.get_quadratic(a, c)
                        return f'get_quadratic({a!r},{c!r}) returned for a missing interaction'
                    except ValueError:
                        pass
    if n:
        x = {}
        for v in L:
            t = ref.vt[v]
            if t == 'SPIN':
                x[v] = r.choice([-1, 1])
            elif t == 'BINARY':
                x[v] = r.choice([0, 1])
            else:
                x[v] = r.choice([-2, 0, 1, 3])
        e = q.energy(x)
        if fr(e) != ref.energy(x):
            return f'energy({x}) = {e} expected {ref.energy(x)}'
    return None


BOUNDS_L = [None, None, F(-3), F(-1), F(0), F(1, 2), F(2)]
BOUNDS_U = [None, None, F(1), F(2), F(5, 2), F(7)]


def gen_op(r, ref, malformed):
    L = ref.labels
    anyl = lambda: r.choice(LABELS)
    inl = lambda: r.choice(L) if L and r.random() < .9 else anyl()
    if malformed:
        k = r.choice(['av', 'al', 'sl', 'aq', 'sq', 'ri', 'rv', 'fx', 'fl', 'cv', 'slb', 'sub', 'rl', 'alf', 'aqf', 'avf'])
        bl = r.choice([None, Unhashable([1])])
        bb = r.choice(['x', None])
        if k == 'av':
            return r.choice([(k, 'INTEGER', anyl(), F(3), F(1)), (k, 'INTEGER', anyl(), F(1, 4), F(3, 4)), (k, r.choice(VTS), Unhashable([1]), None, None),
                             (k, 'INTEGER', anyl(), 'x', None), (k, 'REAL', anyl(), None, F(2) * RMAX[ref.dt])] +
                            ([(k, 'REAL' if ref.vt[L[0]] != 'REAL' else 'SPIN', L[0], None, None)] if L else []))
        if k in ('al', 'sl'):
            return r.choice([(k, bl, q8(r)), (k, inl(), bb), (k, 'nope', q8(r))])
        if k in ('aq', 'sq'):
            u = inl()
            return r.choice([(k, u, bl, q8(r)), (k, bl, u, q8(r)), (k, u, 'nope', q8(r)), (k, u, inl(), bb)])
        if k == 'ri':
            return r.choice([(k, inl(), 'nope'), (k, 'nope', inl()), (k, inl(), Unhashable([1]))])
        if k == 'rv':
            return (k, r.choice(['nope', Unhashable([1])]))
        if k == 'fx':
            return (k, 'nope', q8(r))
        if k == 'fl':
            return (k, 'nope')
        if k == 'cv':
            return r.choice([(k, 'REAL', inl()), (k, 'SPIN', 'nope')])
        if k in ('slb', 'sub'):
            return r.choice([(k, 'nope', F(1)), (k, inl(), F(100) if k == 'slb' else F(-100)), (k, inl(), 'x')])
        if k == 'rl':
            if len(L) >= 2:
                a, b2 = r.sample(L, 2)
                return r.choice([(k, {a: b2}), (k, {a: 'z', b2: 'z'}), (k, {a: Unhashable([1])}), (k, {'nope': 'q'})])
            return (k, {'nope': 'q'})
        if k == 'alf':
            return (k, None, [(inl(), q8(r)), (r.choice([bl, 'nope']), q8(r)), (inl(), q8(r))])
        if k == 'aqf':
            return (k, [(inl(), inl(), q8(r)), (inl(), r.choice([bl, 'nope']), q8(r)), (inl(), inl(), q8(r))])
        if k == 'avf':
            return (k, r.choice(VTS), [anyl(), Unhashable([1]), anyl()])
    k = r.choice(['av', 'av', 'av', 'al', 'al', 'sl', 'aq', 'aq', 'aq', 'sq', 'sq', 'ri', 'rv', 'sc', 'of', 'cv', 'cv', 'fx', 'fl',
                  'rl', 'rli', 'cl', 'slb', 'sub', 'stb', 'up', 'alf', 'aqf', 'avf', 'alv', 'fxs', 'avm'])
    if k == 'fxs':
        # fix_variables: a wrapper of the mixin over fix_variable (valid assignments; dict / pairs / iterator)
        vs = r.sample(L, r.randint(0, min(3, len(L)))) if L else []
        return (k, [(v, F(r.choice([-1, 0, 1, 1, 2]))) for v in vs], r.choice(['dict', 'pairs', 'iter']))
    if k == 'avm':
        # add_variables_from_model: add_variable per variable of another model (new labels, or labels the receiver has with the
        # same vartype and bounds), the whole model or a chosen subset / order of its variables
        o = RefQ(ref.dt)
        for _ in range(r.randint(0, 4)):
            v = anyl()
            if v in o.lin:
                continue
            if v in ref.lin:
                o.add_variable(ref.vt[v], v, ref.lb[v], ref.ub[v])
            else:
                o.add_variable(r.choice(VTS), v, r.choice(BOUNDS_L), r.choice(BOUNDS_U))
        sub = None if r.random() < .5 or not o.labels else r.sample(o.labels, r.randint(1, len(o.labels)))
        return (k, o, sub)
    if k == 'av':
        t = r.choice(VTS)
        return (k, t, None if r.random() < .2 else anyl(), r.choice(BOUNDS_L), r.choice(BOUNDS_U))
    if k == 'al':
        return (k, inl(), q8(r))
    if k == 'alv':
        return ('al', anyl(), q8(r), (r.choice(VTS), r.choice(BOUNDS_L), r.choice(BOUNDS_U)))
    if k == 'sl':
        return (k, inl(), q8(r))
    if k in ('aq', 'sq'):
        if ref.quad and r.random() < .2:
            # leaves an interaction (or a self-loop) in the model with bias exactly 0: a cancelling add from either side / set to 0
            t = tuple(r.choice(sorted(ref.quad, key=lambda s: sorted(map(lab, s)))))
            u, v = (t[0], t[-1]) if r.random() < .5 else (t[-1], t[0])
            return (k, u, v, F(-ref.quad[pkey(u, v)]) if k == 'aq' else F(0))
        u = inl()
        v = u if r.random() < .15 else inl()
        return (k, u, v, q8(r))
    if k == 'ri':
        if ref.quad and r.random() < .8:
            t = tuple(r.choice(sorted(ref.quad, key=lambda s: sorted(map(lab, s)))))
            return (k, t[0], t[-1])
        return (k, inl(), inl())
    if k == 'rv':
        return (k, None if r.random() < .4 else inl())
    if k == 'sc':
        return (k, F(r.choice([-2, -1, 2, 4, 1, 0, 3, 5]), r.choice([1, 2, 4])))
    if k == 'of':
        return (k, q8(r, 40))
    if k == 'cv':
        return (k, r.choice(VTS), inl())
    if k == 'fx':
        return (k, inl(), F(r.choice([-1, 0, 1, 1, 2, 3]), r.choice([1, 1, 2])))
    if k == 'fl':
        return (k, inl())
    if k == 'rl':
        if not L:
            return (k, {})
        ks = r.sample(L, r.randint(1, min(3, len(L))))
        mode = r.random()
        if mode < .3 and len(ks) > 1:
            return (k, {ks[i]: ks[(i + 1) % len(ks)] for i in range(len(ks))})
        if mode < .5:
            return (k, {x: r.choice([L.index(x), len(L), r.randrange(len(L) + 1)]) for x in ks})
        return (k, {x: r.choice(LABELS + ['z', 9]) for x in ks})
    if k in ('rli', 'cl', 'stb'):
        return (k,)
    if k in ('slb', 'sub'):
        return (k, inl(), r.choice([x for x in (BOUNDS_L if k == 'slb' else BOUNDS_U) if x is not None]))
    if k == 'up':
        o = RefQ(ref.dt)
        for _ in range(r.randint(0, 4)):
            v = anyl()
            if v in ref.lin and r.random() < .8:     # mostly compatible overlap
                o.add_variable(ref.vt[v], v, ref.lb[v], ref.ub[v]) if v not in o.lin else None
            else:
                o.add_variable(r.choice(VTS), v, r.choice(BOUNDS_L), r.choice(BOUNDS_U))
            if v in o.lin:
                o.lin[v] += q8(r)
        for _ in range(r.randint(0, 3)):
            if o.labels:
                o.add_quadratic(r.choice(o.labels), r.choice(o.labels), q8(r))
        o.off = q8(r)
        return (k, o)
    if k == 'alf':
        d = None if r.random() < .5 else (r.choice(VTS), r.choice(BOUNDS_L), r.choice(BOUNDS_U))
        return (k, d, [((inl() if d is None else anyl()), q8(r)) for _ in range(r.randint(0, 4))])
    if k == 'aqf':
        return (k, [(inl(), inl(), q8(r)) for _ in range(r.randint(0, 4))])
    if k == 'avf':
        return (k, r.choice(VTS), [anyl() for _ in range(r.randint(0, 3))])
    raise AssertionError(k)


def orat(x):
    return '-' if x is None else rat(x)


def expand(op):
    """the single calls a wrapper of the Python layer makes (these go to the Lean model one line each)"""
    k = op[0]
    if k == 'fxs':
        return [('fx', v, a) for v, a in op[1]]
    if k == 'avm':
        o = op[1]
        return [('av', o.vt[v], v, None if o.vt[v] in BIN else o.lb[v], None if o.vt[v] in BIN else o.ub[v]) for v in (op[2] if op[2] is not None else o.labels)]
    return [op]


def line_of(op):
    k = op[0]
    try:
        if k == 'av':
            if not (op[3] is None or isinstance(op[3], F)) or not (op[4] is None or isinstance(op[4], F)):
                raise TypeError
            return f'av {op[1]} {olab(op[2])} {orat(op[3])} {orat(op[4])}'
        if k == 'al':
            d = op[3] if len(op) > 3 else None
            ds = '- - -' if d is None else f'{d[0]} {orat(d[1])} {orat(d[2])}'
            return f'al {olab(op[1])} {rat(op[2])} {ds}'
        if k == 'sl':
            return f'sl {olab(op[1])} {rat(op[2])}'
        if k in ('aq', 'sq'):
            return f'{k} {olab(op[1])} {olab(op[2])} {rat(op[3])}'
        if k == 'ri':
            return f'ri {_lab(op[1])} {_lab(op[2])}'
        if k == 'rv':
            return f'rv {olab(op[1])}'
        if k in ('sc', 'of'):
            return f'{k} {rat(op[1])}'
        if k == 'cv':
            return f'cv {op[1]} {_lab(op[2])}'
        if k == 'fx':
            return f'fx {_lab(op[1])} {rat(op[2])}'
        if k == 'fl':
            return f'fl {_lab(op[1])}'
        if k == 'rl':
            return 'rl ' + (','.join(f'{_lab(a)}={_lab(b)}' for a, b in op[1].items()) or '-')
        if k in ('rli', 'cl', 'stb'):
            return k
        if k in ('slb', 'sub'):
            return f'{k} {_lab(op[1])} {rat(op[2])}'
        if k == 'up':
            return 'up ' + op[1].literal()
        if k == 'alf':
            d = op[1]
            ds = '- - -' if d is None else f'{d[0]} {orat(d[1])} {orat(d[2])}'
            return f'alf {ds} ' + (','.join(f'{blab(v) if isinstance(b, F) else "-"}={rat(b) if isinstance(b, F) else 0}' for v, b in op[2]) or '-')
        if k == 'aqf':
            return 'aqf ' + (','.join(f'{blab(u)}~{blab(v) if isinstance(b, F) else "-"}~{rat(b) if isinstance(b, F) else 0}' for u, v, b in op[1]) or '-')
        if k == 'avf':
            pre = []
            for v in op[2]:
                if isinstance(v, Unhashable):
                    return f'avf {op[1]} ' + (','.join(pre) or '-') + ' !'
                pre.append(olab(v))
            return f'avf {op[1]} ' + (','.join(pre) or '-')
    except (TypeError, ValueError):
        return 'xx'
    raise AssertionError(k)


def kw(d):
    if d is None:
        return ''
    s = f', default_vartype={d[0]!r}'
    if d[1] is not None:
        s += f', default_lower_bound={float(d[1])!r}'
    if d[2] is not None:
        s += f', default_upper_bound={float(d[2])!r}'
    return s


def mk_other(o, dtype):
    q = QM(dtype=dtype)
    for v in o.labels:
        q.add_variable(o.vt[v], v, lower_bound=float(o.lb[v]), upper_bound=float(o.ub[v]))
        q.set_linear(v, float(o.lin[v]))
    for k, b in o.quad.items():
        t = tuple(k)
        q.add_quadratic(t[0], t[-1], float(b))
    q.offset = float(o.off)
    return q


MK_SRC = '''def mk_other(items, quad, off, dtype):
    q = QM(dtype=dtype)
    for v, vt, lb, ub, b in items:
        q.add_variable(vt, v, lower_bound=lb, upper_bound=ub); q.set_linear(v, b)
    for u, v, b in quad: q.add_quadratic(u, v, b)
    q.offset = off
    return q'''


def src_of(op):
    k = op[0]
    a = [pyval(x) for x in op[1:]]
    if k == 'av':
        s = f'q.add_variable({a[0]!r}, {a[1]!r}'
        if a[2] is not None: s += f', lower_bound={a[2]!r}'
        if a[3] is not None: s += f', upper_bound={a[3]!r}'
        return s + ')'
    if k == 'al': return f'q.add_linear({a[0]!r}, {a[1]!r}{kw(op[3] if len(op) > 3 else None)})'
    if k == 'sl': return f'q.set_linear({a[0]!r}, {a[1]!r})'
    if k == 'aq': return f'q.add_quadratic({a[0]!r}, {a[1]!r}, {a[2]!r})'
    if k == 'sq': return f'q.set_quadratic({a[0]!r}, {a[1]!r}, {a[2]!r})'
    if k == 'ri': return f'q.remove_interaction({a[0]!r}, {a[1]!r})'
    if k == 'rv': return f'q.remove_variable({a[0]!r})' if a[0] is not None else 'q.remove_variable()'
    if k == 'sc': return f'q.scale({a[0]!r})'
    if k == 'of': return f'q.offset = {a[0]!r}'
    if k == 'cv': return f'q.change_vartype({a[0]!r}, {a[1]!r})'
    if k == 'fx': return f'q.fix_variable({a[0]!r}, {a[1]!r})'
    if k == 'fl': return f'q.flip_variable({a[0]!r})'
    if k == 'rl': return f'q.relabel_variables({a[0]!r})'
    if k == 'rli': return 'q.relabel_variables_as_integers()'
    if k == 'cl': return 'q.clear()'
    if k == 'slb': return f'q.set_lower_bound({a[0]!r}, {a[1]!r})'
    if k == 'sub': return f'q.set_upper_bound({a[0]!r}, {a[1]!r})'
    if k == 'stb': return 'q.spin_to_binary(inplace=True)'
    if k == 'up':
        o = op[1]
        items = [(v, o.vt[v], float(o.lb[v]), float(o.ub[v]), float(o.lin[v])) for v in o.labels]
        quad = [(tuple(kk)[0], tuple(kk)[-1], float(b)) for kk, b in o.quad.items()]
        return f'q.update(mk_other({items!r}, {quad!r}, {float(o.off)!r}, q.dtype))'
    if k == 'alf': return f'q.add_linear_from({[(v, pyval(x)) for v, x in op[2]]!r}{kw(op[1])})'
    if k == 'aqf': return f'q.add_quadratic_from({[(u, v, pyval(x)) for u, v, x in op[1]]!r})'
    if k == 'avf': return f'q.add_variables_from({op[1]!r}, {list(op[2])!r})'
    if k == 'fxs':
        lit = repr([(v, pyval(x)) for v, x in op[1]])
        return f'q.fix_variables({"dict(" + lit + ")" if op[2] == "dict" else "iter(" + lit + ")" if op[2] == "iter" else lit})'
    if k == 'avm':
        o = op[1]
        return (f'q.add_variables_from_model(mk_other({[(v, o.vt[v], float(o.lb[v]), float(o.ub[v]), float(o.lin[v])) for v in o.labels]!r}, [], 0.0, q.dtype)'
                + (f', variables={list(op[2])!r}' if op[2] is not None else '') + ')')
    raise AssertionError(k)


def apply_real(q, op):
    k = op[0]
    a = [pyval(x) for x in op[1:]]
    def kwd(d):
        if d is None:
            return {}
        out = dict(default_vartype=d[0])
        if d[1] is not None: out['default_lower_bound'] = float(d[1])
        if d[2] is not None: out['default_upper_bound'] = float(d[2])
        return out
    if k == 'av':
        kws = {}
        if a[2] is not None: kws['lower_bound'] = a[2]
        if a[3] is not None: kws['upper_bound'] = a[3]
        q.add_variable(a[0], a[1], **kws)
    elif k == 'al': q.add_linear(a[0], a[1], **kwd(op[3] if len(op) > 3 else None))
    elif k == 'sl': q.set_linear(a[0], a[1])
    elif k == 'aq': q.add_quadratic(a[0], a[1], a[2])
    elif k == 'sq': q.set_quadratic(a[0], a[1], a[2])
    elif k == 'ri': q.remove_interaction(a[0], a[1])
    elif k == 'rv': q.remove_variable(a[0]) if a[0] is not None else q.remove_variable()
    elif k == 'sc': q.scale(a[0])
    elif k == 'of': q.offset = a[0]
    elif k == 'cv': q.change_vartype(a[0], a[1])
    elif k == 'fx': q.fix_variable(a[0], a[1])
    elif k == 'fl': q.flip_variable(a[0])
    elif k == 'rl': q.relabel_variables(a[0])
    elif k == 'rli': q.relabel_variables_as_integers()
    elif k == 'cl': q.clear()
    elif k == 'slb': q.set_lower_bound(a[0], a[1])
    elif k == 'sub': q.set_upper_bound(a[0], a[1])
    elif k == 'stb': q.spin_to_binary(inplace=True)
    elif k == 'up': q.update(mk_other(op[1], q.dtype))
    elif k == 'alf': q.add_linear_from([(v, pyval(x)) for v, x in op[2]], **kwd(op[1]))
    elif k == 'aqf': q.add_quadratic_from([(u, v, pyval(x)) for u, v, x in op[1]])
    elif k == 'avf': q.add_variables_from(op[1], list(op[2]))
    elif k == 'fxs':
        items = [(v, pyval(x)) for v, x in op[1]]
        q.fix_variables(dict(items) if op[2] == 'dict' else iter(items) if op[2] == 'iter' else items)
    elif k == 'avm':
        other = mk_other(op[1], q.dtype)
        if op[2] is None:
            q.add_variables_from_model(other)
        else:
            q.add_variables_from_model(other, variables=list(op[2]))
    else:
        raise AssertionError(k)


def apply_ref(P, op):
    k = op[0]
    a = op[1:]
    hashable = lambda x: x is not None and not isinstance(x, Unhashable)
    num = lambda x: isinstance(x, F)
    onum = lambda x: x is None or isinstance(x, F)
    if k == 'av':
        if isinstance(a[1], Unhashable) or not onum(a[2]) or not onum(a[3]): return False
        return P.add_variable(a[0], a[1], a[2], a[3])
    if k == 'al':
        if not hashable(a[0]) or not num(a[1]): return False
        return P.add_linear(a[0], a[1], a[2] if len(a) > 2 else None)
    if k == 'sl':
        if not hashable(a[0]) or not num(a[1]): return False
        return P.set_linear(a[0], a[1])
    if k in ('aq', 'sq'):
        if not hashable(a[0]) or not hashable(a[1]) or not num(a[2]): return False
        return P.add_quadratic(*a) if k == 'aq' else P.set_quadratic(*a)
    if k == 'ri':
        if not hashable(a[0]) or not hashable(a[1]): return False
        return P.remove_interaction(*a)
    if k == 'rv':
        if isinstance(a[0], Unhashable): return False
        return P.remove_variable(a[0])
    if k == 'sc': return P.scale(a[0])
    if k == 'of': return P.set_offset(a[0])
    if k == 'cv': return P.change_vartype(a[0], a[1])
    if k == 'fx': return P.fix_variable(*a)
    if k == 'fl': return P.flip(a[0])
    if k == 'rl':
        if any(not hashable(x) for x in a[0].values()): return False
        return P.relabel(a[0])
    if k == 'rli': return P.relabel_ints()
    if k == 'cl': return P.clear()
    if k in ('slb', 'sub'):
        if not num(a[1]): return False
        return P.set_bound(a[0], a[1], k == 'slb')
    if k == 'stb': return P.spin_to_binary()
    if k == 'up': return P.update(a[0])
    if k == 'alf':
        for v, b in a[1]:
            if not hashable(v) or not num(b) or not P.add_linear(v, b, a[0]): return False
        return True
    if k == 'aqf':
        for u, v, b in a[0]:
            if not hashable(u) or not hashable(v) or not num(b) or not P.add_quadratic(u, v, b): return False
        return True
    if k == 'avf':
        for v in a[1]:
            if isinstance(v, Unhashable) or not P.add_variable(a[0], v, None, None): return False
        return True
    if k == 'fxs':
        for v, x in a[0]:
            if not P.fix_variable(v, x): return False
        return True
    if k == 'avm':
        for p in expand(op):
            if not P.add_variable(*p[1:]): return False
        return True
    raise AssertionError(k)


BULK = ('alf', 'aqf', 'avf', 'fxs', 'avm')
SITE = {'av': 'add_variable', 'al': 'add_linear', 'sl': 'set_linear', 'aq': 'add_quadratic', 'sq': 'set_quadratic',
        'ri': 'remove_interaction', 'rv': 'remove_variable', 'sc': 'scale', 'of': 'offset.setter', 'cv': 'change_vartype',
        'fx': 'fix_variable', 'fl': 'flip_variable', 'rl': 'relabel_variables', 'rli': 'relabel_variables_as_integers', 'cl': 'clear',
        'slb': 'set_lower_bound', 'sub': 'set_upper_bound', 'stb': 'spin_to_binary', 'up': 'update', 'alf': 'add_linear_from',
        'aqf': 'add_quadratic_from', 'avf': 'add_variables_from', 'fxs': 'fix_variables', 'avm': 'add_variables_from_model'}


def repro_script(dt, hist, tail):
    head = ['import numpy as np, dimod', 'from dimod import QuadraticModel as QM', MK_SRC, f'q = QM(dtype=np.{DT[dt].__name__})',
            'def state(q):',
            '    L = list(q.variables)',
            '    return (L, [q.vartype(v).name for v in L], [float(q.lower_bound(v)) for v in L], [float(q.upper_bound(v)) for v in L],',
            '            dict(q.linear), {frozenset(k): v for k, v in q.quadratic.items()}, float(q.offset))']
    return '\n'.join(head + hist + tail) + '\n'


def qm_history(ctx, r, dt, nops, lines, expect, meta, malformed_rate):
    q = QM(dtype=DT[dt])
    ref = RefQ(dt)
    hist = []
    lines.append(f'newqm {rat(IMAX[dt])} {rat(RMAX[dt])}'); expect.append(('text', 'ok ' + ref.text())); meta.append((dt, 'new', None))
    for step in range(nops):
        op = gen_op(r, ref, r.random() < malformed_rate)
        k = op[0]
        before = ref.copy()
        P = ref.copy()
        okx = apply_ref(P, op)
        new = P if (okx or k in BULK) else before.copy()
        partial = (not okx) and not new.same(before)
        if not all(fits(x, MANT[dt]) for x in new.values()):
            ctx.tick('cut_for_precision'); break
        lns = [line_of(p) for p in expand(op)]
        ln = ' ; '.join(lns)
        src = src_of(op)
        hist.append('try:\n    ' + src + '\nexcept Exception as e: print("raised", type(e).__name__, e)')
        exc = None
        ctx.mark(f'C04 QM {dt} about to run: {src}  (history: {[h for h in hist[-6:]]})')
        try:
            apply_real(q, op)
        except Exception as e:  # noqa
            exc = e
        raised = exc is not None
        ctx.tick(f'qm:{k}' + (':raises' if raised else ''))
        site = 'QM.' + SITE[k]
        if len(q.variables) != q.num_variables:
            ctx.fail('property', site, 'labels and native model out of step',
                     f'{src}: now len(variables)={len(q.variables)} but num_variables={q.num_variables}',
                     repro=repro_script(dt, hist, ['assert len(q.variables) == q.num_variables']), detail=dict(history=hist[-8:]))
            return
        try:
            got = state_text(q)
        except Exception as e:  # noqa
            ctx.fail('property', site, 'state unreadable after call', f'{src}: reading the model afterwards raised {type(e).__name__}: {e}',
                     repro=repro_script(dt, hist, ['print(state(q))', 'assert False']), detail=dict(history=hist[-8:]))
            return
        ctx.case(('qm', dt, ln, before.text()), nontrivial=(not new.same(before)) or raised,
                 sample=dict(dtype='qm-' + dt, history=[h.split('\n')[1].strip() for h in hist]) if step == 9 else None)

        def fail_prop(cls, what):
            ctx.fail('property', site, cls, what, repro=repro_script(dt, hist[:-1], [
                'before = state(q)', 'raised = None', 'try:', '    ' + src, 'except Exception as e: raised = e',
                'print("before", before); print("after ", state(q)); print("raised", repr(raised))',
                f'expected = {new.text()!r}',
                'assert ' + ('raised is None' if okx else 'raised is not None') + ', raised',
                ('assert state(q) == before, (before, state(q))' if not okx and k not in BULK else '')]),
                detail=dict(dtype=dt, op=src, history=hist[-10:], expected=new.text(), got=got, raised=repr(exc)))
        if okx:
            if raised:
                fail_prop(f'{type(exc).__name__} on a valid call' + ('' if got == before.text() else ', model changed'),
                          f'{src} raised {type(exc).__name__}: {exc}')
                return
            if got != new.text():
                fail_prop('wrong polynomial', f'{src}: model is {got}, the polynomial is {new.text()}')
                return
            ref = new
        else:
            if not raised:
                fail_prop('accepted an invalid call', f'{src} returned normally; state {got}')
                return
            if k in BULK:
                if got == new.text():
                    if partial:
                        ctx.fail('property', site, 'bulk call raised after applying a prefix',
                                 f'{src} raised {type(exc).__name__} and kept the elements before the offending one (D34)',
                                 repro=repro_script(dt, hist[:-1], ['before = state(q)', 'try:', '    ' + src, 'except Exception: pass',
                                                                    'assert state(q) == before, (before, state(q))']), detail=dict(op=src))
                    ref = new
                elif got == before.text():
                    ref = before
                else:
                    fail_prop('wrong polynomial after partial bulk', f'{src}: {got} is neither the state before nor the applied prefix {new.text()}')
                    return
            else:
                if got != before.text():
                    fail_prop('changed on raise', f'{src} raised {type(exc).__name__} but changed the model: {before.text()} -> {got}')
                    return
                ref = before
        for j, l1 in enumerate(lns):
            lines.append(l1); expect.append(('text', ('err ' if raised else 'ok ') + got) if j == len(lns) - 1 else ('skip', ''))
            meta.append(('qm-' + dt, src, list(hist[-12:])))
        if r.random() < .35 or step == nops - 1:
            try:
                bad = check_reads(q, ref, r)
            except Exception as e:  # noqa
                bad = f'read raised {type(e).__name__}: {e}'
            if bad:
                ctx.fail('property', 'QM read paths', bad.split(' ')[0].split('(')[0], f'after {src}: {bad}',
                         repro=repro_script(dt, hist, ['print(state(q))', 'assert False, ' + repr(bad)]), detail=dict(history=hist[-8:], expected=ref.text()))
                return
            ctx.tick('qm:reads_checked')


def run(ctx):
    r = ctx.rng
    nh = ctx.scale(120, 3000)
    for dt in ('f64', 'f32'):
        lines, expect, meta = [], [], []
        for _ in range(nh):
            qm_history(ctx, r, dt, r.randint(1, 40), lines, expect, meta, .1)
            if len([f for f in ctx.failures if f['kind'] == 'property']) >= 60:
                break
        compare(ctx, 'qmdriver', lines, expect, meta, f'QM[{dt}] vs Lean Qm')
