"""C12 — LP text round trip preserves the constrained model or is refused.

Random LP-expressible CQMs (BINARY / INTEGER / REAL variables with default and explicit bounds, labels
over the whole LP label alphabet incl. 255-character ones, squared terms, negative / fractional / zero
coefficients, constant offsets in the objective and in constraint left-hand sides, empty objectives,
lines forced to wrap at every column) and a stream of models the format cannot express.

(i)   correspondence, writer: the text produced by the Lean model `Lp.dumps` (token emitter +
      `_WidthLimitedFile` + number formatting) from the coefficients the real CQM reports equals
      `lp.dumps(cqm)` byte for byte; refusals agree in kind (soft / label / SPIN) and order;
      `_validate_label` agrees with `Lp.validLabel` on every generated label.
(ii)  correspondence, reader: `lp.loads(text)` (the real C++ parser + `model_to_cqm`, run in a child interpreter)
      equals what the specification-level reader `Lp.loads` AND the Lean model of the C++ reader as coded
      (`LpCpp.loads`, driver op `lpread`) give on the same text: variable order, types, bounds, objective,
      constraint labels / senses / right-hand sides / left-hand sides.  The reader model is also driven on
      hand-style LP texts and their near misses (`harness/props/c12_hand.py`), where the real parser is in
      addition compared with an independent reference reading of the generation data.
(iii) property predicate, independent of the model and of the writer's bookkeeping: `loads(dumps(cqm))`
      compared with the *generation data*: same variables with same types and bounds, same constraint
      labels and senses, objective equal as a polynomial (hence at every sample), every constraint's
      activity `lhs(x) - rhs` equal as a polynomial, `rhs` and `lhs` separately when the lhs has no
      constant; non-expressible models raise and nothing is written.
"""
import io
import string
from fractions import Fraction as F

import dimod
from dimod import lp
from harness.common import lab, rat, run_driver

VALID = string.ascii_letters + string.digits + "'!\"#$%&(),.;?@_‘’{}~"
BADFIRST = 'eE.;' + string.digits
# words the LP grammar reserves (case-insensitive); a label equal to one of them cannot be read back
RESERVED = {'minimize', 'min', 'minimum', 'maximize', 'max', 'maximum', 'st', 's.t.', 'bounds', 'bound', 'binary', 'binaries', 'bin',
            'general', 'generals', 'gen', 'integer', 'integers', 'semi', 'semis', 'sos', 'end', 'free', 'inf', 'infinity'}
# single words that are only special in pairs ("subject to", "such that"): kept out of the random stream, exercised by the
# directed two-word-keyword section of `run`
PAIRWORDS = {'subject', 'to', 'such', 'that'}
UNREADABLE = 'label is not an identifier for the LP reader (keyword, inf/nan prefix, leading semicolon)'
PRE = 'import dimod\nfrom dimod import lp\nfrom fractions import Fraction as F\n'
VT = {'B': dimod.BINARY, 'I': dimod.INTEGER, 'R': dimod.REAL, 'S': dimod.SPIN}
SENSES = {'le': '<=', 'ge': '>=', 'eq': '=='}
LOADER = None
INTMAX, REALMAX = F(2 ** 53 - 1), F(1e30)


def dy_long(r):
    """numbers that need many significant digits (7..16): large integers up to 2**53, dyadic fractions with up to 10 binary places.
    All are doubles whose exact decimal expansion has at most 15 significant digits (or integers below 1e16), so that
    `repr(float)` is that expansion, and all lie in repr's positional range 1e-4 <= |q| < 1e16."""
    m = r.random()
    if m < .3:
        q = F(r.choice([1234567, 10 ** 6 + 1, 2 ** 24 + 1, 2 ** 31 - 1, 2 ** 40 + 3, 10 ** 15 + 1, 2 ** 53 - 1, 2 ** 53, 123456789012]))
    elif m < .5:
        q = F(r.randint(10 ** 6, 10 ** 13))
    else:
        j = r.choice([4, 6, 8, 10])
        q = F(r.randint(1, 2 ** 24) * 2 + 1, 2 ** j)
    return q if r.random() < .5 else -q


def short_decimal(q):
    """an integer below 1e16 in magnitude, or a terminating decimal of at most 15 significant digits: `repr(float(q))` is then the
    exact positional expansion"""
    if q.denominator == 1:
        return abs(q) < 10 ** 16
    k = 0
    while (q * 10 ** k).denominator != 1:
        k += 1
        if k > 40:
            return False
    return len(str(abs(int(q * 10 ** k)))) <= 15 and abs(q) >= F(1, 10 ** 4)


LONG = [0.0]          # share of long numbers in the stream (set by run)


def dy(r, nz=False):
    while True:
        if r.random() < LONG[0]:
            return dy_long(r)
        q = F(r.randint(-64, 64), 8) if r.random() < .6 else F(r.randint(-8, 8))
        if q or not nz:
            return q


def gen_label(r, used, long=False):
    while True:
        n = 255 if long else r.choice([1, 1, 2, 3, 5, 8, 12, 20, 33])
        s = r.choice([c for c in VALID if c not in BADFIRST]) + ''.join(r.choice(VALID if r.random() < .3 else string.ascii_lowercase + '_') for _ in range(n - 1))
        # families of labels that are prefixes / extensions of one another (x1, x10, x11; cap, cap_max), and labels that differ in
        # their last character only or in case only: name lookups that compare less than the whole name confuse them
        strs = [u for u in used if isinstance(u, str) and u]
        if strs and not long and r.random() < .35:
            base = r.choice(strs)
            m = r.random()
            if m < .45 and len(base) < 250:
                s = base + ''.join(r.choice(string.digits + '_' + string.ascii_lowercase) for _ in range(r.choice([1, 1, 2, 4])))
            elif m < .8 and len(base) > 1:
                s = base[:r.randint(1, len(base) - 1)]
            elif m < .9:
                s = base[:-1] + r.choice(string.ascii_letters + string.digits + '_')
            else:
                s = base.swapcase()
            if s[0] in BADFIRST or any(c not in VALID for c in s):
                continue
        if s.lower() in RESERVED or s.lower() in PAIRWORDS or s.lower().startswith(('inf', 'nan')) or s in used:
            continue
        used.add(s)
        return s


class Gen:
    """generation data of one CQM: the oracle's view"""

    def __init__(self, r, wrapmode=False):
        used = set()
        nv = r.randint(1, 6) if not wrapmode else r.randint(3, 8)
        self.vars = []     # (label, kind, lb, ub)
        for i in range(nv):
            k = r.choice('BBIIR')
            lb, ub = F(0), F(1)
            if k in 'IR':
                if r.random() < .4:
                    lb, ub = F(0), (INTMAX if k == 'I' else REALMAX)
                else:
                    # whole, fractional and negative bounds for INTEGER as well as REAL (an INTEGER variable only needs
                    # one integer between its bounds), and the extreme values of the vartype
                    m = r.random()
                    if m < .12:
                        big = INTMAX if k == 'I' else REALMAX
                        lb, ub = r.choice([(-big, big), (-big, F(r.randint(-9, 9), 2)), (F(r.randint(-9, 9), 4), big), (F(-2 ** 40), F(2 ** 40) + F(1, 2))])
                    else:
                        lb = F(r.randint(-320, 64), r.choice([1, 1, 2, 4, 8]))
                        ub = lb + F(r.randint(0, 480), r.choice([1, 1, 2, 4, 8]))
                    if k == 'I' and -(-lb.numerator // lb.denominator) > ub.numerator // ub.denominator:
                        ub += 1          # dimod wants at least one integer between the bounds
            self.vars.append((gen_label(r, used, long=(r.random() < (.08 if not wrapmode else .02))), k, lb, ub))
        self.obj = self.gen_expr(r, allow_empty=True, wrapmode=wrapmode)
        self.cons = []
        for i in range(r.choice([0, 1, 1, 2, 3, 4])):
            e = self.gen_expr(r, allow_empty=r.random() < .05, wrapmode=wrapmode)
            rhs = dy(r)
            if F(float(rhs) - float(e[2])) != rhs - e[2] or not short_decimal(rhs - e[2]):
                e = (e[0], e[1], F(0))       # the writer folds the constant into the right-hand side in double arithmetic: keep that exact
            self.cons.append((gen_label(r, used, long=r.random() < .05), e, r.choice(['le', 'ge', 'eq']), rhs))

    def gen_expr(self, r, allow_empty, wrapmode=False):
        names = [v[0] for v in self.vars]
        kind = {v[0]: v[1] for v in self.vars}
        lin, quad = {}, {}
        m = r.random()
        dens = .9 if wrapmode else r.choice([.3, .6, .9])
        if not (allow_empty and m < .15):
            for v in names:
                if r.random() < dens:
                    lin[v] = dy(r) if r.random() < .9 else F(0)
            nonreal = [v for v in names if kind[v] != 'R']
            for i, u in enumerate(nonreal):
                for v in nonreal[i:]:
                    if u == v and kind[u] != 'I':
                        continue
                    if r.random() < (dens / 3 if not wrapmode else .5):
                        quad[(u, v) if r.random() < .5 else (v, u)] = dy(r) if r.random() < .9 else F(0)
        off = dy(r) if r.random() < .5 else F(0)
        return lin, quad, off

    def build(self, soft=None, spin=None):
        cqm = dimod.ConstrainedQuadraticModel()
        for v, k, lb, ub in self.vars:
            kk = 'S' if spin == v else k
            if kk in 'BS':
                cqm.add_variable(VT[kk], v)
            else:
                cqm.add_variable(VT[kk], v, lower_bound=float(lb), upper_bound=float(ub))
        cqm.set_objective(self.qm(self.obj, spin))
        for i, (label, e, sense, rhs) in enumerate(self.cons):
            kw = {}
            if soft == i:
                kw = dict(weight=2.0, penalty='linear')
            cqm.add_constraint_from_model(self.qm(e, spin), SENSES[sense], float(rhs), label=label, **kw)
        return cqm

    def qm(self, e, spin=None):
        lin, quad, off = e
        qm = dimod.QuadraticModel()
        info = {v: (k, lb, ub) for v, k, lb, ub in self.vars}
        for v in list(lin) + [x for uv in quad for x in uv]:
            if v not in qm.variables:
                k, lb, ub = info[v]
                if spin == v:
                    k = 'S'
                if k in 'BS':
                    qm.add_variable(VT[k], v)
                else:
                    qm.add_variable(VT[k], v, lower_bound=float(lb), upper_bound=float(ub))
        for v, b in lin.items():
            qm.add_linear(v, float(b))
        for (u, v), b in quad.items():
            qm.add_quadratic(u, v, float(b))
        qm.offset = float(off)
        return qm

    def src(self):
        return (f'VARS = {[(v, k, str(lb), str(ub)) for v, k, lb, ub in self.vars]!r}\n'
                f'OBJ = {self.esrc(self.obj)!r}\nCONS = {[(l, self.esrc(e), s, str(rhs)) for l, e, s, rhs in self.cons]!r}\n' + BUILD_SRC)

    @staticmethod
    def esrc(e):
        return ({v: str(b) for v, b in e[0].items()}, {k: str(b) for k, b in e[1].items()}, str(e[2]))


BUILD_SRC = '''VT = {'B': dimod.BINARY, 'I': dimod.INTEGER, 'R': dimod.REAL}
INFO = {v: (k, float(F(lb)), float(F(ub))) for v, k, lb, ub in VARS}
def addvar(m, v):
    k, lb, ub = INFO[v]
    if v in m.variables: return
    m.add_variable(VT[k], v) if k == 'B' else m.add_variable(VT[k], v, lower_bound=lb, upper_bound=ub)
def qm(e):
    lin, quad, off = e
    m = dimod.QuadraticModel()
    for v in list(lin) + [x for uv in quad for x in uv]: addvar(m, v)
    for v, b in lin.items(): m.add_linear(v, float(F(b)))
    for (u, v), b in quad.items(): m.add_quadratic(u, v, float(F(b)))
    m.offset = float(F(off)); return m
cqm = dimod.ConstrainedQuadraticModel()
for v, k, lb, ub in VARS: addvar(cqm, v)
cqm.set_objective(qm(OBJ))
for l, e, s, rhs in CONS: cqm.add_constraint_from_model(qm(e), {'le': '<=', 'ge': '>=', 'eq': '=='}[s], float(F(rhs)), label=l)
def coeffs(e):
    d = {}
    for v, b in e.iter_linear(): d[(v,)] = d.get((v,), 0) + F(float(b))
    for u, v, b in e.iter_quadratic(): k = tuple(sorted((u, v))); d[k] = d.get(k, 0) + F(float(b))
    d[()] = F(float(e.offset)); return {k: b for k, b in d.items() if b}
'''


def fr(x):
    return F(float(x))


def expr_wire(e):
    lin = ','.join(f'{lab(v)}={rat(fr(b))}' for v, b in e.iter_linear()) or '-'
    quad = ','.join(f'{lab(u)}&{lab(v)}={rat(fr(b))}' for u, v, b in e.iter_quadratic()) or '-'
    return f'{lin}|{quad}|{rat(fr(e.offset))}'


def cqm_wire(cqm):
    """what `dump` consumes, read from the real object"""
    vs = ','.join(f"{lab(v)}~{cqm.vartype(v).name[0]}~{rat(fr(cqm.lower_bound(v)))}~{rat(fr(cqm.upper_bound(v)))}" for v in cqm.variables) or '-'
    parts = [vs, expr_wire(cqm.objective)]
    for label, c in cqm.constraints.items():
        sense = {'<=': 'le', '>=': 'ge', '==': 'eq'}[c.sense.value]
        parts.append(f"{lab(label)}|{sense}|{rat(fr(c.rhs))}|{int(label in cqm._soft)}|{expr_wire(c.lhs)}")
    return ' ; '.join(parts)


def merged(lin, quad, off):
    d = {}
    for v, b in lin:
        d[(v,)] = d.get((v,), 0) + b
    for u, v, b in quad:
        k = tuple(sorted((u, v)))
        d[k] = d.get(k, 0) + b
    d[()] = d.get((), 0) + off
    return {k: b for k, b in d.items() if b}


def expr_coeffs(e):
    return merged([(v, fr(b)) for v, b in e.iter_linear()], [(u, v, fr(b)) for u, v, b in e.iter_quadratic()], fr(e.offset))


def canon_real(cqm):
    """canonical reading of a loaded CQM, comparable with the model's answer"""
    vs = [(v, cqm.vartype(v).name[0], fr(cqm.lower_bound(v)), fr(cqm.upper_bound(v))) for v in cqm.variables]
    cons = [(label, {'<=': 'le', '>=': 'ge', '==': 'eq'}[c.sense.value], fr(c.rhs), expr_coeffs(c.lhs)) for label, c in cqm.constraints.items()]
    return vs, expr_coeffs(cqm.objective), cons


def unlab(s):
    if s.startswith('s:'):
        return bytes.fromhex(s[2:]).decode()
    return int(s[2:])


def parse_model_cqm(ans):
    fields = ans.split(';')

    def pexpr(l, q, o):
        lin = [] if l == '-' else [(unlab(kv.split('=')[0]), F(kv.split('=')[1])) for kv in l.split(',')]
        quad = [] if q == '-' else [(*map(unlab, kv.split('=')[0].split('&')), F(kv.split('=')[1])) for kv in q.split(',')]
        return merged(lin, quad, F(o))
    vs = [] if fields[0] == '-' else [(unlab(a), k, F(lo), F(hi)) for a, k, lo, hi in (x.split('~') for x in fields[0].split(','))]
    obj = pexpr(*fields[1].split('|'))
    cons = []
    for c in fields[2:]:
        lb, sn, rhs, soft, l, q, o = c.split('|')
        cons.append((unlab(lb), sn, F(rhs), pexpr(l, q, o)))
    return vs, obj, cons


def mutate_text(r, text):
    """a near miss of a writer-produced text that stays inside the writer's grammar: other line breaks, another number,
    another sense.  Returns (text, kind) or (None, kind)."""
    import re
    cut = text.find('\nBounds')
    head, tail = text[:cut], text[cut:]
    kind = r.choice(['rewrap', 'rewrap', 'number', 'rhs', 'sense', 'rewrap names'])
    if kind == 'rewrap':
        pos = [i for i in range(1, len(head) - 1) if head[i] == ' ' and head[i - 1] not in ' \n' and head[i + 1] not in ' \n']
        if not pos:
            return None, kind
        for i in sorted(r.sample(pos, min(len(pos), r.randint(1, 6))), reverse=True):
            head = head[:i] + '\n ' + head[i + 1:]
        return head + tail, kind
    if kind == 'rewrap names':
        pos = [i for i in range(1, len(tail) - 1) if tail[i] == ' ' and tail[i - 1] not in ' \n' and tail[i + 1] not in ' \n' and tail.find('\nBinary') < i]
        if not pos:
            return None, kind
        for i in sorted(r.sample(pos, min(len(pos), r.randint(1, 4))), reverse=True):
            tail = tail[:i] + '\n ' + tail[i + 1:]
        return head + tail, kind
    if kind == 'number':
        ms = list(re.finditer(r'(?<=[+-] )\d+(\.\d+)?(?= )', head))
        if not ms:
            return None, kind
        m = r.choice(ms)
        return head[:m.start()] + r.choice(['3', '0.25', '17.5', '1000000', '0.125', '6.0']) + head[m.end():] + tail, kind
    if kind == 'rhs':
        ms = list(re.finditer(r'(?<== )-?\d+(\.\d+)?(?=\n|$)', head))
        if not ms:
            return None, kind
        m = r.choice(ms)
        return head[:m.start()] + r.choice(['3', '-3.5', '0', '0.0', '12.25', '-100']) + head[m.end():] + tail, kind
    st = head.find('Subject To')
    ms = list(re.finditer(r' (<=|>=|=) ', head[st:]))
    if not ms:
        return None, kind
    m = r.choice(ms)
    new = r.choice([x for x in ('<=', '>=', '=') if x != m.group(1)])
    return head[:st + m.start()] + ' ' + new + ' ' + head[st + m.end():] + tail, kind



def entry_points(ctx, r, cqm, text, want, src):
    """the text `lp.dumps` wrote, through every accepted form of `lp.loads` / `lp.load` / `lp.dump`: same reading as `lp.loads(text)`
    gave in the child interpreter (which has just read this very text, so no assertion of the C++ code can fire here)"""
    import os, tempfile
    d = tempfile.mkdtemp(prefix='c12-')
    path = os.path.join(d, 'm.lp')
    hdr = '\\ written by a test\n\\ ' + 'x' * r.randrange(0, 90) + '\n'
    with open(path, 'w', newline='') as f:
        f.write(text)
    hpath = os.path.join(d, 'h.lp')
    with open(hpath, 'w', newline='') as f:
        f.write(hdr + text)
    dpath = os.path.join(d, 'd.lp')

    def via_dump_text():
        with open(dpath, 'w') as f:
            lp.dump(cqm, f)
        return lp.load(dpath)

    def via_dump_then_handle():
        with open(dpath, 'w+') as f:
            lp.dump(cqm, f)
            f.flush()
            f.seek(0)
            return lp.load(f)

    def seeked():
        with open(hpath, 'rb') as f:
            f.seek(len(hdr.encode()))
            return lp.load(f)

    def after_readline():
        with open(hpath, 'rb') as f:
            f.readline(); f.readline()
            return lp.load(f)

    def rb():
        with open(path, 'rb') as f:
            return lp.load(f)

    def rt():
        with open(path) as f:
            return lp.load(f)

    def twice_same_handle():
        with open(path, 'rb') as f:
            a = lp.load(f)
            b = lp.load(f)          # position still 0 (read by name) or moved: either way the same file
            return b if canon_real(a) == want else a

    forms = [('lp.loads(str)', lambda: lp.loads(text), 'lp.loads(text)'),
             ('lp.loads(bytes)', lambda: lp.loads(text.encode()), 'lp.loads(text.encode())'),
             ('lp.loads(bytearray)', lambda: lp.loads(bytearray(text.encode())), 'lp.loads(bytearray(text.encode()))'),
             ('lp.load(path: str)', lambda: lp.load(path), None), ('lp.load(path: bytes)', lambda: lp.load(path.encode()), None),
             ('lp.load(binary file at 0)', rb, None), ('lp.load(text file at 0)', rt, None),
             ('lp.load(BytesIO)', lambda: lp.load(io.BytesIO(text.encode())), 'import io\nlp.load(io.BytesIO(text.encode()))'),
             ('lp.load(BytesIO positioned after a header)', lambda: (lambda b: (b.seek(len(hdr.encode())), lp.load(b))[1])(io.BytesIO((hdr + text).encode())), None),
             ('lp.load(binary file positioned after a header: seek)', seeked, None),
             ('lp.load(binary file positioned after a header: readline)', after_readline, None),
             ('lp.load(same handle twice)', twice_same_handle, None),
             ('lp.dump(text file) + lp.load(path)', via_dump_text, None), ('lp.dump(w+ file) + seek(0) + lp.load(handle)', via_dump_then_handle, None)]
    try:
        for name, f, call in forms:
            ctx.tick('entry point: ' + name)
            ctx.case(('entry', name, text), nontrivial=True)
            try:
                got = canon_real(f())
                msg = None if got == want else f'read as {got}, lp.loads(text) reads {want}'
            except Exception as e:  # noqa
                msg = f'{type(e).__name__}: {e}'
            if msg is not None:
                rep = None
                if call is not None:
                    rep = (PRE + src + 'text = lp.dumps(cqm)\nback = ' + call + '\n'
                           'assert set(back.variables) == set(cqm.variables) and list(back.constraints) == list(cqm.constraints)\n'
                           'assert coeffs(back.objective) == coeffs(cqm.objective)\n')
                ctx.fail('property', name, 'entry point reads another model than lp.loads(text)', msg, repro=rep, detail=dict(text=text[:600]))
                break
    finally:
        import shutil
        shutil.rmtree(d, ignore_errors=True)


def run(ctx):
    r = ctx.rng
    from harness.props.c12_hand import RealLoader
    global LOADER
    LOADER = RealLoader()
    ctx.rule = ('random LP-expressible CQMs (1-8 variables, labels over the full LP alphabet incl. 255-character labels, default and '
                'explicit bounds, squared / zero / negative / fractional coefficients, offsets, empty objectives and left-hand sides) '
                'plus a 15% stream of non-expressible models (SPIN, soft constraint, invalid labels); a case = one model; '
                'non-trivial = it has at least one term; distinct by the LP text / refusal')
    lines, expect, meta = [], [], []
    n_models = ctx.scale(3000, 40000)
    for mi in range(n_models):
        wrapmode = mi % 5 == 4
        # every third model draws a quarter of its numbers (coefficients, offsets, right-hand sides) from the many-digit stream
        LONG[0] = .25 if mi % 3 == 1 else 0.0
        g = Gen(r, wrapmode=wrapmode)
        LONG[0] = 0.0
        if mi % 3 == 1:
            ctx.tick('numbers: many significant digits')
        bad = None
        kw = {}
        if r.random() < .15:
            bad = r.choice(['spin', 'soft', 'varlabel', 'conlabel'])
            if bad == 'spin':
                cand = [v for v, k, _, _ in g.vars if k == 'B']
                if not cand:
                    bad = None
                else:
                    kw['spin'] = r.choice(cand)
            elif bad == 'soft':
                if not g.cons:
                    bad = None
                else:
                    kw['soft'] = r.randrange(len(g.cons))
            else:
                badlabel = r.choice([';a', ';', 'inf', 'Info', 'nano', 'NaN', 'st', 'Bin', 'free', 'GENERAL', 's.t.', 0, 7, ('a', 1), '', 'x' * 256, 'a b', 'a+b', 'x:y', 'a*b', 'é', '9x', 'e1', 'E', '.a', 'a<b', 'a[0]', 'a/b', 'x-y', 'a=b', 'a\\b', 'a^2', 'x|y', 'a\n', '\t'])
                if bad == 'varlabel':
                    i = r.randrange(len(g.vars))
                    old = g.vars[i][0]
                    g.vars[i] = (badlabel,) + g.vars[i][1:]
                    ren = lambda e: ({(badlabel if v == old else v): b for v, b in e[0].items()},  # noqa: E731
                                     {tuple(badlabel if x == old else x for x in k): b for k, b in e[1].items()}, e[2])
                    g.obj = ren(g.obj)
                    g.cons = [(l, ren(e), s, rhs) for l, e, s, rhs in g.cons]
                elif not g.cons:
                    bad = None
                else:
                    i = r.randrange(len(g.cons))
                    g.cons[i] = (badlabel,) + g.cons[i][1:]
        cqm = g.build(**kw)
        src = g.src() if bad is None else None
        wire = cqm_wire(cqm)
        try:
            text = lp.dumps(cqm)
            raised = None
        except Exception as e:  # noqa
            text, raised = None, e
        # labels: model vs real validator
        for lbl in [v for v, *_ in g.vars] + [c[0] for c in g.cons]:
            try:
                lp._validate_label(lbl)
                ok = True
            except ValueError:
                ok = False
            try:
                lines.append('valid ' + lab(lbl)); expect.append('1' if ok else '0'); meta.append(('lp._validate_label', repr(lbl)))
            except TypeError:
                pass
        if bad is not None:
            ctx.tick('refuse:' + bad)
            ctx.case(('refuse', bad, wire), nontrivial=True)
            if raised is None:
                unreadable = bad in ('varlabel', 'conlabel') and isinstance(badlabel, str) and badlabel and (
                    badlabel[0] == ';' or badlabel.lower() in RESERVED or badlabel.lower().startswith(('inf', 'nan')))
                ctx.fail('property', 'lp.dumps', UNREADABLE if unreadable else
                         {'spin': 'SPIN variable', 'soft': 'soft constraint', 'varlabel': 'invalid variable label', 'conlabel': 'invalid constraint label'}[bad],
                         'a model the LP format cannot express was written instead of refused',
                         repro=None, detail=dict(model=wire, text=text[:300]))
            elif not isinstance(raised, ValueError):
                ctx.fail('property', 'lp.dumps', 'refusal exception type', f'{type(raised).__name__}: {raised}', detail=dict(model=wire))
            else:
                # nothing may have been written when the refusal comes
                buf = io.StringIO()
                try:
                    lp.dump(cqm, buf)
                except ValueError:
                    pass
                if buf.getvalue():
                    ctx.fail('property', 'lp.dump', 'output before refusal', f'{buf.getvalue()[:80]!r} written before the exception', detail=dict(model=wire))
            if all(isinstance(v, (str, int)) for v, *_ in g.vars) and all(isinstance(c[0], (str, int)) for c in g.cons) and '\n' not in wire and ';' not in wire:
                lines.append('dump ' + wire)
                expect.append('err ' + {'spin': 'spin', 'soft': 'soft', 'varlabel': 'label', 'conlabel': 'label'}[bad] if raised is not None else 'ok ' + text.encode().hex())
                meta.append(('lp.dump refusal', wire))
            continue
        ctx.tick('wrapmode' if wrapmode else 'model')
        nterms = len(g.obj[0]) + len(g.obj[1]) + sum(len(e[0]) + len(e[1]) for _, e, _, _ in g.cons)
        if raised is not None:
            ctx.fail('property', 'lp.dumps', 'expressible model refused', f'{type(raised).__name__}: {raised}', repro=PRE + src + 'lp.dumps(cqm)\n')
            continue
        ctx.case(text, nontrivial=nterms > 0, sample=dict(text=text[:400]) if mi % 97 == 3 else None)
        if any(len(ln) > 79 for ln in text.split('\n')):
            ctx.tick('has line > 79 chars')
        ctx.tick(f"wrapped lines: {min(text.count(chr(10) + ' ' + '+'), 9) + min(text.count(chr(10) + ' ' + '-'), 9) > 0}")
        lines.append('dump ' + wire); expect.append('ok ' + text.encode().hex()); meta.append(('lp.dump', src))
        # ---- read back with the real parser
        try:
            back_canon = LOADER.loads_or_raise(text)
        except Exception as e:  # noqa
            ctx.fail('property', 'lp.loads', 'written file does not load', f'{type(e).__name__}: {e}', repro=PRE + src + 'lp.loads(lp.dumps(cqm))\n',
                     detail=dict(text=text[:600]))
            continue
        # (iii) property predicate against the generation data
        info = {v: (k, lb, ub) for v, k, lb, ub in g.vars}
        bvars, bobj, bcons = back_canon
        what = None
        if {v for v, *_ in bvars} != set(info) or len(bvars) != len(info):
            what = ('variables', f'variables {sorted(v for v, *_ in bvars)} != {sorted(info)}', 'assert set(back.variables) == set(cqm.variables)')
        else:
            for v, k, lb, ub in bvars:
                k0, lb0, ub0 = info[v]
                if k != k0 or (k != 'B' and (lb, ub) != (lb0, ub0)):
                    what = ('vartype' if k != k0 else {'I': 'INTEGER', 'R': 'REAL'}[k0] + ' bounds' + (' (fractional)' if lb0.denominator != 1 or ub0.denominator != 1 else ''),
                            f'{v!r}: written ({k0},{lb0},{ub0}) read ({k},{lb},{ub})',
                            f'assert (back.vartype({v!r}), back.lower_bound({v!r}), back.upper_bound({v!r})) == (cqm.vartype({v!r}), cqm.lower_bound({v!r}), cqm.upper_bound({v!r}))')
                    break
        if what is None and bobj != merged(list(g.obj[0].items()), [(u, v, b) for (u, v), b in g.obj[1].items()], g.obj[2]):
            what = ('objective', f'objective read back as {bobj}', 'assert coeffs(back.objective) == coeffs(cqm.objective), (coeffs(back.objective), coeffs(cqm.objective))')
        if what is None:
            if [c[0] for c in bcons] != [c[0] for c in g.cons]:
                what = ('constraint labels', f'{[c[0] for c in bcons]} != {[c[0] for c in g.cons]}', 'assert list(back.constraints) == list(cqm.constraints)')
            else:
                for (lbl, sense, rhs, lhs), (_, e, sense0, rhs0) in zip(bcons, g.cons):
                    want = merged(list(e[0].items()), [(u, v, b) for (u, v), b in e[1].items()], e[2])
                    act = dict(lhs); act[()] = act.get((), 0) - rhs
                    wact = dict(want); wact[()] = wact.get((), 0) - rhs0
                    act = {k: b for k, b in act.items() if b}; wact = {k: b for k, b in wact.items() if b}
                    if sense != sense0:
                        what = ('sense', f'{lbl!r}: {sense0} read back as {sense}', f'assert back.constraints[{lbl!r}].sense == cqm.constraints[{lbl!r}].sense')
                    elif act != wact:
                        what = ('constraint activity', f'{lbl!r}: lhs-rhs {wact} read back as {act}',
                                f'a, b = back.constraints[{lbl!r}], cqm.constraints[{lbl!r}]\nca, cb = coeffs(a.lhs), coeffs(b.lhs)\n'
                                'ca[()] = ca.get((), 0) - F(float(a.rhs)); cb[()] = cb.get((), 0) - F(float(b.rhs))\n'
                                'assert {k: v for k, v in ca.items() if v} == {k: v for k, v in cb.items() if v}, (ca, cb)')
                    elif e[2] == 0 and (rhs != rhs0 or lhs != want):
                        what = ('rhs', f'{lbl!r}: rhs {rhs0} read back as {rhs}', f'assert back.constraints[{lbl!r}].rhs == cqm.constraints[{lbl!r}].rhs')
                    if what:
                        break
        if what is not None:
            ic, msg, assertion = what
            ctx.fail('property', 'lp.loads(lp.dumps(cqm))', ic, msg, repro=PRE + src + 'back = lp.loads(lp.dumps(cqm))\n' + assertion + '\n', detail=dict(text=text[:600]))
            continue
        # (i') every public entry point (`observe_at`: dumps / loads / dump / load) on the same model: str / bytes text, path as
        # str / bytes, binary and text file objects (at position 0: read by name), a nameless BytesIO, a binary file object
        # positioned after a comment header (`tell() != 0`: copied from the current position), a file written by `lp.dump`
        if mi % 25 == 7:
            entry_points(ctx, r, cqm, text, back_canon, src)
        # (ii) real parser vs specification-level reader on the same text
        lines.append('load ' + text.encode().hex())
        expect.append(('REAL', (bvars, bobj, bcons)))
        meta.append(('lp.loads', text))
        # (ii') the same on a near miss of the text: the real parser and the specification reader must read the same model
        if r.random() < .35:
            mt, mkind = mutate_text(r, text)
            if mt is not None and mt != text:
                try:
                    mb = LOADER.loads_or_raise(mt)
                except Exception:  # noqa
                    mb = None
                ctx.tick('near miss: ' + mkind + ('' if mb is not None else ' (refused by the real parser)'))
                ctx.case(('near miss', mt), nontrivial=True)
                if mb is not None:
                    lines.append('load ' + mt.encode().hex()); expect.append(('REAL', mb)); meta.append((f'lp.loads (near miss: {mkind})', mt))
    # two-word keywords ("subject to", "such that", any case): the reader joins two names that follow each other, which
    # happens in the Binary / General sections.  Every layout must be refused or read back as written.
    for w1, w2 in (('subject', 'to'), ('such', 'that')):
        for f1, f2 in ((w1, w2), (w1.capitalize(), w2.capitalize()), (w1.upper(), w2), (w1, w2.upper())):
            for kind in 'BI':
                for layout in ('adjacent', 'other kind between', 'reversed', 'first alone', 'second alone', 'after another'):
                    other = 'R' if r.random() < .5 else ('I' if kind == 'B' else 'B')
                    names = {'adjacent': [(f1, kind), (f2, kind)], 'other kind between': [(f1, kind), ('mid', other), (f2, kind)],
                             'reversed': [(f2, kind), (f1, kind)], 'first alone': [(f1, kind), ('zz', kind)],
                             'second alone': [('zz', kind), (f2, kind)], 'after another': [('zz', kind), (f1, kind), (f2, kind)]}[layout]
                    gd = Gen.__new__(Gen)
                    gd.vars = [(nm, k, F(0), F(1)) if k == 'B' else (nm, k, F(-2), F(5, 2) if k == 'R' else F(5)) for nm, k in names]
                    gd.obj = ({nm: dy(r, nz=True) for nm, _ in names}, {}, dy(r))
                    gd.cons = [('c0', ({nm: F(1) for nm, _ in names}, {}, F(0)), 'le', F(3))]
                    cqm = gd.build()
                    dsrc = gd.src()
                    ctx.case(('pairword', f1, f2, kind, layout), nontrivial=True); ctx.tick('two-word keyword labels: ' + layout)
                    try:
                        text = lp.dumps(cqm)
                    except ValueError:
                        ctx.tick('two-word keyword labels: refused')
                        continue
                    lines.append('dump ' + cqm_wire(cqm)); expect.append('ok ' + text.encode().hex()); meta.append(('lp.dump', dsrc))
                    try:
                        bvars, bobj, bcons = LOADER.loads_or_raise(text)
                        okp = (bvars == [(nm, k, lb, ub) for nm, k, lb, ub in gd.vars] and
                               bobj == merged(list(gd.obj[0].items()), [], gd.obj[2]) and
                               [(c[0], c[1], c[2], c[3]) for c in bcons] == [('c0', 'le', F(3), merged([(nm, F(1)) for nm, _ in names], [], F(0)))])
                        msg = f'variables read back as {bvars}'
                    except Exception as e:  # noqa
                        okp, msg = False, f'{type(e).__name__}: {e}'
                    if not okp:
                        ctx.fail('property', 'lp.loads(lp.dumps(cqm))', 'labels forming a two-word LP keyword (subject to / such that)',
                                 f'{[nm for nm, _ in names]} ({kind}, {layout}): written, but {msg}',
                                 repro=PRE + dsrc + 'try:\n    text = lp.dumps(cqm)\nexcept ValueError:\n    text = None      # refused: fine\n'
                                 'if text is not None:\n    back = lp.loads(text)\n'
                                 '    assert [(v, back.vartype(v), back.lower_bound(v), back.upper_bound(v)) for v in back.variables] == '
                                 '[(v, cqm.vartype(v), cqm.lower_bound(v), cqm.upper_bound(v)) for v in cqm.variables]\n'
                                 '    assert coeffs(back.objective) == coeffs(cqm.objective) and list(back.constraints) == list(cqm.constraints)\n',
                                 detail=dict(text=text[:400]))
                    elif 'Subject' not in (f1, f2):
                        lines.append('load ' + text.encode().hex()); expect.append(('REAL', (bvars, bobj, bcons))); meta.append(('lp.loads', text))
    # reserved words: refused, or written and read back unchanged
    for w in sorted(RESERVED) + [';x', ';', 'infx', 'nanx', 'in', 'na', 'stx', 'free1']:
        for form in sorted({w, w.upper(), w.capitalize()}):
            if form[0] in BADFIRST:
                continue
            for role in ('variable', 'constraint'):
                cqm = dimod.ConstrainedQuadraticModel()
                x = dimod.Integer(form if role == 'variable' else 'x', lower_bound=-3, upper_bound=5)
                y = dimod.Binary('y')
                cqm.set_objective(2 * x + y)
                cqm.add_constraint(x + y <= 3, label=form if role == 'constraint' else 'c0')
                ctx.case(('reserved', form, role)); ctx.tick('reserved word as ' + role)
                code = PRE + (f"x = dimod.Integer({form if role == 'variable' else 'x'!r}, lower_bound=-3, upper_bound=5); y = dimod.Binary('y')\n"
                              f"cqm = dimod.ConstrainedQuadraticModel(); cqm.set_objective(2 * x + y); cqm.add_constraint(x + y <= 3, label={form if role == 'constraint' else 'c0'!r})\n"
                              "try:\n    text = lp.dumps(cqm)\nexcept ValueError:\n    pass\nelse:\n    back = lp.loads(text)\n"
                              "    assert set(back.variables) == set(cqm.variables) and list(back.constraints) == list(cqm.constraints)\n")
                try:
                    text = lp.dumps(cqm)
                except ValueError:
                    continue
                try:
                    bvs, _, bcs = LOADER.loads_or_raise(text)
                    same = {v for v, *_ in bvs} == set(cqm.variables) and [c[0] for c in bcs] == list(cqm.constraints)
                except Exception:  # noqa
                    same = False
                if not same:
                    ctx.fail('property', 'lp.dumps', UNREADABLE,
                             f'{form!r} is accepted by the writer but the file cannot be read back', repro=code)
    # _WidthLimitedFile on arbitrary write sequences, break at every column
    for k in range(ctx.scale(1000, 20000)):
        writes = []
        for _ in range(r.randint(1, 12)):
            n = r.choice([1, 2, 3, 5, 8, 13, 30, 60, 78, 79, 80, 81, 120])
            w = ''.join(r.choice('ab+ ') for _ in range(n))
            if r.random() < .25:
                pos = r.randrange(len(w) + 1)
                w = w[:pos] + '\n' + w[pos:]
            writes.append(w)
        buf = io.StringIO()
        f = lp._WidthLimitedFile(buf)
        for w in writes:
            f.write(w)
        lines.append('wrap ' + ','.join(w.encode().hex() for w in writes)); expect.append(buf.getvalue().encode().hex()); meta.append(('lp._WidthLimitedFile', repr(writes)))
        ctx.case(('wrap', tuple(writes))); ctx.tick('direct:_WidthLimitedFile')
        # predicate: removing the inserted breaks gives back the writes
        out, reach = buf.getvalue(), {0}
        for w in writes:           # all ways of reading `out` as the writes with optional breaks in front
            reach = ({q + len(w) for q in reach if out.startswith(w, q)} |
                     {q + 2 + len(w) for q in reach if out.startswith('\n ' + w, q)})
        okp, pos = len(out) in reach, len(out)
        if not okp or pos != len(out):
            ctx.fail('property', 'lp._WidthLimitedFile', 'write split', 'output is not the writes with "\\n " inserted between some of them',
                     repro=PRE + f'import io\nbuf = io.StringIO(); f = lp._WidthLimitedFile(buf)\nfor w in {writes!r}: f.write(w)\nprint(repr(buf.getvalue())); assert False\n')
    # ---- the Lean model of the C++ reader (`lpread`): on every text the specification reader was given (writer output and its
    # near misses) it must read what the real parser read
    for i in range(len(lines)):
        if lines[i].startswith('load ') and isinstance(expect[i], tuple):
            lines.append('lpread ' + lines[i][5:]); expect.append(expect[i]); meta.append((meta[i][0] + ' [C++ reader model]', meta[i][1]))
    # ---- hand-style LP texts and their near misses: reference reading (generation data) vs real parser vs reader model
    from harness.props import c12_hand as H
    htexts, hexp, hkind = [], [], []
    for k in range(ctx.scale(700, 12000)):
        h = H.Hand(r)
        if not h.bounds_consistent():
            ctx.tick('hand-style: skipped (lower bound above upper bound: debug assertion of the C++ CQM)')
            continue
        t = h.render()
        htexts.append(t); hexp.append(h.expected()); hkind.append('hand-style')
        ctx.case(('hand', t), nontrivial=True, sample=dict(text=t[:500]) if k % 211 == 5 else None)
        for _ in range(r.choice([1, 2])):
            mt, mk = H.mutate(r, t)
            if mt != t:
                htexts.append(mt); hexp.append(None); hkind.append('hand-style near miss: ' + mk)
                ctx.case(('hand near miss', mt), nontrivial=True)
    # the list of `cpp_reader_refuses_malformed` (read from the Lean source): the real parser must refuse every one of them
    import os, re
    lean_src = open(os.path.join(os.path.dirname(os.path.dirname(os.path.dirname(os.path.abspath(__file__)))), 'lean', 'DimodProofs', 'LpReader.lean')).read()
    blk = lean_src[lean_src.index('def malformedTexts'):]
    blk = blk[:blk.index(']\n') + 1]
    malformed = [t.encode().decode('unicode_escape') for t in re.findall(r'^\s*\[?"((?:[^"\\]|\\.)*)"', blk, re.M)]
    if len(malformed) < 20:
        ctx.fail('correspondence', 'lean/DimodProofs/LpReader.lean', 'malformedTexts not found', f'{len(malformed)} texts extracted')
    for t in malformed:
        htexts.append(t); hexp.append('REFUSE'); hkind.append('malformed text of the refusal theorem')
        ctx.case(('malformed', t), nontrivial=True)
    hreal = H.real_batch(htexts)
    for t, e, kd, real in zip(htexts, hexp, hkind, hreal):
        ctx.tick(kd + {'ok': '', 'exc': ' (refused)', 'nonfinite': ' (non-finite number read)', 'abort': ' (debug assertion)'}[real[0]])
        if e == 'REFUSE':
            if real[0] != 'exc':
                ctx.fail('correspondence', 'lp.loads (malformed text)', 'a text of cpp_reader_refuses_malformed is not refused by the real parser',
                         f'lp.loads gives {real}', detail=dict(text=t[:500]))
        elif e is not None and (real[0] != 'ok' or real[1] != e):
            ctx.fail('correspondence', 'lp.loads (hand-style text)', 'real parser vs reference reading of the generation data',
                     f'lp.loads gives {real} ; the text denotes {e}', detail=dict(text=t[:1500]))
        lines.append('lpread ' + t.encode().hex()); expect.append(('HAND', real)); meta.append(('lp.loads (' + kd + ') vs C++ reader model', t))
    LOADER.close()
    got = run_driver('lpdriver', lines)
    ctx.corr_lines += len(lines)
    nbad = 0
    for i, ln in enumerate(lines):
        gl = got[i] if i < len(got) else 'MISSING'
        exp = expect[i]
        if isinstance(exp, tuple) and exp[0] == 'HAND':
            real = exp[1]
            if gl == 'err unmodelled':
                ctx.tick('reader model: unmodelled text (nan / hex float / control character / non-finite coefficient)')
                ok = True
            elif gl == 'err assertion':
                ok = real[0] in ('abort', 'ok')          # release builds store the bounds unchecked
            elif gl == 'err refused':
                ok = real[0] == 'exc'
            else:
                ok = gl.startswith('ok ') and real[0] == 'ok' and parse_model_cqm(gl[3:]) == real[1]
            if not ok:
                ctx.fail('correspondence', meta[i][0], 'real parser vs C++ reader model',
                         f'lp.loads gives {real} ; reader model gives {gl[:400]}', detail=dict(text=meta[i][1][:1500]))
                nbad += 1
        elif isinstance(exp, tuple):
            ok = gl.startswith('ok ') and parse_model_cqm(gl[3:]) == exp[1]
            if not ok:
                ctx.fail('correspondence', meta[i][0], 'real parser vs specification reader',
                         f'lp.loads gives {exp[1]} ; model reader gives {gl[:400]}', detail=dict(text=meta[i][1][:1500]))
                nbad += 1
        elif gl != exp:
            def show(h):
                try:
                    return bytes.fromhex(h.split()[-1]).decode()[:700]
                except Exception:  # noqa
                    return h[:300]
            ctx.fail('correspondence', meta[i][0], 'model vs implementation', f'`{ln[:200]}`: impl {show(exp)!r} model {show(gl)!r}', detail=dict(case=str(meta[i][1])[:1500]))
            nbad += 1
        if nbad >= 6:
            break
