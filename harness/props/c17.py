"""C17 — problem generators encode exactly the relation they document.

(i)  correspondence: coefficient maps / CQM structure returned by the real generators vs the Lean
     models `DimodModel/Generators.lean` (gate tables come from `Generated/Gates.lean`, regenerated from
     the source by `harness/translators/c17_gates.py`) through `gendriver`;
(ii) property predicate on the real return values, from the documented relation, in exact `Fraction`s:
     gates / circuits: energy minimised over the documented auxiliary is 0 exactly on the truth table and
     >= strength elsewhere (BINARY as returned, SPIN through `change_vartype`); `combinations`:
     energy == strength*(sum x - k)^2; independent-set family: strength * violated edges - selected weight;
     knapsack / multi_knapsack / bin_packing: `check_feasible` and the objective energy vs the stated
     condition at *every* assignment; random generators: declared ranges, declared graph, seed
     reproducibility (validated over seeds, not proved).
"""
import itertools
import random
import warnings
from fractions import Fraction as F

import numpy as np

import dimod
from dimod import generators as G
from harness.common import lab, rat, run_driver
from harness.props.c16 import canon_bqm, coef, energy, fr, pairkey  # same canonical forms

LABELS = [0, 1, 2, 3, 4, 7, 'a', 'b', 'c', 'x', 'out', ('a', 1), ('t', (1, 2)), 'aux']
HDR = ('import warnings; warnings.simplefilter("ignore")\nimport itertools, numpy as np, dimod\nfrom fractions import Fraction as F\n'
       'from dimod import generators as G\n'
       'def coef(b): return ({v: F(float(b.get_linear(v))) for v in b.variables}, {(u, v): F(float(q)) for u, v, q in b.iter_quadratic()}, F(float(b.offset)))\n'
       'def en(c, x): return c[2] + sum(a*x[v] for v, a in c[0].items()) + sum(q*x[u]*x[v] for (u, v), q in c[1].items())\n')

GATES = {
    'and': (G.and_gate, 3, 0, lambda v: v[2] == (v[0] & v[1])),
    'or': (G.or_gate, 3, 0, lambda v: v[2] == (v[0] | v[1])),
    'xor': (G.xor_gate, 3, 1, lambda v: v[2] == (v[0] ^ v[1])),
    'halfadder': (G.halfadder_gate, 4, 0, lambda v: v[0] + v[1] == v[2] + 2 * v[3]),
    'fulladder': (G.fulladder_gate, 5, 0, lambda v: v[0] + v[1] + v[2] == v[3] + 2 * v[4]),
}
REL_SRC = {
    'and': 'v[2] == (v[0] & v[1])', 'or': 'v[2] == (v[0] | v[1])', 'xor': 'v[2] == (v[0] ^ v[1])',
    'halfadder': 'v[0] + v[1] == v[2] + 2*v[3]', 'fulladder': 'v[0] + v[1] + v[2] == v[3] + 2*v[4]',
}


def gate_cases(ctx, r, lines, checks):
    reps = ctx.scale(14, 200)
    for name, (f, nvis, naux, rel) in GATES.items():
        for rep in range(reps):
            n = nvis + naux
            labels = r.sample(LABELS, n) if rep else list(range(n))
            strength = F(1) if rep == 0 else r.choice([F(1), F(2), F(1, 2), F(3, 4), F(5), F(7, 8), F(1, 8)])
            mal = r.random() < .12 and rep > 0
            if mal:
                if r.random() < .5:
                    strength = r.choice([F(0), F(-1), F(-1, 2)])
                else:
                    labels[r.randrange(1, n)] = labels[0]
            src = (HDR + f'labels, strength = {labels!r}, {float(strength)!r}\nb = G.{f.__name__}(*labels, strength=strength)\n'
                   f'rel = lambda v: {REL_SRC[name]}\nnvis, naux = {nvis}, {naux}\n'
                   'for vt in ("BINARY", "SPIN"):\n'
                   '    c = coef(b if vt == "BINARY" else b.change_vartype("SPIN", inplace=False))\n'
                   '    for v in itertools.product((0, 1), repeat=nvis):\n'
                   '        m = min(en(c, dict(zip(labels, [t if vt == "BINARY" else 2*t-1 for t in v + a]))) for a in itertools.product((0, 1), repeat=naux))\n'
                   '        assert (m == 0) if rel(v) else (m >= F(strength)), (vt, v, m)\n')
            try:
                b = f(*labels, strength=float(strength))
            except ValueError:
                b = None
            ctx.tick(f'gate:{name}' + (':raises' if b is None else ''))
            ctx.case(('gate', name, tuple(map(repr, labels)), strength), nontrivial=b is not None,
                     sample=dict(gate=name, labels=list(map(repr, labels)), strength=str(strength)) if rep == 1 else None)
            site = f'generators.{f.__name__}'
            if (b is None) != mal:
                ctx.fail('property', site, 'malformed arguments' if mal else 'valid arguments',
                         f'labels {labels!r} strength {strength}: ' + ('refused' if b is None else 'accepted'), repro=src + ('assert False\n' if mal else ''))
                continue
            bad = False
            if b is not None:
                if b.vartype.name != 'BINARY' or set(b.variables) != set(labels):
                    bad = True
                    ctx.fail('property', site, 'variables', f'variables {list(b.variables)!r} for labels {labels!r}', repro=src)
                for vt in ('BINARY', 'SPIN'):
                    c = coef(b if vt == 'BINARY' else b.change_vartype('SPIN', inplace=False))
                    for v in itertools.product((0, 1), repeat=nvis):
                        m = min(energy(c, dict(zip(labels, [t if vt == 'BINARY' else 2 * t - 1 for t in v + a])))
                                for a in itertools.product((0, 1), repeat=naux))
                        if (m != 0) if rel(v) else (m < strength):
                            bad = True
                            ctx.fail('property', site, f'{vt} truth table', f'labels {labels!r} strength {strength}: row {v} (valid={rel(v)}) has minimum energy {m}', repro=src)
                            break
                    if bad:
                        break
            lines.append(f"gate {name} {rat(strength)} {','.join(lab(x) for x in labels)}")
            checks.append((site + ' vs Gen.gate', 'table', 'err' if b is None else 'ok ' + canon_bqm(b), src, bad))


# ------------------------------------------------------------------------------------ multiplication circuit

def mult_min_energies(b, order, k):
    """minimum of the energy over the variables order[k:], for every assignment of order[:k]
    (exact: integer coefficients); evaluated in chunks of 2^22 assignments"""
    n = len(order)
    idx = {v: i for i, v in enumerate(order)}
    lin = [(idx[v], int(b.get_linear(v))) for v in b.variables if b.get_linear(v)]
    assert all(float(b.get_linear(v)).is_integer() for v in b.variables)
    quad = [(idx[u], idx[v], int(q)) for u, v, q in b.iter_quadratic()]
    assert all(float(q).is_integer() for _, _, q in b.iter_quadratic())
    N = 1 << n
    chunk = min(N, 1 << 22)
    assert chunk >= (1 << k)
    emin = None
    for start in range(0, N, chunk):
        ar = np.arange(start, start + chunk, dtype=np.int64)
        bits = {}

        def bit(i):
            if i not in bits:
                bits[i] = ((ar >> i) & 1).astype(np.int32)
            return bits[i]
        e = np.full(chunk, int(b.offset), dtype=np.int32)
        for i, a in lin:
            e += a * bit(i)
        for i, j, q in quad:
            e += q * (bit(i) & bit(j))
        m = e.reshape(-1, 1 << k).min(axis=0)
        emin = m if emin is None else np.minimum(emin, m)
    low = np.arange(1 << k, dtype=np.int64)
    return emin, [((low >> i) & 1) for i in range(k)], idx, N


def mult_correct_products(b, n, m):
    """for every operand pair (a, b): minimum energy over the internal variables with p fixed to a*b (exact, integer
    coefficients; 2^(#internal) assignments per pair).  Returns the list of (a, b, min energy) whose correct product is not a
    ground state, or None when there are too many internal variables."""
    vs = list(b.variables)
    fixed = [f'a{i}' for i in range(n)] + [f'b{i}' for i in range(m)] + [f'p{i}' for i in range(n + m)]
    if any(v not in vs for v in fixed):
        return None
    internal = [v for v in vs if v not in fixed]
    k = len(internal)
    if k > 20:
        return None
    idx = {v: i for i, v in enumerate(internal)}
    ar = np.arange(1 << k, dtype=np.int64)
    ibits = [((ar >> i) & 1).astype(np.int32) for i in range(k)]
    lin = {v: int(b.get_linear(v)) for v in vs}
    quad = [(u, v, int(q)) for u, v, q in b.iter_quadratic()]
    wrong = []
    for a in range(1 << n):
        for bb in range(1 << m):
            p = a * bb
            val = {f'a{i}': (a >> i) & 1 for i in range(n)}
            val.update({f'b{i}': (bb >> i) & 1 for i in range(m)})
            val.update({f'p{i}': (p >> i) & 1 for i in range(n + m)})
            e = np.full(1 << k, int(b.offset), dtype=np.int32)
            for v, c in lin.items():
                if c:
                    e += c * (val[v] if v in val else ibits[idx[v]])
            for u, v, q in quad:
                xu = val[u] if u in val else ibits[idx[u]]
                xv = val[v] if v in val else ibits[idx[v]]
                e += q * (xu * xv)
            mn = int(e.min())
            if mn != 0:
                wrong.append((a, bb, mn))
    return wrong


def mult_cases(ctx, r, lines, checks):
    sizes = [(1, 1), (2, 1), (1, 2), (3, 1), (1, 3), (2, 2), (2, 3), (3, 2), (2, None), (3, 3)]
    if not ctx.quick:
        sizes += [(4, 2), (2, 4), (3, None), (4, 1)]
    sizes += [(0, 1), (2, -1), (-1, None)]
    for n, m in sizes:
        src = (HDR + f'n, m = {n}, {m}\nb = G.multiplication_circuit(n, m)\nm = m or n\n'
               'vs = list(b.variables); c = coef(b)\n'
               'assert all(f"p{i}" in vs for i in range(n + m)), "product bits missing: " + str([f"p{i}" for i in range(n+m) if f"p{i}" not in vs])\n'
               'best = {}\n'
               'for t in itertools.product((0, 1), repeat=len(vs)):\n'
               '    x = dict(zip(vs, t)); e = en(c, x)\n'
               '    key = (sum(x[f"a{i}"] << i for i in range(n)), sum(x[f"b{i}"] << i for i in range(m)), sum(x[f"p{i}"] << i for i in range(n + m)))\n'
               '    best[key] = min(best.get(key, e), e)\n'
               'for (a, bb, p), e in best.items():\n'
               '    assert (e == 0) if a * bb == p else (e >= 1), (a, bb, p, e)\n')
        try:
            b = G.multiplication_circuit(n, m)
        except ValueError:
            b = None
        ctx.tick('mult' + (':raises' if b is None else ''))
        ctx.case(('mult', n, m), nontrivial=b is not None, sample=dict(n=n, m=m))
        site = 'generators.multiplication_circuit'
        should_raise = n < 1 or (m is not None and m != 0 and m < 1)
        if (b is None) != should_raise:
            ctx.fail('property', site, 'argument validation', f'({n}, {m}): ' + ('refused' if b is None else 'accepted'), repro=src)
            continue
        if b is None:
            if n >= 0 and (m is None or m >= 0):
                lines.append(f'mult {n} {m or 0}'); checks.append((site + ' vs Gen.mulCircuit', 'refusal', 'err', src, False))
            continue
        mm = m or n
        cls = 'one-bit argument' if min(n, mm) == 1 else f'{n}x{mm} bits' if ctx.quick else 'two or more bits each'
        vs = list(b.variables)
        pv = [f'p{i}' for i in range(n + mm)]
        bad = False
        missing = [p for p in pv if p not in vs]
        if missing:
            bad = True
            ctx.fail('property', site, cls, f'multiplication_circuit({n}, {m}): product variables {missing} do not exist (variables: {vs})', repro=src)
        elif len(vs) > ctx.scale(22, 27):
            # too many assignments for the quick tier: per operand pair, minimise over the internal wires with p = a*b
            wrong = mult_correct_products(b, n, mm)
            if wrong:
                a_, b_, mn = wrong[0]; bad = True
                ctx.fail('property', site, cls, f'multiplication_circuit({n}, {m}): a={a_} b={b_}: with p = a*b = {a_ * b_} the minimum energy over the '
                         f'internal variables is {mn}, not 0 ({len(wrong)} of {1 << (n + mm)} operand pairs)',
                         repro=HDR + f'b = G.multiplication_circuit({n}, {m}); a, bb = {a_}, {b_}; n, m = {n}, {mm}\n'
                         'fix = {f"a{i}": (a >> i) & 1 for i in range(n)}; fix.update({f"b{i}": (bb >> i) & 1 for i in range(m)})\n'
                         'fix.update({f"p{i}": ((a * bb) >> i) & 1 for i in range(n + m)})\n'
                         'b.fix_variables(fix)\nassert dimod.ExactSolver().sample(b).first.energy == 0\n')
            ctx.tick('mult:operand-pairs', 1 << (n + mm))
        elif len(vs) <= 27:
            order = [f'a{i}' for i in range(n)] + [f'b{i}' for i in range(mm)] + pv + [v for v in vs if v[0] not in 'abp' or v.startswith('and')]
            order = list(dict.fromkeys(order))
            assert set(order) == set(vs), (order, vs)
            k = n + mm + len(pv)
            emin, bits, idx, N = mult_min_energies(b, order, k)
            a = sum(bits[idx[f'a{i}']] << i for i in range(n)); bb = sum(bits[idx[f'b{i}']] << i for i in range(mm))
            p = sum(bits[idx[f'p{i}']] << i for i in range(n + mm))
            ok_rel = (a * bb == p)
            wrong = np.nonzero(np.where(ok_rel, emin != 0, emin < 1))[0]
            if len(wrong):
                w = int(wrong[0]); bad = True
                ctx.fail('property', site, cls, f'multiplication_circuit({n}, {m}): a={int(a[w])} b={int(bb[w])} p={int(p[w])}: minimum energy over internal wires is {int(emin[w])}', repro=src)
            ctx.tick('mult:assignments', N)
        lines.append(f'mult {n} {m or 0}')
        checks.append((site + ' vs Gen.mulCircuit', cls, 'ok ' + canon_bqm(b), src, bad))


# ------------------------------------------------------------------------------------ combinations

def comb_cases(ctx, r, lines, checks):
    for _ in range(ctx.scale(90, 1500)):
        n = r.randint(0, ctx.scale(6, 9))
        as_int = r.random() < .4
        labels = list(range(n)) if as_int else r.sample(LABELS, min(n, len(LABELS)))
        n = len(labels)
        k = r.randint(-1, n + 1)
        strength = r.choice([F(1), F(1), F(2), F(1, 2), F(3, 4), F(5)])
        vt = r.choice(['BINARY', 'SPIN'])
        arg = n if as_int else labels
        src = (HDR + f'arg, k, strength, vt = {arg!r}, {k}, {float(strength)!r}, {vt!r}\nb = G.combinations(arg, k, strength=strength, vartype=vt)\n'
               'c = coef(b); vs = list(b.variables)\n'
               'for t in itertools.product((0, 1), repeat=len(vs)):\n'
               '    e = en(c, dict(zip(vs, [x if vt == "BINARY" else 2*x-1 for x in t])))\n'
               '    assert e == F(strength) * (sum(t) - k)**2, (t, e)\n')
        try:
            b = G.combinations(arg, k, strength=float(strength), vartype=vt)
        except ValueError:
            b = None
        ctx.tick(f'comb:{vt}' + (':raises' if b is None else ''))
        ctx.case(('comb', tuple(map(repr, labels)), k, strength, vt), nontrivial=b is not None and n > 0,
                 sample=dict(labels=list(map(repr, labels)), k=k, strength=str(strength), vartype=vt))
        site = 'generators.combinations'
        if (b is None) != (k < 0 or k > n):
            ctx.fail('property', site, 'k range', f'n={n} k={k}: ' + ('refused' if b is None else 'accepted'), repro=src)
            continue
        bad = False
        if b is not None:
            c = coef(b)
            if b.vartype.name != vt or list(b.variables) != labels:
                bad = True
                ctx.fail('property', site, 'variables', f'{list(b.variables)!r} / {b.vartype.name} for {labels!r} / {vt}', repro=src)
            for t in itertools.product((0, 1), repeat=n):
                e = energy(c, dict(zip(labels, [x if vt == 'BINARY' else 2 * x - 1 for x in t])))
                if e != strength * (sum(t) - k) ** 2:
                    bad = True
                    ctx.fail('property', site, vt, f'labels {labels!r} k={k} strength={strength}: at {t} energy {e}, expected {strength * (sum(t) - k) ** 2}', repro=src)
                    break
        lines.append(f"comb {k} {rat(strength)} {vt} {','.join(lab(x) for x in labels) or '-'}")
        checks.append((site + ' vs Gen.combinations', vt, 'err' if b is None else 'ok ' + canon_bqm(b), src, bad))


# ------------------------------------------------------------------------------------ independent sets

def graph_cases(ctx, r, lines, checks):
    for _ in range(ctx.scale(120, 2500)):
        n = r.randint(1, 6)
        nodes_all = r.sample(LABELS, n)
        edges = [(u, v) if r.random() < .5 else (v, u) for u, v in itertools.combinations(nodes_all, 2) if r.random() < .45]
        if edges and r.random() < .12:
            e = r.choice(edges); edges.append(e if r.random() < .5 else (e[1], e[0]))     # repeated edge
        selfloop = r.random() < .05
        if selfloop:
            edges.append((nodes_all[0], nodes_all[0]))
        which = r.choice(['iset', 'mis', 'mwis', 'mwis'])
        extra = [v for v in LABELS if v not in nodes_all][:2]
        if which == 'iset':
            nodes = None if r.random() < .4 else [v for v in nodes_all + extra if r.random() < .7]
            call = f'G.independent_set({edges!r}, {nodes!r})'
            f = lambda: G.independent_set(edges, nodes)   # noqa: E731
            strength, weights_given = F(1), {v: F(0) for v in (nodes or [])}
            default_w = F(0)
            line = f"iset {','.join(f'{lab(u)}~{lab(v)}' for u, v in edges) or '-'} {','.join(lab(v) for v in (nodes or [])) or '-'}"
        elif which == 'mis':
            nodes = None if r.random() < .4 else [v for v in nodes_all + extra if r.random() < .7]
            strength = r.choice([F(2), F(3), F(3, 2), F(5, 4)])
            call = f'G.maximum_independent_set({edges!r}, {nodes!r}, strength={float(strength)!r})'
            f = lambda: G.maximum_independent_set(edges, nodes, strength=float(strength))   # noqa: E731
            weights_given = {v: F(1) for v in (nodes or [])}
            default_w = F(1)
            line = (f"mwis {rat(strength)} 2 {','.join(f'{lab(u)}~{lab(v)}' for u, v in edges) or '-'} "
                    + ('none' if nodes is None else (','.join(f'{lab(v)}=1' for v in nodes) or '-')))
        else:
            # regimes of the node-weight list: none / empty / partial or full, with all weights < 1, = 1, > 1 or mixed;
            # nodes that are not in the edge list may be listed too
            regime = r.choice(['none', 'empty', 'lt1', 'lt1', 'eq1', 'gt1', 'mixed', 'mixed'])
            wfun = {'lt1': lambda: F(r.randint(1, 7), 8), 'eq1': lambda: F(1), 'gt1': lambda: F(r.randint(9, 24), 8),
                    'mixed': lambda: F(r.randint(-2, 24), 8)}.get(regime)
            cover = r.choice([.3, .6, 1.0])       # fraction of the graph's nodes that get a listed weight
            wn = (None if regime == 'none' else [] if regime == 'empty' else
                  [(v, wfun()) for v in nodes_all + extra if r.random() < (cover if v in nodes_all else .4)])
            if wn and r.random() < .2:
                wn.append((wn[0][0], F(r.randint(1, 16), 8)))     # a node listed twice: the last weight counts
            st = None if r.random() < .5 else r.choice([F(2), F(4), F(7, 2)])
            mult = r.choice([F(2), F(2), F(3), F(3, 2)])
            kw = (f', strength={float(st)!r}' if st is not None else '') + f', strength_multiplier={float(mult)!r}'
            call = f'G.maximum_weight_independent_set({edges!r}, {None if wn is None else [(v, float(w)) for v, w in wn]!r}{kw})'
            f = lambda: G.maximum_weight_independent_set(edges, None if wn is None else [(v, float(w)) for v, w in wn],   # noqa: E731
                                                         **({'strength': float(st)} if st is not None else {}), strength_multiplier=float(mult))
            weights_given = dict(wn or [])
            default_w = F(1)
            ev = list(dict.fromkeys(x for e in edges for x in e))
            allw = {v: F(1) for v in ev}; allw.update(weights_given)
            maxw = F(1) if wn is None else max(allw.values(), default=F(1))
            strength = st if st is not None else maxw * mult
            line = (f"mwis {'-' if st is None else rat(st)} {rat(mult)} {','.join(f'{lab(u)}~{lab(v)}' for u, v in edges) or '-'} "
                    + ('none' if wn is None else (','.join(f'{lab(v)}={rat(w)}' for v, w in wn) or '-')))
        src = (HDR + f'edges = {edges!r}\nb = {call}\nc = coef(b); vs = list(b.variables)\n'
               f'w = {dict((repr(k), str(v)) for k, v in weights_given.items())!r}; strength = F({str(strength)!r}); dw = F({str(default_w)!r})\n'
               'for t in itertools.product((0, 1), repeat=len(vs)):\n'
               '    x = dict(zip(vs, t))\n'
               '    want = strength * sum(x[u]*x[v] for u, v in edges) - sum(F(w.get(repr(v), dw)) * x[v] for v in vs)\n'
               '    assert en(c, x) == want, (x, en(c, x), want)\n')
        try:
            with warnings.catch_warnings():
                warnings.simplefilter('ignore')
                b = f()
        except ValueError:
            b = None
        ctx.tick(which + (':raises' if b is None else ''))
        ctx.case((which, line), nontrivial=b is not None and bool(edges), sample=dict(call=call))
        site = {'iset': 'generators.independent_set', 'mis': 'generators.maximum_independent_set', 'mwis': 'generators.maximum_weight_independent_set'}[which]
        if (b is None) != selfloop:
            ctx.fail('property', site, 'self-loop edge' if selfloop else 'simple graph', 'refused' if b is None else 'accepted', repro=src)
            continue
        bad = False
        if b is not None:
            c = coef(b)
            vs = list(b.variables)
            expect_vars = set(x for e in edges for x in e) | set(weights_given)
            if set(vs) != expect_vars or b.vartype.name != 'BINARY':
                bad = True
                ctx.fail('property', site, 'variables', f'{vs!r} but the graph has {sorted(map(repr, expect_vars))}', repro=src)
            elif len(vs) <= 10:
                es = []
                for t in itertools.product((0, 1), repeat=len(vs)):
                    x = dict(zip(vs, t))
                    want = strength * sum(x[u] * x[v] for u, v in edges) - sum(weights_given.get(v, default_w) * x[v] for v in vs)
                    es.append((energy(c, x), x))
                    if energy(c, x) != want:
                        bad = True
                        ctx.fail('property', site, 'energy', f'{call}: at {x!r} energy {energy(c, x)} but strength*violations - weight = {want} '
                                 f'(documented default strength = strength_multiplier x the largest weight, unlisted nodes weighing 1)', repro=src)
                        break
                # with the default strength (multiplier >= 2, weights >= 0, some weight > 0) and for maximum_independent_set with
                # strength > 1: every ground state is an independent set
                allw_ = [weights_given.get(v, default_w) for v in vs]
                if (not bad and which in ('mis', 'mwis') and allw_ and min(allw_) >= 0 and max(allw_) > 0
                        and ((which == 'mwis' and st is None and mult >= 2) or strength > max(allw_))):
                    emin = min(e for e, _ in es)
                    for e, x in es:
                        if e == emin and any(x[u] and x[v] for u, v in edges):
                            bad = True
                            ctx.fail('property', site, 'ground state is not an independent set',
                                     f'{call}: {x!r} has the minimum energy {emin} but selects both ends of an edge', repro=src +
                                     'emin = min(en(c, dict(zip(vs, t))) for t in itertools.product((0, 1), repeat=len(vs)))\n'
                                     'for t in itertools.product((0, 1), repeat=len(vs)):\n'
                                     '    x = dict(zip(vs, t))\n'
                                     '    assert not (en(c, x) == emin and any(x[u] and x[v] for u, v in edges)), x\n')
                            break
        lines.append(line)
        checks.append((site + ' vs Gen.independentSet/mwis', which, 'err' if b is None else 'ok ' + canon_bqm(b), src, bad))


# ------------------------------------------------------------------------------------ knapsack family

def canon_cqm(cqm):
    vs = ','.join(lab(v) for v in cqm.variables)
    o = cqm.objective

    def qm(e):
        lin = sorted(f'{lab(v)}={rat(e.get_linear(v))}' for v in e.variables)
        quad = sorted(f'{pairkey(lab(u), lab(v))}={rat(q)}' for u, v, q in e.iter_quadratic())
        return f"{','.join(lin)};{','.join(quad)};{rat(e.offset)}"
    cons = []
    for label, c in cqm.constraints.items():
        cons.append(f"{label.encode().hex()}:{c.sense.name.lower()}:{rat(c.rhs)}:{qm(c.lhs)}")
    return f"ok {vs}|{qm(o)}|" + '|'.join(cons)


def knap_cases(ctx, r, lines, checks):
    dyw = lambda: F(r.randint(0, 24), 4)   # noqa: E731
    for _ in range(ctx.scale(70, 1200)):
        which = r.choice(['knap', 'mknap', 'binp'])
        n = r.randint(0, 4) if which != 'binp' else r.randint(0, 3)
        values = [F(r.randint(-4, 40), 4) for _ in range(n)]
        weights = [dyw() for _ in range(n)]
        if which == 'binp' and r.random() < .8:
            weights = [w if w > 0 else F(1, 4) for w in weights]
        mismatch = which != 'binp' and r.random() < .06
        if mismatch:
            weights = weights + [F(1)]
        if which == 'knap':
            cap = F(r.randint(0, 40), 4)
            call = f'G.knapsack({[float(v) for v in values]!r}, {[float(w) for w in weights]!r}, {float(cap)!r})'
            f = lambda: G.knapsack([float(v) for v in values], [float(w) for w in weights], float(cap))   # noqa: E731
            line = f"knap {rat(cap)} {','.join(map(rat, values)) or '-'} {','.join(map(rat, weights)) or '-'}"
            pred = ('x = lambda i: s[f"x_{i}"]\n'
                    'feas = sum(F(w)*x(i) for i, w in enumerate(weights)) <= F(cap)\nobj = -sum(F(v)*x(i) for i, v in enumerate(values))\n')
            pre = f'values, weights, cap = {[float(v) for v in values]!r}, {[float(w) for w in weights]!r}, {float(cap)!r}\n'
        elif which == 'mknap':
            m = r.randint(0, 2) if n <= 3 else r.randint(0, 2)
            caps = [F(r.randint(0, 32), 4) for _ in range(m)]
            call = f'G.multi_knapsack({[float(v) for v in values]!r}, {[float(w) for w in weights]!r}, {[float(c) for c in caps]!r})'
            f = lambda: G.multi_knapsack([float(v) for v in values], [float(w) for w in weights], [float(c) for c in caps])   # noqa: E731
            line = f"mknap {','.join(map(rat, values)) or '-'} {','.join(map(rat, weights)) or '-'} {','.join(map(rat, caps)) or '-'}"
            pred = ('x = lambda i, j: s[f"x_{i}_{j}"]\nm = len(caps)\n'
                    'feas = all(sum(x(i, j) for j in range(m)) <= 1 for i in range(len(values))) and all(sum(F(w)*x(i, j) for i, w in enumerate(weights)) <= F(c) for j, c in enumerate(caps))\n'
                    'obj = -sum(F(v)*x(i, j) for i, v in enumerate(values) for j in range(m))\n')
            pre = f'values, weights, caps = {[float(v) for v in values]!r}, {[float(w) for w in weights]!r}, {[float(c) for c in caps]!r}\n'
        else:
            cap = F(r.randint(1, 40), 4)
            call = f'G.bin_packing({[float(w) for w in weights]!r}, {float(cap)!r})'
            f = lambda: G.bin_packing([float(w) for w in weights], float(cap))   # noqa: E731
            line = f"binp {rat(cap)} {','.join(map(rat, weights)) or '-'}"
            pred = ('x = lambda i, j: s[f"x_{i}_{j}"]\nn = len(weights)\n'
                    'feas = all(sum(x(i, j) for j in range(n)) == 1 for i in range(n)) and all(sum(F(w)*x(i, j) for i, w in enumerate(weights)) <= F(cap)*s[f"y_{j}"] for j in range(n))\n'
                    'obj = sum(s[f"y_{j}"] for j in range(n))\n')
            pre = f'weights, cap = {[float(w) for w in weights]!r}, {float(cap)!r}\n'
        src = (HDR + pre + f'cqm = {call}\nvs = list(cqm.variables)\n'
               'for t in itertools.product((0, 1), repeat=len(vs)):\n'
               '    s = dict(zip(vs, t))\n' + ''.join('    ' + ln + '\n' for ln in pred.splitlines()) +
               '    assert cqm.check_feasible(s) == feas, (s, feas)\n'
               '    assert F(float(cqm.objective.energy(s))) == obj, (s, obj)\n')
        try:
            with warnings.catch_warnings():
                warnings.simplefilter('ignore')
                cqm = f()
        except ValueError:
            cqm = None
        ctx.tick(which + (':raises' if cqm is None else ''))
        ctx.case((which, line), nontrivial=cqm is not None and n > 0, sample=dict(call=call))
        site = {'knap': 'generators.knapsack', 'mknap': 'generators.multi_knapsack', 'binp': 'generators.bin_packing'}[which]
        if (cqm is None) != mismatch:
            ctx.fail('property', site, 'shape mismatch' if mismatch else 'valid arguments', 'refused' if cqm is None else 'accepted', repro=src)
            continue
        bad = False
        if cqm is not None:
            vs = list(cqm.variables)
            if len(vs) <= 12:
                g = {}
                for t in itertools.product((0, 1), repeat=len(vs)):
                    s = dict(zip(vs, t))
                    env = dict(s=s, F=F, values=values, weights=weights, cap=locals().get('cap'), caps=locals().get('caps'))
                    exec(pred, env)
                    if not vs and which != 'knap':
                        pass
                    got_f = cqm.check_feasible(s) if vs else cqm.check_feasible({})
                    got_o = fr(cqm.objective.energy(s)) if vs else None
                    if got_f != env['feas'] or (got_o is not None and got_o != env['obj']):
                        bad = True
                        ctx.fail('property', site, 'feasibility' if got_f != env['feas'] else 'objective',
                                 f'{call}: at {s!r} check_feasible={got_f} objective={got_o}; documented condition gives feasible={env["feas"]} objective={env["obj"]}', repro=src)
                        break
        lines.append(line)
        checks.append((site + ' vs Gen.' + which, which, 'err' if cqm is None else canon_cqm(cqm), src, bad))



# ------------------------------------------------------------------------------------ quadratic knapsacks

def qknap_cases(ctx, r, lines, checks):
    for _ in range(ctx.scale(40, 800)):
        which = r.choice(['qknap', 'qmknap'])
        n = r.randint(0, 4) if which == 'qknap' else r.randint(0, 3)
        values = [F(r.randint(-4, 40), 4) for _ in range(n)]
        weights = [F(r.randint(0, 24), 4) for _ in range(n)]
        P = [[F(0)] * n for _ in range(n)]
        for i in range(n):
            for j in range(i, n):
                P[i][j] = P[j][i] = F(r.randint(-8, 24), 4)       # the diagonal is ignored by the code
        mal = None
        k = r.random()
        if k < .05:
            mal = 'shape mismatch'; weights = weights + [F(1)]
        elif k < .11 and n >= 2:
            mal = 'profits not symmetric'; i, j = r.sample(range(n), 2); P[i][j] += 1
        elif k < .16 and n >= 1:
            mal = 'profits of the wrong size'; P = [row + [F(0)] for row in P] + [[F(0)] * (n + 1)]
        fl = lambda l: [float(a) for a in l]   # noqa: E731
        Pf = [fl(row) for row in P]
        ptxt = ';'.join(','.join(map(rat, row)) for row in P) or '-'
        if which == 'qknap':
            cap = F(r.randint(0, 40), 4)
            call = f'G.quadratic_knapsack({fl(values)!r}, {fl(weights)!r}, {Pf!r}, {float(cap)!r})'
            f = lambda: G.quadratic_knapsack(fl(values), fl(weights), Pf, float(cap))   # noqa: E731
            line = f"qknap {rat(cap)} {','.join(map(rat, values)) or '-'} {','.join(map(rat, weights)) or '-'} {ptxt}"
            pre = f'values, weights, P, cap = {fl(values)!r}, {fl(weights)!r}, {Pf!r}, {float(cap)!r}\n'
            pred = ('x = lambda i: s[f"x_{i}"]\nn = len(values)\n'
                    'feas = sum(F(w)*x(i) for i, w in enumerate(weights)) <= F(cap)\n'
                    'obj = -sum(F(v)*x(i) for i, v in enumerate(values)) - sum(F(P[i][j])*x(i)*x(j) for i in range(n) for j in range(i + 1, n))\n')
            caps = None
        else:
            m = r.randint(0, 2)
            caps = [F(r.randint(0, 32), 4) for _ in range(m)]
            cap = None
            call = f'G.quadratic_multi_knapsack({fl(values)!r}, {fl(weights)!r}, {Pf!r}, {fl(caps)!r})'
            f = lambda: G.quadratic_multi_knapsack(fl(values), fl(weights), Pf, fl(caps))   # noqa: E731
            line = f"qmknap {','.join(map(rat, values)) or '-'} {','.join(map(rat, weights)) or '-'} {','.join(map(rat, caps)) or '-'} {ptxt}"
            pre = f'values, weights, P, caps = {fl(values)!r}, {fl(weights)!r}, {Pf!r}, {fl(caps)!r}\n'
            pred = ('x = lambda i, j: s[f"x_{i}_{j}"]\nn = len(values); m = len(caps)\n'
                    'feas = all(sum(x(i, j) for j in range(m)) <= 1 for i in range(n)) and all(sum(F(w)*x(i, j) for i, w in enumerate(weights)) <= F(c) for j, c in enumerate(caps))\n'
                    'obj = -sum(F(v)*x(i, j) for i, v in enumerate(values) for j in range(m)) - sum(F(P[i][k])*x(i, j)*x(k, j) for i in range(n) for k in range(i + 1, n) for j in range(m))\n')
        src = (HDR + pre + f'cqm = {call}\nvs = list(cqm.variables)\n'
               'for t in itertools.product((0, 1), repeat=len(vs)):\n'
               '    s = dict(zip(vs, t))\n' + ''.join('    ' + ln + '\n' for ln in pred.splitlines()) +
               '    assert cqm.check_feasible(s) == feas, (s, feas)\n'
               '    assert F(float(cqm.objective.energy(s))) == obj, (s, obj)\n')
        try:
            with warnings.catch_warnings():
                warnings.simplefilter('ignore')
                cqm = f()
        except ValueError:
            cqm = None
        name = 'quadratic_knapsack' if which == 'qknap' else 'quadratic_multi_knapsack'
        site = 'generators.' + name
        ctx.tick(which + (':raises' if cqm is None else '') + (':' + mal if mal else ''))
        ctx.case((which, line), nontrivial=cqm is not None and n > 0, sample=dict(call=call))
        if (cqm is None) != (mal is not None):
            ctx.fail('property', site, mal or 'valid arguments', f'{call}: ' + ('refused' if cqm is None else 'accepted'),
                     repro=HDR + pre + f'try:\n    {call}\n    ok = True\nexcept ValueError:\n    ok = False\nassert ok == {mal is None}\n')
            continue
        bad = False
        if cqm is not None:
            vs = list(cqm.variables)
            if len(vs) <= 12:
                for t in itertools.product((0, 1), repeat=len(vs)):
                    s = dict(zip(vs, t))
                    env = dict(s=s, F=F, values=values, weights=weights, P=P, cap=cap, caps=caps)
                    exec(pred, env)
                    got_f = cqm.check_feasible(s) if vs else cqm.check_feasible({})
                    got_o = fr(cqm.objective.energy(s)) if vs else None
                    if got_f != env['feas'] or (got_o is not None and got_o != env['obj']):
                        bad = True
                        ctx.fail('property', site, 'feasibility' if got_f != env['feas'] else 'objective',
                                 f'{call}: at {s!r} check_feasible={got_f} objective={got_o}; documented condition gives feasible={env["feas"]} objective={env["obj"]}', repro=src)
                        break
                if not bad and any(cqm.vartype(v) is not dimod.BINARY for v in vs):
                    bad = True
                    ctx.fail('property', site, 'variable type', f'{call}: a variable is not BINARY', repro=src + 'assert all(cqm.vartype(v) is dimod.BINARY for v in vs)\n')
        lines.append(line)
        checks.append((site + ' vs Gen.' + which, which, 'err' if cqm is None else canon_cqm(cqm), src, bad))



# ------------------------------------------------------------------------------------ quadratic assignment

def qap_cases(ctx, r, lines, checks):
    for rep in range(ctx.scale(24, 400)):
        n = r.randint(1, 3)
        sym = r.random() < .4
        D = [[0] * n for _ in range(n)]; Fl = [[0] * n for _ in range(n)]
        for i in range(n):
            for j in range(n):
                Fl[i][j] = r.randint(0, 7) if i != j or r.random() < .2 else 0
                if i <= j or not sym:
                    D[i][j] = r.randint(0, 7) if i != j or r.random() < .2 else 0
                else:
                    D[i][j] = D[j][i]
        mal = None
        k = r.random()
        if k < .06:
            mal = 'shapes differ'; Fl = [row + [0] for row in Fl] + [[0] * (n + 1)]
        elif k < .12:
            mal = 'not square'; D = D + [[1] * n]; Fl = Fl + [[1] * n]
        asym = any(D[i][j] != D[j][i] for i in range(min(n, len(D))) for j in range(n)) if mal is None else False
        call = f'G.quadratic_assignment({D!r}, {Fl!r})'
        site = 'generators.quadratic_assignment'
        cls = 'asymmetric distance matrix' if asym else 'symmetric distance matrix'
        src = (HDR + f'D, Fl = {D!r}, {Fl!r}\nn = len(D)\ncqm = {call}\n'
               'vs = [f"x_{i}_{j}" for i in range(n) for j in range(n)]\nassert list(cqm.variables) == vs\n'
               'for t in itertools.product((0, 1), repeat=len(vs)):\n'
               '    s = dict(zip(vs, t)); x = lambda i, j: s[f"x_{i}_{j}"]\n'
               '    feas = all(sum(x(i, j) for j in range(n)) == 1 for i in range(n)) and all(sum(x(i, j) for i in range(n)) == 1 for j in range(n))\n'
               '    assert cqm.check_feasible(s) == feas, (s, feas)\n'
               '    if feas:\n'
               '        loc = {i: j for i in range(n) for j in range(n) if x(i, j)}\n'
               '        cost = sum(Fl[i][k] * D[loc[i]][loc[k]] for i in range(n) for k in range(n) if i != k)\n'
               '        assert F(float(cqm.objective.energy(s))) == cost, (loc, float(cqm.objective.energy(s)), cost)\n')
        try:
            with warnings.catch_warnings():
                warnings.simplefilter('ignore')
                cqm = G.quadratic_assignment(D, Fl)
        except ValueError:
            cqm = None
        ctx.tick('qap' + (':raises' if cqm is None else '') + (':' + mal if mal else '') + (':asymmetric' if asym else ''))
        ctx.case(('qap', repr(D), repr(Fl)), nontrivial=cqm is not None and n > 1, sample=dict(call=call))
        if (cqm is None) != (mal is not None):
            ctx.fail('property', site, mal or 'valid arguments', f'{call}: ' + ('refused' if cqm is None else 'accepted'),
                     repro=HDR + f'try:\n    {call}\n    ok = True\nexcept ValueError:\n    ok = False\nassert ok == {mal is None}\n')
            continue
        bad = False
        if cqm is not None:
            vs = [f'x_{i}_{j}' for i in range(n) for j in range(n)]
            if list(cqm.variables) != vs or any(cqm.vartype(v) is not dimod.BINARY for v in vs):
                bad = True
                ctx.fail('property', site, 'variables', f'{call}: variables {list(cqm.variables)!r}', repro=src)
            for t in itertools.product((0, 1), repeat=len(vs)) if not bad else ():
                s = dict(zip(vs, t))
                feas = (all(sum(s[f'x_{i}_{j}'] for j in range(n)) == 1 for i in range(n))
                        and all(sum(s[f'x_{i}_{j}'] for i in range(n)) == 1 for j in range(n)))
                got_f = cqm.check_feasible(s)
                if got_f != feas:
                    bad = True
                    ctx.fail('property', site, 'feasibility', f'{call}: at {s!r} check_feasible={got_f}; "every facility at one location, every location one facility" gives {feas}', repro=src)
                    break
                if feas:
                    loc = {i: j for i in range(n) for j in range(n) if s[f'x_{i}_{j}']}
                    cost = sum(Fl[i][k] * D[loc[i]][loc[k]] for i in range(n) for k in range(n) if i != k)
                    got = fr(cqm.objective.energy(s))
                    if got != cost:
                        bad = True
                        ctx.fail('property', site, cls, f'{call}: assignment facility->location {loc!r}: objective {got}, quadratic-assignment cost sum_(i!=k) flow[i][k]*distance[loc(i)][loc(k)] = {cost}', repro=src)
                        break
        mtxt = lambda M: ';'.join(','.join(map(str, row)) for row in M) or '-'   # noqa: E731
        lines.append(f'qap {mtxt(D)} {mtxt(Fl)}')
        checks.append((site + ' vs Gen.quadraticAssignment', cls if cqm is not None else 'refusal', 'err' if cqm is None else canon_cqm(cqm), src, bad))

# ------------------------------------------------------------------------------------ kMC-SAT: the model as a function of the drawn clauses

def parse_clauses(log, n, k, m, plant):
    """cut the recorded scalars into clauses exactly as `_kmcsat_interactions` consumes them: per clause k indices
    (`choice(n, k, replace=False)`), k sign bits, and — with plant_solution — k more bits while |sum(signs)| > 1"""
    pos, out = 0, []
    for _ in range(m):
        idx = log[pos:pos + k]; pos += k
        sg = [2 * b - 1 for b in log[pos:pos + k]]; pos += k
        while plant and abs(sum(sg)) > 1:
            sg = [2 * b - 1 for b in log[pos:pos + k]]; pos += k
        out.append(list(zip(idx, sg)))
    return out, pos


def kmcsat_cases(ctx, r, lines, checks):
    for _ in range(ctx.scale(45, 900)):
        name = r.choice(['random_nae3sat', 'random_2in4sat', 'random_kmcsat'])
        k = {'random_nae3sat': 3, 'random_2in4sat': 4}.get(name) or r.randint(1, 5)
        n = r.randint(max(1, k - (1 if r.random() < .08 else 0)), 7)
        m = r.randint(0, 5)
        plant = r.random() < .3
        seed = r.choice([0, 1, r.randrange(2 ** 31)])
        variables = n if r.random() < .5 else r.sample(['a', 'b', 'c', 'd', 'e', 'f', 'g', 0, 1, 2, ('t', 1)], n)
        labels = list(range(n)) if isinstance(variables, int) else variables
        kw = f'plant_solution={plant}, seed={seed}'
        call = (f'G.{name}({variables!r}, {m}, {kw})' if name != 'random_kmcsat' else f'random_kmcsat({variables!r}, {k}, {m}, {kw})')
        site = 'generators.' + name
        refuse = n < k
        pre = HDR + 'from dimod.generators.satisfiability import random_kmcsat\n'
        from dimod.generators.satisfiability import random_kmcsat
        try:
            with warnings.catch_warnings():
                warnings.simplefilter('ignore')
                with recording() as rec:
                    b = eval(call, {'G': G, 'np': np, 'random_kmcsat': random_kmcsat})
                log = rec.stream()
            err = None
        except ValueError as e:
            b, err, log = None, e, []
        ctx.tick(f'kmcsat:{name}:k={k}' + (':plant' if plant else '') + (':raises' if b is None else ''))
        ctx.case(('kmcsat', call), nontrivial=b is not None and m > 0, sample=dict(call=call))
        src = (pre + f'b = {call}\nk, m, labels = {k}, {m}, {labels!r}\n'
               '# the documented relation: every clause (k literals on k different variables) contributes -(k//2) when it is satisfied\n'
               '# (true and false literals differ in number by at most one) and at least 0 otherwise; the clauses are read off the model:\n'
               '# with m clauses of k different variables, sum of |J| <= m*k*(k-1)/2 and the energy is bounded below by -(k//2)*m\n'
               'vs = list(b.variables)\nassert b.vartype is dimod.SPIN and vs == labels and all(b.get_linear(v) == 0 for v in vs) and b.offset == 0\n'
               'lo = min(F(float(b.energy(dict(zip(vs, t))))) for t in itertools.product((-1, 1), repeat=len(vs)))\n'
               f'assert lo >= -(k // 2) * m, lo\n'
               + ('assert F(float(b.energy({v: 1 for v in vs}))) == -(k // 2) * m, "the planted all-1 state is not a ground state"\n' if plant else ''))
        if (b is None) != refuse:
            ctx.fail('property', site, 'fewer variables than k' if refuse else 'valid arguments', f'{call}: ' + ('refused: ' + str(err) if b is None else 'accepted'),
                     repro=pre + f'try:\n    {call}\n    ok = True\nexcept ValueError:\n    ok = False\nassert ok == {not refuse}\n')
            continue
        if b is None:
            lines.append(f"kmcsat {k} {','.join(lab(v) for v in labels) or '-'} -")
            checks.append((site + ' vs Gen.kmcsat', 'refusal', 'err', src, False))
            continue
        clauses, used = parse_clauses(log, n, k, m, plant)
        bad = False

        def fail(cls, what):
            nonlocal bad
            bad = True
            ctx.fail('property', site, cls, f'{call}: {what}', repro=src)
        vs = list(b.variables)
        if used != len(log) or any(len(set(i for i, _ in c)) != k or any(not 0 <= i < n for i, _ in c) or any(sg not in (-1, 1) for _, sg in c) for c in clauses):
            fail('draws', f'the recorded draws {log!r} are not {m} clauses of {k} different variables with signs')
        elif b.vartype is not dimod.SPIN or vs != labels or any(b.get_linear(v) != 0 for v in vs) or b.offset != 0:
            fail('shape', f'vartype {b.vartype.name}, variables {vs!r}, linear {dict(b.linear)!r}, offset {b.offset}')
        else:
            # property predicate, from the documented relation and the DRAWN clauses (never through the model)
            sat_e = -(k // 2)
            for t in itertools.product((-1, 1), repeat=n):
                s = dict(zip(labels, t))
                e = fr(b.energy(s))
                nsat = 0
                for c in clauses:
                    true = sum(1 for i, sg in c if sg * t[i] == 1)
                    nsat += abs(2 * true - k) <= 1
                if e < sat_e * nsat or (e == sat_e * m) != (nsat == m):
                    fail('clause energies', f'clauses {clauses!r}: at {s!r} energy {e} with {nsat} of {m} clauses satisfied (each satisfied clause contributes {sat_e}, every other one >= 0)')
                    break
                if k in (3, 4) and e != sum((sat_e if abs(2 * sum(1 for i, sg in c if sg * t[i] == 1) - k) <= 1 else
                                             ((2 * sum(1 for i, sg in c if sg * t[i] == 1) - k) ** 2 - k) // 2) for c in clauses):
                    fail('clause energies', f'clauses {clauses!r}: at {s!r} energy {e} is not the sum of the clause energies')
                    break
            if not bad and plant and fr(b.energy({v: 1 for v in labels})) != sat_e * m:
                fail('planted solution', f'clauses {clauses!r}: the all-1 state has energy {fr(b.energy({v: 1 for v in labels}))}, not {sat_e * m}')
        ctxt = ','.join('+'.join(f'{i}:{sg}' for i, sg in c) for c in clauses) or '-'
        lines.append(f"kmcsat {k} {','.join(lab(v) for v in labels)} {ctxt}")
        checks.append((site + ' vs Gen.kmcsat (clauses drawn: recorded)', 'interactions of the drawn clauses', 'ok ' + canon_bqm(b), src, bad))



# ------------------------------------------------------------------------------------ binary paint shop

def bpsp_cases(ctx, r, lines, checks):
    from dimod.generators.bpsp import binary_paint_shop_problem, sample_to_coloring
    for rep in range(ctx.scale(40, 800)):
        n = r.randint(0, 5)
        cars = r.sample(['a', 'b', 'c', 'd', 0, 1, 2, ('t', 1)], n)
        seq = cars * 2
        r.shuffle(seq)
        if r.random() < .25 and n >= 2:
            seq.sort(key=repr)                  # cars directly followed by themselves
            if r.random() < .5:
                i = r.randrange(len(seq) - 1); seq[i], seq[i + 1] = seq[i + 1], seq[i]
        mal = None
        k = r.random()
        if k < .1 and n >= 2:
            # same length, same number of different cars, but one car three times and another once
            a, b = r.sample(cars, 2)
            seq[seq.index(b)] = a
            mal = 'a car three times, another once'
        elif k < .16 and n >= 1:
            seq.append(r.choice(cars)); mal = 'odd length'
        elif k < .2 and n >= 1:
            seq.remove(r.choice(cars)); mal = 'a car only once'
        call = f'binary_paint_shop_problem({seq!r})'
        site = 'generators.binary_paint_shop_problem'
        pre = HDR + 'from dimod.generators.bpsp import binary_paint_shop_problem, sample_to_coloring\n'
        src = (pre + f'seq = {seq!r}\nb = {call}\ncars = list(dict.fromkeys(seq))\n'
               'same = sum(1 for u, v in zip(seq, seq[1:]) if u == v)\n'
               'assert b.vartype is dimod.SPIN and set(b.variables) <= set(cars)\n'
               'for t in itertools.product((-1, 1), repeat=len(cars)):\n'
               '    s = dict(zip(cars, t)); _, changes = sample_to_coloring(s, seq)\n'
               '    e = F(float(b.energy({v: s[v] for v in b.variables})))\n'
               '    assert 2 * changes == max(len(seq) - 1, 0) + e + same, (s, changes, e)\n')
        try:
            b = binary_paint_shop_problem(seq)
        except ValueError:
            b = None
        ctx.tick('bpsp' + (':raises' if b is None else '') + (':' + mal if mal else ''))
        ctx.case(('bpsp', repr(seq)), nontrivial=b is not None and n > 1, sample=dict(call=call))
        if (b is None) != (mal is not None):
            ctx.fail('property', site, mal or 'every car exactly twice', f'{call}: ' + ('refused' if b is None else 'accepted: the model does not encode the colour changes of this sequence'),
                     repro=pre + f'try:\n    {call}\n    ok = True\nexcept ValueError:\n    ok = False\nassert ok == {mal is None}\n')
            continue
        bad = False
        if b is not None:
            same = sum(1 for u, v in zip(seq, seq[1:]) if u == v)
            if b.vartype is not dimod.SPIN or not set(b.variables) <= set(cars) or any(b.get_linear(v) for v in b.variables) or b.offset:
                bad = True
                ctx.fail('property', site, 'shape', f'{call}: vartype/variables/linear/offset', repro=src)
            for t in itertools.product((-1, 1), repeat=len(cars)) if not bad else ():
                smp = dict(zip(cars, t))
                _, changes = sample_to_coloring(smp, seq)
                e = fr(b.energy({v: smp[v] for v in b.variables})) if b.num_variables else F(0)
                if 2 * changes != max(len(seq) - 1, 0) + e + same:
                    bad = True
                    ctx.fail('property', site, 'energy vs colour changes', f'{call}: at {smp!r} {changes} colour changes, energy {e}: 2*changes != (L-1) + E + {same}', repro=src)
                    break
        lines.append(f"bpsp {','.join(lab(v) for v in seq) or '-'}")
        checks.append((site + ' vs Gen.bpsp', 'interactions' if b is not None else 'refusal', 'err' if b is None else 'ok ' + canon_bqm(b), src, bad))

# ------------------------------------------------------------------------------------ magic square

LO_SHU = [[2, 7, 6], [9, 5, 1], [4, 3, 8]]
PARKER_LIKE = [[7, 1, 7], [5, 5, 5], [3, 9, 3]]      # all lines sum to 15, entries repeat


def msq_cases(ctx, r, lines, checks):
    def raw_qm(e):
        lin = sorted(f'{lab(v)}={rat(e.get_linear(v))}' for v in e.variables)
        quad = sorted(f'{pairkey(lab(u), lab(v))}={rat(q)}' for u, v, q in e.iter_quadratic())
        return f"{','.join(lin)};{','.join(quad)};{rat(e.offset)}"
    for n, power in [(1, 1), (1, 2), (2, 1), (2, 2), (3, 1), (3, 2)] + ([(4, 1), (4, 2)] if not ctx.quick else []) + [(2, 0), (2, 3), (1, -1)]:
        call = f'G.magic_square({n}, {power})'
        site = 'generators.magic_square'
        try:
            cqm = G.magic_square(n, power)
        except ValueError:
            cqm = None
        ctx.tick('msq' + (':raises' if cqm is None else '')); ctx.case(('msq', n, power), nontrivial=cqm is not None)
        if (cqm is None) != (power not in (1, 2)):
            ctx.fail('property', site, 'power', f'{call}: ' + ('refused' if cqm is None else 'accepted'),
                     repro=HDR + f'try:\n    {call}\n    ok = True\nexcept ValueError:\n    ok = False\nassert ok == {power in (1, 2)}\n')
            continue
        if cqm is None:
            continue          # (negative powers have no model line: the protocol takes naturals)
        src = (HDR + f'n, power = {n}, {power}\ncqm = {call}\n'
               'import random\nq = random.Random(1)\n'
               'cells = [(i, j) for i in range(n) for j in range(n)]\n'
               'assert set(cqm.variables) == {f"var_{i}_{j}" for i, j in cells} | {"sum"}\n'
               'assert all(cqm.vartype(v) is dimod.INTEGER and cqm.lower_bound(v) == 1 for v in cqm.variables)\n'
               'def lines_(a): return [[a[i][j] for j in range(n)] for i in range(n)] + [[a[j][i] for j in range(n)] for i in range(n)] + [[a[i][i] for i in range(n)], [a[i][n-1-i] for i in range(n)]]\n'
               'for _ in range(300):\n'
               '    a = [[q.randint(1, 4) for _ in range(n)] for _ in range(n)]; t = sum(v**power for v in a[0]) if q.random() < .7 else q.randint(1, 30)\n'
               '    flat = [v for row in a for v in row]\n'
               '    want = all(sum(v**power for v in ln) == t for ln in lines_(a)) and sum((x - y)**2 for i, x in enumerate(flat) for y in flat[i+1:]) >= (n**4 - n**2) / 2\n'
               '    s = {f"var_{i}_{j}": a[i][j] for i, j in cells}; s["sum"] = t\n'
               '    assert cqm.check_feasible(s) == want, (a, t, want)\n')
        bad = False
        cells = [(i, j) for i in range(n) for j in range(n)]
        okvars = (set(cqm.variables) == {f'var_{i}_{j}' for i, j in cells} | {'sum'}
                  and all(cqm.vartype(v) is dimod.INTEGER and cqm.lower_bound(v) == 1 for v in cqm.variables) and cqm.objective.is_equal(0 * dimod.Integer('sum')) is not None)
        if not okvars or cqm.objective.num_interactions or any(cqm.objective.get_linear(v) for v in cqm.objective.variables) or cqm.objective.offset:
            bad = True
            ctx.fail('property', site, 'variables', f'{call}: variables {list(cqm.variables)!r} / types / bounds / objective are not the documented ones', repro=src)

        def lines_(a):
            return ([[a[i][j] for j in range(n)] for i in range(n)] + [[a[j][i] for j in range(n)] for i in range(n)]
                    + [[a[i][i] for i in range(n)], [a[i][n - 1 - i] for i in range(n)]])
        samples = []
        for _ in range(ctx.scale(150, 1500)):
            a = [[r.randint(1, 4) for _ in range(n)] for _ in range(n)]
            t = sum(v ** power for v in a[0]) if r.random() < .7 else r.randint(1, 30)
            samples.append((a, t))
        if n == 3 and power == 1:
            samples += [(LO_SHU, 15), (LO_SHU, 14), (PARKER_LIKE, 15), ([[5] * 3] * 3, 15)]
        if n == 1:
            samples += [([[v]], v ** power) for v in (1, 2, 3)]
        for a, t in samples:
            if bad:
                break
            flat = [v for row in a for v in row]
            want = (all(sum(v ** power for v in ln) == t for ln in lines_(a))
                    and sum((x - y) ** 2 for i, x in enumerate(flat) for y in flat[i + 1:]) >= F(n ** 4 - n ** 2, 2))
            s = {f'var_{i}_{j}': a[i][j] for i, j in cells}; s['sum'] = t
            got = cqm.check_feasible(s)
            distinct = len(set(flat)) == len(flat)
            if got and not distinct:
                ctx.tick('msq:feasible-with-repeated-entries')      # the single quadratic constraint does not force uniqueness (Lean witness)
            if got != want or (distinct and all(sum(v ** power for v in ln) == t for ln in lines_(a)) and not got):
                bad = True
                ctx.fail('property', site, 'feasibility', f'{call}: square {a!r} with sum {t}: check_feasible={got}, the stated conditions give {want}', repro=src)
                break
            # every constraint on its own: the activity of `row_i` / `col_i` / `diagonal` / `antidiagonal` is the line's (power-)sum minus `sum`,
            # the activity of `uniqueness` the sum of the squared differences of all cell pairs, against (n^4 - n^2)/2
            ln_ = lines_(a)
            stated = {**{f'row_{i}': sum(v ** power for v in ln_[i]) - t for i in range(n)}, **{f'col_{i}': sum(v ** power for v in ln_[n + i]) - t for i in range(n)},
                      'diagonal': sum(v ** power for v in ln_[2 * n]) - t, 'antidiagonal': sum(v ** power for v in ln_[2 * n + 1]) - t,
                      'uniqueness': sum((x - y) ** 2 for i, x in enumerate(flat) for y in flat[i + 1:])}
            gotc = {label: fr(c.lhs.energy(s)) - fr(c.rhs) * (label != 'uniqueness') for label, c in cqm.constraints.items()}
            rhs_u = fr(cqm.constraints['uniqueness'].rhs) if 'uniqueness' in cqm.constraints else None
            if gotc != stated or rhs_u != F(n ** 4 - n ** 2, 2) or any(c.sense.name != ('Ge' if label == 'uniqueness' else 'Eq') for label, c in cqm.constraints.items()):
                bad = True
                ctx.fail('property', site, 'constraint activities', f'{call}: square {a!r} with sum {t}: constraint activities {gotc!r} (uniqueness rhs {rhs_u}), stated {stated!r} (rhs {F(n ** 4 - n ** 2, 2)})',
                         repro=HDR + f'n, power, a, t = {n}, {power}, {a!r}, {t}\ncqm = {call}\ns = {{f"var_{{i}}_{{j}}": a[i][j] for i in range(n) for j in range(n)}}; s["sum"] = t\n'
                         'flat = [v for row in a for v in row]\nu = cqm.constraints["uniqueness"]\n'
                         'assert u.sense.name == "Ge" and F(float(u.rhs)) == F(n**4 - n**2, 2) and F(float(u.lhs.energy(s))) == sum((x - y)**2 for i, x in enumerate(flat) for y in flat[i+1:])\n'
                         'for i in range(n):\n'
                         '    assert F(float(cqm.constraints[f"row_{i}"].lhs.energy(s))) == sum(v**power for v in a[i]) - t\n'
                         '    assert F(float(cqm.constraints[f"col_{i}"].lhs.energy(s))) == sum(a[j][i]**power for j in range(n)) - t\n'
                         'assert F(float(cqm.constraints["diagonal"].lhs.energy(s))) == sum(a[i][i]**power for i in range(n)) - t\n'
                         'assert F(float(cqm.constraints["antidiagonal"].lhs.energy(s))) == sum(a[i][n-1-i]**power for i in range(n)) - t\n')
        lines.append(f'msq {n} {power}')
        want_line = 'ok ' + '|'.join(f"{label.encode().hex()}:{c.sense.name.lower()}:{rat(c.rhs)}:{raw_qm(c.lhs)}" for label, c in cqm.constraints.items())
        checks.append((site + ' vs Gen.magicSquare', 'constraints', want_line, src, bad))

# ------------------------------------------------------------------------------------ random generators (validated, not proved)

def same_bqm(a, b):
    return (a.vartype is b.vartype and list(a.variables) == list(b.variables) and coef(a) == coef(b))


# legal seed values that look "falsy" or sit at the ends of the range: a seeded call must be reproducible for each of them
SPECIAL_SEEDS = ['0', 'np.int64(0)', 'np.uint32(0)', '1', '2**32 - 1', 'np.int64(0)', '0']


def random_cases(ctx, r):
    nseeds = ctx.scale(25, 1000)
    first_zero = {}                                 # generator -> model drawn with the first seed that equals 0
    spec_base = r.randrange(2 ** 31)
    for i in range(nseeds):
        special = i < len(SPECIAL_SEEDS)
        # the special seeds all get the same graph and parameters, so that equal seed values can be compared
        q = random.Random(spec_base) if special else r
        seed_src = SPECIAL_SEEDS[i] if special else repr(r.randrange(2 ** 31))
        seed = eval(seed_src, {'np': np})
        zero = int(seed) == 0
        n = 7 if special else q.randint(0, 6)
        nodes = list(range(n)) if q.random() < .5 else q.sample(['a', 'b', 'c', 'd', 'e', 'f', 0, 1, 2], n)
        # falsy / extreme seeds: a complete graph, so that two unseeded draws cannot coincide by chance
        edges = [e for e in itertools.combinations(nodes, 2) if special or q.random() < .5]
        graph = q.choice([n if nodes == list(range(n)) else (nodes, edges), (nodes, edges), (nodes, edges)])
        gn, ge = (list(range(graph)), list(itertools.combinations(range(graph), 2))) if isinstance(graph, int) else graph
        vt = q.choice(['SPIN', 'BINARY'])
        env = {'G': G, 'np': np, 'graph': graph, 'vt': vt, 'seed': seed, 'nodes': nodes}
        pre = HDR + f'graph, vt, nodes, seed = {graph!r}, {vt!r}, {nodes!r}, {seed_src}\n'
        repro_cls = 'seed reproducibility' + (' (seed 0)' if zero else '')

        def draw_twice(name, call, same, key_extra=()):
            """two calls with the same seed must return the same model; returns the first"""
            site = f'generators.{name}'
            with warnings.catch_warnings():
                warnings.simplefilter('ignore')
                a = eval(call, dict(env)); b2 = eval(call, dict(env))
            ctx.tick('random:' + name + (':seed0' if zero else '')); ctx.case(('random', name, seed_src, repr(graph)) + key_extra, nontrivial=bool(ge) or name not in ('uniform', 'randint', 'ran_r', 'power_r', 'doped'))
            eq = 'a.is_equal(b)' if isinstance(a, dimod.ConstrainedQuadraticModel) else '(a.vartype is b.vartype and list(a.variables) == list(b.variables) and a == b)'
            repro = pre + f'a = {call}\nb = {call}\nassert {eq}, "two calls with seed {seed_src} differ"\n'
            if not same(a, b2):
                ctx.fail('property', site, repro_cls, f'{call} with graph {graph!r}, seed = {seed_src}: two calls return different models', repro=repro)
            elif zero:
                # the same seed value spelled as another integer type
                k = (name, call, repr(graph), vt)
                if k in first_zero and not same(first_zero[k][0], a):
                    ctx.fail('property', site, repro_cls, f'{call} with graph {graph!r}: seed {first_zero[k][1]} and seed {seed_src} give different models', repro=repro)
                first_zero.setdefault(k, (a, seed_src))
            return a, repro

        def on_graph(b, site, cls, repro):
            got_e = {frozenset((u, v)) for u, v, _ in b.iter_quadratic()}
            if list(b.variables) != list(gn) or got_e != {frozenset(e) for e in ge}:
                ctx.fail('property', site, cls, f'seed {seed_src} graph {graph!r}: variables {list(b.variables)!r} interactions {sorted(map(sorted, got_e), key=repr)!r}', repro=repro)
                return False
            return True

        def check(name, call, inrange, offset_rule, linear_rule=None, rng_text=''):
            site = f'generators.{name}'
            a, repro = draw_twice(name, call, same_bqm)
            if not on_graph(a, site, 'declared graph', repro + f'assert list(a.variables) == {list(gn)!r} and {{frozenset((u, v)) for u, v, _ in a.iter_quadratic()}} == {{frozenset(e) for e in {ge!r}}}\n'):
                return
            lin, quad, off = coef(a)
            if not all(inrange(q) for q in quad.values()) or not all((linear_rule or inrange)(x) for x in lin.values()) or not offset_rule(off):
                ctx.fail('property', site, 'declared range', f'{call} seed {seed_src} graph {graph!r}: {lin} {quad} {off}', repro=repro + rng_text)
        lo, hi = sorted((F(q.randint(-8, 8), 2), F(q.randint(-8, 8), 2)))
        if lo == hi:
            hi += 1
        check('uniform', f'G.uniform(graph, vt, low={float(lo)!r}, high={float(hi)!r}, seed=seed)', lambda x: lo <= x <= hi, lambda x: lo <= x <= hi,
              rng_text=f'assert all({float(lo)!r} <= x <= {float(hi)!r} for x in list(a.linear.values()) + list(a.quadratic.values()) + [a.offset])\n')
        ilo = q.randint(-5, 3); ihi = ilo + (q.randint(4, 6) if special else q.randint(0, 6))
        isint = lambda x: x.denominator == 1 and ilo <= x <= ihi   # noqa: E731
        check('randint', f'G.randint(graph, vt, low={ilo}, high={ihi}, seed=seed)', isint, isint,
              rng_text=f'assert all(x == int(x) and {ilo} <= x <= {ihi} for x in list(a.linear.values()) + list(a.quadratic.values()) + [a.offset])\n')
        rr = q.randint(3, 5) if special else q.randint(1, 5)
        inr = lambda x: x.denominator == 1 and 1 <= abs(x) <= rr   # noqa: E731
        iszero = lambda x: x == 0   # noqa: E731
        for name in ('ran_r', 'power_r'):
            check(name, f'G.{name}({rr}, graph, seed=seed)', inr, iszero, iszero,
                  rng_text=f'assert all(x == int(x) and 1 <= abs(x) <= {rr} for x in a.quadratic.values()) and not any(a.linear.values()) and a.offset == 0\n')
        p = .5 if special else q.choice([0, .25, .5, 1])
        # doped builds its variables from the edges only
        a, repro = draw_twice('doped', f'G.doped({p!r}, graph, seed=seed)', same_bqm)
        lin, quad, off = coef(a)
        if ({frozenset(k) for k in quad} != {frozenset(e) for e in ge} or any(abs(q) != 1 for q in quad.values()) or any(lin.values()) or off != 0
                or a.vartype.name != 'SPIN' or (p in (0, 1) and any(q != (1 if p == 1 else -1) for q in quad.values()))):
            ctx.fail('property', 'generators.doped', 'declared range', f'seed {seed_src} p={p} graph {graph!r}: {lin} {quad} {off}',
                     repro=repro + f'assert {{frozenset(k) for k in a.quadratic}} == {{frozenset(e) for e in {ge!r}}} and all(abs(q) == 1 for q in a.quadratic.values()) and not any(a.linear.values()) and a.offset == 0 and a.vartype is dimod.SPIN\n')
        # gnm / gnp
        m = q.randint(5, 8) if special else q.randint(0, 8)
        a, repro = draw_twice('gnm_random_bqm', f'G.gnm_random_bqm(nodes, {m}, vt, random_state=seed)', same_bqm)
        lin, quad, off = coef(a)
        if (list(a.variables) != nodes or len(quad) != min(m, n * (n - 1) // 2) or not all(0 <= x < 1 for x in list(lin.values()) + list(quad.values()) + [off])):
            ctx.fail('property', 'generators.gnm_random_bqm', 'declared size / range', f'seed {seed_src} n={n} m={m}: {len(quad)} interactions',
                     repro=repro + f'assert list(a.variables) == nodes and a.num_interactions == {min(m, n * (n - 1) // 2)} and all(0 <= x < 1 for x in list(a.linear.values()) + list(a.quadratic.values()) + [a.offset])\n')
        pp = q.choice([.3, .7]) if special else q.choice([0, .3, .7, 1])
        a, repro = draw_twice('gnp_random_bqm', f'G.gnp_random_bqm(nodes, {pp!r}, vt, random_state=seed)', same_bqm)
        lin, quad, off = coef(a)
        if (list(a.variables) != nodes or (pp == 0 and quad) or (pp == 1 and len(quad) != n * (n - 1) // 2)
                or not all(0 <= x < 1 for x in list(lin.values()) + list(quad.values()) + [off])):
            ctx.fail('property', 'generators.gnp_random_bqm', 'declared size / range', f'seed {seed_src} n={n} p={pp}',
                     repro=repro + 'assert list(a.variables) == nodes and all(0 <= x < 1 for x in list(a.linear.values()) + list(a.quadratic.values()) + [a.offset])\n')
        # random CQM generators: ranges of the drawn data, reproducibility
        ni = q.randint(3, 5) if special else q.randint(1, 5)
        vr = (q.randint(1, 10), q.randint(11, 40)); wr = (q.randint(1, 10), q.randint(11, 40))
        same_cqm = lambda x, y: x.is_equal(y)   # noqa: E731
        a, repro = draw_twice('random_knapsack', f'G.random_knapsack({ni}, seed=seed, value_range={vr!r}, weight_range={wr!r})', same_cqm)
        vals = [-fr(a.objective.get_linear(f'x_{i}')) for i in range(ni)]
        ws = [fr(a.constraints['capacity'].lhs.get_linear(f'x_{i}')) for i in range(ni)]
        if not all(vr[0] <= v <= vr[1] for v in vals) or not all(wr[0] <= w <= wr[1] for w in ws):
            ctx.fail('property', 'generators.random_knapsack', 'declared range', f'seed {seed_src}: values {vals} weights {ws}',
                     repro=repro + f'assert all({vr[0]} <= -a.objective.get_linear(f"x_{{i}}") <= {vr[1]} and {wr[0]} <= a.constraints["capacity"].lhs.get_linear(f"x_{{i}}") <= {wr[1]} for i in range({ni}))\n')
        nb = q.randint(1, 3)
        a, repro = draw_twice('random_multi_knapsack', f'G.random_multi_knapsack({ni}, {nb}, seed=seed, value_range={vr!r}, weight_range={wr!r})', same_cqm)
        vals = [-fr(a.objective.get_linear(f'x_{i}_0')) for i in range(ni)]
        ws = [fr(a.constraints['capacity_bin_0'].lhs.get_linear(f'x_{i}_0')) for i in range(ni)]
        if not all(vr[0] <= v <= vr[1] for v in vals) or not all(wr[0] <= w <= wr[1] for w in ws):
            ctx.fail('property', 'generators.random_multi_knapsack', 'declared range', f'seed {seed_src}: values {vals} weights {ws}',
                     repro=repro + f'assert all({vr[0]} <= -a.objective.get_linear(f"x_{{i}}_0") <= {vr[1]} and {wr[0]} <= a.constraints["capacity_bin_0"].lhs.get_linear(f"x_{{i}}_0") <= {wr[1]} for i in range({ni}))\n')
        a, repro = draw_twice('random_bin_packing', f'G.random_bin_packing({ni}, seed=seed, weight_range={wr!r})', same_cqm)
        ws = [fr(a.constraints['capacity_bin_0'].lhs.get_linear(f'x_{i}_0')) for i in range(ni)]
        if not all(wr[0] <= w <= wr[1] for w in ws):
            ctx.fail('property', 'generators.random_bin_packing', 'declared range', f'seed {seed_src}: weights {ws}',
                     repro=repro + f'assert all({wr[0]} <= a.constraints["capacity_bin_0"].lhs.get_linear(f"x_{{i}}_0") <= {wr[1]} for i in range({ni}))\n')


# ------------------------------------------------------------------------------------ random generators vs Rnd.* (draw stream recorded)

class RecRS(np.random.RandomState):
    """a RandomState that logs every scalar it hands out, in order (the explicit stream of the Lean models)"""
    instances = []

    def __init__(self, seed=None):
        super().__init__(seed)
        self.log = []
        RecRS.instances.append(self)

    def uniform(self, *a, **k):
        v = super().uniform(*a, **k); self.log += [float(x) for x in np.atleast_1d(v).ravel()]; return v

    def randint(self, *a, **k):
        v = super().randint(*a, **k)
        if not getattr(self, '_inside_choice', False):
            self.log += [int(x) for x in np.atleast_1d(v).ravel()]
        return v

    def choice(self, a, size=None, replace=True, p=None):
        vals = np.asarray(a)
        self._inside_choice = True          # `choice` may be implemented through `randint`: log the index once
        try:
            idx = super().choice(len(vals), size=size, replace=replace, p=p)  # same state, same numbers: the index drawn
        finally:
            self._inside_choice = False
        self.log += [int(x) for x in np.atleast_1d(idx).ravel()]
        return vals[idx]


class RecGen:
    """wrapper of a numpy Generator logging the scalars of `integers` and the indices of `choice`"""
    def __init__(self, g):
        self.g = g; self.log = []

    def integers(self, *a, **k):
        v = self.g.integers(*a, **k); self.log += [int(x) for x in np.atleast_1d(v).ravel()]; return v

    def choice(self, a, size=None, replace=True, p=None, **k):
        if isinstance(a, (int, np.integer)):     # `choice(n, …)`: the population is range(n), the value is the index
            idx = self.g.choice(a, size=size, replace=replace, p=p, **k)
            self.log += [int(x) for x in np.atleast_1d(idx).ravel()]
            return idx
        vals = np.asarray(a)
        idx = self.g.choice(len(vals), size=size, replace=replace, p=p, **k)
        self.log += [int(x) for x in np.atleast_1d(idx).ravel()]
        return vals[idx]


class recording:
    """patch `np.random.RandomState` / `np.random.default_rng` so that generators seeded with an int log their draws"""
    def __enter__(self):
        self.rs, self.dr = np.random.RandomState, np.random.default_rng
        RecRS.instances = []
        self.gens = []
        np.random.RandomState = RecRS
        orig = self.dr

        def default_rng(seed=None):
            if isinstance(seed, RecGen):      # `np.random.default_rng(generator)` returns the generator itself
                return seed
            g = RecGen(orig(seed)); self.gens.append(g); return g
        np.random.default_rng = default_rng
        return self

    def __exit__(self, *exc):
        np.random.RandomState, np.random.default_rng = self.rs, self.dr

    def stream(self):
        return [x for o in RecRS.instances + self.gens for x in o.log]


def random_corr(ctx, r, lines, checks):
    """every random generator with its draws recorded, against the deterministic post-processing of Rnd.*"""
    for i in range(ctx.scale(14, 400)):
        seed = r.choice([0, 1, r.randrange(2 ** 31)])
        n = r.randint(0, 5)
        nodes = list(range(n)) if r.random() < .5 else r.sample(['a', 'b', 'c', 'd', 'e', 'f', 0, 1, 2], n)
        edges = [e for e in itertools.combinations(nodes, 2) if r.random() < .6]
        if r.random() < .3:
            edges = [tuple(reversed(e)) if r.random() < .5 else e for e in edges]; r.shuffle(edges)
        graph = (nodes, edges)
        vt = r.choice(['SPIN', 'BINARY'])
        vtxt = ','.join(lab(v) for v in nodes) or '-'
        etxt = ','.join(f'{lab(u)}~{lab(v)}' for u, v in edges) or '-'

        def emit(name, call, env, line_of, show, cls=None):
            site = f'generators.{name}'
            pre = HDR + ''.join(f'{k} = {v!r}\n' for k, v in env.items() if k not in ('G', 'np'))
            try:
                with warnings.catch_warnings():
                    warnings.simplefilter('ignore')
                    with recording() as rec:
                        out = eval(call, {'G': G, 'np': np, **env})
                    st = rec.stream()
            except Exception as e:  # noqa
                ctx.fail('property', site, 'raises', f'{call} with {env!r}: {type(e).__name__}: {e}', repro=pre + f'{call}\n')
                return
            ctx.tick('random-corr:' + name); ctx.case(('random-corr', name, call, repr(env)), nontrivial=bool(st))
            lines.append(line_of(','.join(rat(x) for x in st) or '-'))
            checks.append((site + ' vs Rnd (draws recorded)', cls or 'placement of the draws', show(out) + f' #{len(st)}',
                           pre + f'm = {call}\nprint(m)\n', False))
        lo = r.choice([-4.0, -3.0, 0.0, 1.0]); hi = lo + r.choice([1.0, 4.0, 8.0])
        env = dict(graph=graph, vt=vt, seed=seed)
        emit('uniform', f'G.uniform(graph, vt, low={lo!r}, high={hi!r}, seed=seed)', env, lambda s: f'rnd graph {vt} {vtxt} {etxt} {s}', lambda b: 'ok ' + canon_bqm(b))
        ilo = r.randint(-5, 3); ihi = ilo + r.randint(0, 6)
        emit('randint', f'G.randint(graph, vt, low={ilo}, high={ihi}, seed=seed)', env, lambda s: f'rnd graph {vt} {vtxt} {etxt} {s}', lambda b: 'ok ' + canon_bqm(b))
        rr = r.randint(1, 4)
        for name in ('ran_r', 'power_r'):
            emit(name, f'G.{name}({rr}, graph, seed=seed)', env, lambda s: f'rnd ranr {rr} {vtxt} {etxt} {s}', lambda b: 'ok ' + canon_bqm(b))
        pd = r.choice([0, .25, .5, 1])
        emit('doped', f'G.doped({pd!r}, graph, seed=seed)', env, lambda s: f'rnd doped {etxt} {s}', lambda b: 'ok ' + canon_bqm(b))
        m = r.randint(0, 8)
        envn = dict(nodes=nodes, vt=vt, seed=seed)
        emit('gnm_random_bqm', f'G.gnm_random_bqm(nodes, {m}, vt, random_state=np.random.RandomState(seed))', envn,
             lambda s: f'rnd gnm {vt} {vtxt} {m} {s}', lambda b: 'ok ' + canon_bqm(b), cls='pair selection')
        pp = r.choice([0, .25, .5, .75, 1])
        emit('gnp_random_bqm', f'G.gnp_random_bqm(nodes, {pp!r}, vt, random_state=np.random.RandomState(seed))', envn,
             lambda s: f'rnd gnp {vt} {vtxt} {rat(pp)} {s}', lambda b: 'ok ' + canon_bqm(b))
        ni = r.randint(0, 4); nb = r.randint(1, max(1, ni))
        vr = (r.randint(1, 10), r.randint(11, 40)); wr = (r.randint(1, 10), r.randint(11, 40))
        tr = r.choice([.5, .25, .75, 1.0])
        envk = dict(seed=seed)
        emit('random_knapsack', f'G.random_knapsack({ni}, seed=seed, value_range={vr!r}, weight_range={wr!r}, tightness_ratio={tr!r})', envk,
             lambda s: f'rnd knap {ni} {rat(tr)} {s}', canon_cqm)
        if ni:      # (no items, or more bins than items with a narrow weight range: `integers(cap_low, cap_high)` has an empty range and raises)
            emit('random_multi_knapsack', f'G.random_multi_knapsack({ni}, {nb}, seed=seed, value_range={vr!r}, weight_range={wr!r})', envk,
                 lambda s: f'rnd mknap {ni} {nb} {s}', canon_cqm)
        if ni:
            def binp_line(s, ni=ni):
                ws = [int(F(x)) for x in s.split(',')] if s != '-' else []
                return f'rnd binp {ni} {int(ni * np.mean(ws) / 5)} {s}'     # the capacity is computed in floating point by the code
            emit('random_bin_packing', f'G.random_bin_packing({ni}, seed=seed, weight_range={wr!r})', envk, binp_line, canon_cqm)
    # D39: the interactions of gnm_random_bqm must depend on the draws
    nn, mm = 6, 3
    sets = set()
    for sd in range(12):
        b = G.gnm_random_bqm(nn, mm, 'SPIN', random_state=sd)
        sets.add(frozenset(frozenset((u, v)) for u, v, _ in b.iter_quadratic()))
    ctx.tick('random:gnm:selection'); ctx.case(('random', 'gnm-selection', nn, mm), nontrivial=True)
    if len(sets) < 2:
        ctx.fail('property', 'generators.gnm_random_bqm', 'pair selection',
                 f'gnm_random_bqm({nn}, {mm}, "SPIN", random_state=s) has the same interactions {sorted(map(sorted, next(iter(sets))))!r} for every seed s = 0..11: the pairs are not drawn at random',
                 repro=HDR + f'sets = {{frozenset(frozenset((u, v)) for u, v, _ in G.gnm_random_bqm({nn}, {mm}, "SPIN", random_state=s).iter_quadratic()) for s in range(12)}}\nassert len(sets) > 1, sets\n')


# ------------------------------------------------------------------------------------ round 7: anti-crossing, frustrated loops, chimera anticluster, MIMO

def spin_energies(c, order):
    """energies of all 2^n spin assignments (bit i of the index = variable order[i], 0 -> -1, 1 -> +1); exact: the
    coefficients are small dyadic rationals, evaluated in float64"""
    lin, quad, off = c
    n = len(order)
    idx = {v: i for i, v in enumerate(order)}
    ar = np.arange(1 << n, dtype=np.int64)
    sp = [(((ar >> i) & 1) * 2 - 1).astype(np.float64) for i in range(n)]
    e = np.full(1 << n, float(off))
    for v, a in lin.items():
        if a:
            e += float(a) * sp[idx[v]]
    for (u, v), q in quad.items():
        if q:
            e += float(q) * sp[idx[u]] * sp[idx[v]]
    return e


def ac_cases(ctx, r, lines, checks):
    top = ctx.scale(14, 18)
    for name in ('anti_crossing_clique', 'anti_crossing_loops'):
        lo = 6 if name.endswith('clique') else 8
        for n in list(range(0, 22)) + [24, 28, 32, 40]:
            f = getattr(G, name)
            site = 'generators.' + name
            call = f'G.{name}({n})'
            try:
                b = f(n)
            except ValueError:
                b = None
            ctx.tick(f'ac:{name}' + (':raises' if b is None else '')); ctx.case(('ac', name, n), nontrivial=b is not None, sample=dict(call=call))
            # the documented argument range; for the two-loop model "number of variables" can only be met by multiples of 4
            valid = n % 2 == 0 and n >= lo and (name.endswith('clique') or n % 4 == 0)
            cls = 'argument validation' if (name.endswith('clique') or n % 4 == 0 or n % 2 or n < lo) else 'num_variables not a multiple of 4'
            if (b is None) == valid:
                what = (f'{call}: ' + ('refused' if b is None else f'accepted; the model has {b.num_variables} variables {sorted(b.variables)!r}, not {n}'))
                ctx.fail('property', site, cls, what,
                         repro=HDR + f'try:\n    b = {call}\nexcept ValueError:\n    b = None\n'
                         + (f'assert b is not None and b.num_variables == {n}\n' if valid else f'assert b is None, "accepted with %d variables, {n} requested" % b.num_variables\n'))
                if b is None:
                    continue
            if b is None:
                lines.append(f"{'acclique' if name.endswith('clique') else 'acloops'} {n}")
                checks.append((site + ' vs Gen.acClique/acLoops', 'refusal', 'err', HDR + f'{call}\n', False))
                continue
            c = coef(b)
            lin, quad, off = c
            bad = False
            src = HDR + f'b = {call}; n = {n}\n'
            if name.endswith('clique'):
                N = n // 2
                want_lin = {v: F(1 if v < N and v != 1 else 0 if v == 1 else -1) for v in range(n)}
                want_quad = {frozenset((u, v)): F(-1) for u in range(N) for v in range(u + 1, N)}
                want_quad.update({frozenset((v, v + N)): F(-1) for v in range(N)})
                got_quad = {frozenset(k): q for k, q in quad.items()}
                if b.vartype is not dimod.SPIN or lin != want_lin or got_quad != want_quad or off != 0 or len(got_quad) != len(quad):
                    bad = True
                    ctx.fail('property', site, 'documented biases', f'{call}: linear {lin} quadratic {quad} offset {off}; documented: ferromagnetic clique on [0, N), '
                             f'v ~ v+N ferromagnetic, +1 on the clique except variable 1, -1 on the attached variables',
                             repro=src + 'N = n // 2\nassert b.vartype is dimod.SPIN and b.offset == 0\n'
                             'assert {v: b.get_linear(v) for v in b.variables} == {v: (1 if v < N and v != 1 else 0 if v == 1 else -1) for v in range(n)}\n'
                             'assert {frozenset((u, v)): q for u, v, q in b.iter_quadratic()} == {**{frozenset((u, v)): -1 for u in range(N) for v in range(u + 1, N)}, **{frozenset((v, v + N)): -1 for v in range(N)}}\n')
            else:
                if b.vartype is not dimod.SPIN or sorted(b.variables) != list(range(b.num_variables)) or off != 0 or any(q != -1 for q in quad.values()):
                    bad = True
                    ctx.fail('property', site, 'variables / ferromagnetic couplers', f'{call}: variables {sorted(b.variables)!r} quadratic {quad} offset {off}',
                             repro=src + 'assert b.vartype is dimod.SPIN and sorted(b.variables) == list(range(b.num_variables)) and b.offset == 0 and all(q == -1 for q in b.quadratic.values())\n')
            # "The ground state of this problem is therefore +1 for all variables" / "a unique ground state of all +1s": enumeration
            if not bad and b.num_variables <= top:
                order = sorted(b.variables)
                e = spin_energies(c, order)
                allp = (1 << len(order)) - 1
                mn = e.min()
                if e[allp] != mn or int((e == mn).sum()) != 1:
                    w = int(np.argmin(e))
                    ctx.fail('property', site, 'ground state', f'{call}: all +1 has energy {e[allp]}, the minimum is {mn} (e.g. at spins {[(w >> i & 1) * 2 - 1 for i in range(len(order))]}), attained {int((e == mn).sum())} times',
                             repro=src + 'ss = dimod.ExactSolver().sample(b); lowest = ss.lowest()\nassert len(lowest) == 1 and all(v == 1 for v in lowest.first.sample.values()), lowest\n')
                    bad = True
                elif name.endswith('loops'):
                    # "a degenerate first excited state, centered at all -1s"
                    lv = np.unique(e)
                    first = e == lv[1]
                    if not first[0] or int(first.sum()) < 2:
                        bad = True
                        ctx.fail('property', site, 'first excited state', f'{call}: the first excited level {lv[1]} has {int(first.sum())} states, all -1 has energy {e[0]}; documented: degenerate, centred at all -1',
                                 repro=src + 'ss = dimod.ExactSolver().sample(b); es = sorted(set(ss.record.energy))\nassert b.energy({v: -1 for v in b.variables}) == es[1] and (ss.record.energy == es[1]).sum() > 1\n')
                ctx.tick(f'ac:{name}:ground-state-enumerated')
            lines.append(f"{'acclique' if name.endswith('clique') else 'acloops'} {n}")
            checks.append((site + ' vs Gen.acClique/acLoops', 'coefficients', 'ok ' + canon_bqm(b), src + 'print(b)\n', bad))


def fl_cases(ctx, r, lines, checks):
    import dimod.generators.fcl as fcl
    pool = ['a', 'b', 'c', 'd', 'e', 0, 1, 2, 3, ('t', 1)]
    for rep in range(ctx.scale(40, 800)):
        n = r.randint(3, 7)
        as_int = r.random() < .3
        nodes = list(range(n)) if as_int else r.sample(pool, n)
        if as_int:
            graph, edges = n, list(itertools.combinations(range(n), 2))
        else:
            edges = [(u, v) if r.random() < .5 else (v, u) for u, v in itertools.combinations(nodes, 2) if r.random() < .7]
            graph = (nodes, edges)
        num_cycles = r.randint(1, 4)
        R = r.choice([float('inf'), float('inf'), 1, 2, 3])
        plant = r.random() < .7
        seed = r.choice([0, 1, r.randrange(2 ** 31)])
        gauge = {v: r.choice([-1, 1]) for v in nodes} if r.random() < .25 else None
        short = r.random() < .2
        preds = (lambda c: len(c) <= 4,) if short else ()
        mal = r.random() < .06
        if mal:
            which = r.choice(['num_cycles', 'R', 'max_failed_cycles'])
        kw = dict(R=R, plant_solution=plant, seed=seed, cycle_predicates=preds)
        if gauge is not None:
            kw['planted_solution'] = gauge
        if mal:
            if which == 'num_cycles':
                num_cycles = r.choice([0, -1])
            else:
                kw[which] = r.choice([0, -2])
        site = 'generators.frustrated_loop'
        kwsrc = ', '.join(f'{k}={("(lambda c: len(c) <= 4,)" if v else "()") if k == "cycle_predicates" else repr(v) if v != float("inf") else "float(\"inf\")"}' for k, v in kw.items())
        call = f'G.frustrated_loop({graph!r}, {num_cycles}, {kwsrc})'
        rec_cycles = []
        orig = fcl._random_cycle

        rc_calls = []

        def wrapped(adj, rs):
            pos0 = len(rs.log)
            order = [(v, list(adj[v])) for v in adj]          # dict order and set orders as iterated (unchanged during the call)
            cyc = orig(adj, rs)
            rec_cycles.append((None if cyc is None else list(cyc), len(rs.log)))
            rc_calls.append((order, list(rs.log[pos0:]), None if cyc is None else list(cyc)))
            return cyc
        out = err = None
        try:
            fcl._random_cycle = wrapped
            with warnings.catch_warnings():
                warnings.simplefilter('ignore')
                with recording() as rec:
                    out = G.frustrated_loop(graph, num_cycles, **kw)
                log = rec.stream()
        except (ValueError, RuntimeError) as e:
            err = e
        finally:
            fcl._random_cycle = orig
        # the random walk itself: `_random_cycle` as coded vs Gen.randomCycle on the recorded iteration orders and draws
        for order, draws, cyc in rc_calls[:ctx.scale(3, 12)]:
            ctx.tick('fl:walk:' + ('dead-end' if cyc is None else f'cycle{min(len(cyc), 6)}'))
            lines.append('rcyc ' + (';'.join(f"{lab(v)}>{','.join(lab(u) for u in ns) or '-'}" for v, ns in order) or '-') + ' ' + (','.join(str(d) for d in draws) or '-'))
            checks.append(('generators.frustrated_loop (_random_cycle) vs Gen.randomCycle', 'random walk', 'none' if cyc is None else 'ok ' + ','.join(lab(v) for v in cyc),
                           HDR + f'# _random_cycle on adj (iteration orders) {order!r} with draws {draws!r} returned {cyc!r}\n', False))
            if cyc is not None:
                nbrs = dict(order)
                okc = (len(cyc) >= 3 and len(set(cyc)) == len(cyc) and all(cyc[(i + 1) % len(cyc)] in nbrs[cyc[i]] for i in range(len(cyc))))
                if not okc:
                    ctx.fail('property', 'generators.frustrated_loop', '_random_cycle: not a simple cycle of the graph', f'{call}: walk returned {cyc!r} on {order!r}',
                             repro=HDR + f'import dimod.generators.fcl as fcl\n# {call}: _random_cycle returned {cyc!r}\nassert False\n')
        ctx.tick('fl' + (':plant' if plant else ':unplanted') + (':gauge' if gauge else '') + (':R' if R != float('inf') else '') + (':predicate' if short else '')
                 + (f':raises-{type(err).__name__}' if err else ''))
        ctx.case(('fl', call), nontrivial=out is not None, sample=dict(call=call))
        pre = HDR + 'import warnings; warnings.simplefilter("ignore")\n'
        if mal or isinstance(err, ValueError):
            if not (mal and isinstance(err, ValueError)):
                ctx.fail('property', site, 'argument validation', f'{call}: ' + (f'refused: {err}' if err else 'accepted'),
                         repro=pre + f'try:\n    {call}\n    ok = True\nexcept ValueError:\n    ok = False\nassert ok == {not mal}\n')
            continue
        good = [(c, pos) for c, pos in rec_cycles if c is not None and all(p(c) for p in preds)]
        if err is not None:
            # RuntimeError is the documented outcome only when fewer good cycles than requested were found within max_failed_cycles failures
            if len(good) >= num_cycles or len(rec_cycles) - len(good) < 100:
                ctx.fail('property', site, 'raises', f'{call}: {err} although {len(good)} good cycles were drawn ({len(rec_cycles) - len(good)} failures)', repro=pre + call + '\n')
            continue
        b = out
        lin, quad, off = coef(b)
        adjset = {frozenset(e) for e in edges}
        bad = False

        def fail(cls, what, repro_tail):
            nonlocal bad
            bad = True
            ctx.fail('property', site, cls, f'{call}: {what}', repro=pre + f'b = {call}\n' + repro_tail)
        # the recorded loops: simple cycles of the graph, as many as requested
        cyc_ok = all(len(c) >= 3 and len(set(c)) == len(c) and all(frozenset((c[i - 1], c[i])) in adjset for i in range(len(c))) for c, _ in good)
        idxs = [log[pos] if plant else None for _, pos in good]
        if len(good) != num_cycles or not cyc_ok or (plant and any(not 0 <= i < len(c) for (c, _), i in zip(good, idxs))):
            fail('loops', f'the walk returned {[c for c, _ in good]!r} (draws {idxs}): not {num_cycles} simple cycles of the graph', 'assert False, "see the recorded cycles"\n')
            continue
        want = {}
        for (c, _), i in zip(good, idxs):
            L = len(c)
            afm = (c[i - 1], c[i]) if plant else (c[-1], c[0])       # exactly one anti-ferromagnetic coupler per loop
            for k in range(L):
                e = frozenset((c[k - 1], c[k]))
                want[e] = want.get(e, 0) + (1 if e == frozenset(afm) else -1)
        if gauge is not None:
            want = {e: q * gauge[tuple(e)[0]] * gauge[tuple(e)[1]] for e, q in want.items()}
        got = {frozenset(k): q for k, q in quad.items()}
        bound = -sum(len(c) - 2 for c, _ in good)
        if (b.vartype is not dimod.SPIN or set(b.variables) != set(nodes) or len(b.variables) != len(nodes) or any(lin.values()) or off != 0 or set(got) != adjset
                or any(got[e] != want.get(e, 0) for e in got)):
            fail('sum of frustrated loops', f'loops {[c for c, _ in good]!r} with anti-ferromagnetic positions {idxs}: couplings {quad}, expected {want}',
                 'assert False, "couplings are not the sum of the drawn loops with one AFM edge each"\n')
        elif R != float('inf') and any(abs(q) > R for q in got.values()):
            fail('R', f'an interaction exceeds R={R}: {quad}', f'assert all(abs(q) <= {R} for q in b.quadratic.values())\n')
        else:
            e = spin_energies((lin, quad, off), nodes)
            state = gauge or {v: 1 for v in nodes}
            ip = sum(1 << k for k, v in enumerate(nodes) if state[v] == 1)
            # every loop is frustrated: no state is below -(L-2) per loop; with a planted solution that state attains it
            if e.min() < bound or (plant and (e[ip] != bound or e[ip] != e.min())):
                fail('planted ground state', f'loops {[c for c, _ in good]!r}: minimum energy {e.min()}, planted state {e[ip]}, -sum(L-2) = {bound}',
                     f'ss = dimod.ExactSolver().sample(b)\nstate = {state!r}\nassert b.energy(state) == ss.first.energy\n')
        ctxt = ';'.join(','.join(lab(v) for v in c) + '@' + ('-' if i is None else str(i)) for (c, _), i in zip(good, idxs)) or '-'
        lines.append(f"fl {','.join(lab(v) for v in nodes)} {','.join(f'{lab(u)}~{lab(v)}' for u, v in edges) or '-'} {ctxt} "
                     + ('-' if gauge is None else ','.join(f'{lab(v)}={s}' for v, s in gauge.items())))
        checks.append((site + ' vs Gen.frustratedLoop (loops drawn: recorded)', 'interactions of the drawn loops', 'ok ' + canon_bqm(b), pre + f'print({call})\n', bad))


def chimera_lattice(m, n, t):
    """Chimera(m, n, t) from its definition: node ((i, j), u, k) has index ((i*n + j)*2 + u)*t + k; inside a tile every
    shore-0 node meets every shore-1 node; shore-0 nodes continue vertically, shore-1 nodes horizontally"""
    ix = lambda i, j, u, k: ((i * n + j) * 2 + u) * t + k   # noqa: E731
    tile = {frozenset((ix(i, j, 0, a), ix(i, j, 1, b))) for i in range(m) for j in range(n) for a in range(t) for b in range(t)}
    inter = {frozenset((ix(i, j, 0, k), ix(i + 1, j, 0, k))) for i in range(m - 1) for j in range(n) for k in range(t)}
    inter |= {frozenset((ix(i, j, 1, k), ix(i, j + 1, 1, k))) for i in range(m) for j in range(n - 1) for k in range(t)}
    return tile, inter


def chimera_cases(ctx, r, lines, checks):
    from dimod.generators.chimera import chimera_anticluster
    for rep in range(ctx.scale(40, 700)):
        m = r.randint(0, 3); n = r.choice([None, r.randint(0, 3)]); t = r.choice([0, 1, 2, 2, 3, 4])
        nn = m if n is None else n
        if m * nn * t * 2 > 48:
            t = 1
        mult = r.choice([F(3), F(3), F(2), F(1, 2), F(-3, 2), F(1)])
        seed = r.choice([0, 1, r.randrange(2 ** 31)])
        tile, inter = chimera_lattice(m, nn, t)
        alle = sorted(map(sorted, tile | inter))
        sub = None; mal = None
        k = r.random()
        if k < .45 and m * nn * t:
            nodes = [v for v in range(m * nn * t * 2) if r.random() < .7]; r.shuffle(nodes)
            edges = [tuple(e) if r.random() < .5 else (e[1], e[0]) for e in alle if e[0] in nodes and e[1] in nodes and r.random() < .7]
            kk = r.random()
            if kk < .12:
                nodes.append(m * nn * t * 2 + r.randint(0, 3)); mal = 'subgraph node outside the lattice'
            elif kk < .24 and len(nodes) >= 2:
                cand = [(u, v) for u, v in itertools.combinations(sorted(nodes), 2) if frozenset((u, v)) not in tile | inter]
                if cand:
                    edges.append(r.choice(cand)); mal = 'subgraph edge outside the lattice'
            sub = (nodes, edges)
        args = f'{m}, {n}, {t}, multiplier={float(mult)!r}, subgraph={sub!r}, seed={seed}'
        call = f'chimera_anticluster({args})'
        site = 'generators.chimera_anticluster'
        pre = HDR + 'from dimod.generators.chimera import chimera_anticluster\n'
        err = None
        try:
            with warnings.catch_warnings():
                warnings.simplefilter('ignore')
                with recording() as rec:
                    b = chimera_anticluster(m, n, t, multiplier=float(mult), subgraph=sub, seed=seed)
                log = rec.stream()
        except ValueError as e:
            b, err, log = None, e, None
        ctx.tick('chimera' + (':subgraph' if sub else '') + (':raises' if b is None else '') + (':' + mal if mal else ''))
        ctx.case(('chimera', call), nontrivial=b is not None and bool(tile), sample=dict(call=call))
        if (b is None) != (mal is not None):
            ctx.fail('property', site, mal or 'valid arguments', f'{call}: ' + (f'refused: {err}' if b is None else 'accepted'),
                     repro=pre + f'try:\n    {call}\n    ok = True\nexcept ValueError:\n    ok = False\nassert ok == {mal is None}\n')
            continue
        if b is None:
            # (the draws happen before the refusal: take them from a run without subgraph)
            with recording() as rec:
                chimera_anticluster(m, n, t, multiplier=float(mult), seed=seed)
            log = rec.stream()
        bad = False
        if b is not None:
            lin, quad, off = coef(b)
            got = {frozenset(kk_): q for kk_, q in quad.items()}
            want_nodes = list(range(m * nn * t * 2)) if sub is None else sub[0]
            want_edges = (tile | inter) if sub is None else {frozenset(e) for e in sub[1]}
            with warnings.catch_warnings():
                warnings.simplefilter('ignore')
                full = chimera_anticluster(m, n, t, multiplier=float(mult), seed=seed)
            fq = {frozenset((u, v)): fr(q) for u, v, q in full.iter_quadratic()}
            if (b.vartype is not dimod.SPIN or list(b.variables) != want_nodes or any(lin.values()) or off != 0 or set(got) != want_edges
                    or any((abs(q) != 1) if e in tile else (q not in (mult, -mult)) for e, q in got.items()) or any(got[e] != fq[e] for e in got)
                    or len(log) != len(tile | inter) or any(x not in (0, 1) for x in log)):
                bad = True
                ctx.fail('property', site, 'anticluster structure', f'{call}: variables {list(b.variables)!r} couplings {quad}; documented: +-1 inside a tile, +-multiplier between tiles, '
                         f'exactly the edges of Chimera({m}, {nn}, {t})' + (' restricted to the subgraph, with the couplings of the full lattice for this seed' if sub else ''),
                         repro=pre + f'b = {call}\nm, n, t, mult = {m}, {nn}, {t}, {float(mult)!r}\n'
                         'ix = lambda i, j, u, k: ((i*n + j)*2 + u)*t + k\n'
                         'tile = {frozenset((ix(i, j, 0, a), ix(i, j, 1, c))) for i in range(m) for j in range(n) for a in range(t) for c in range(t)}\n'
                         'inter = {frozenset((ix(i, j, 0, k), ix(i+1, j, 0, k))) for i in range(m-1) for j in range(n) for k in range(t)} | {frozenset((ix(i, j, 1, k), ix(i, j+1, 1, k))) for i in range(m) for j in range(n-1) for k in range(t)}\n'
                         f'sub = {sub!r}\n'
                         'got = {frozenset((u, v)): q for u, v, q in b.iter_quadratic()}\n'
                         'assert set(got) == ((tile | inter) if sub is None else {frozenset(e) for e in sub[1]})\n'
                         'assert all(abs(q) == 1 if e in tile else abs(q) == abs(mult) for e, q in got.items()) and not any(b.linear.values()) and b.offset == 0\n')
        lines.append(f"chim {m} {nn} {t} {rat(mult)} " + ('none -' if sub is None else f"{','.join(lab(v) for v in sub[0]) or '-'} {','.join(f'{lab(u)}~{lab(v)}' for u, v in sub[1]) or '-'}")
                     + ' ' + (','.join(str(int(x)) for x in log) or '-'))
        checks.append((site + ' vs Gen.chimeraAnticluster (draws recorded)', 'placement of the draws' if b is not None else 'refusal', 'err' if b is None else 'ok ' + canon_bqm(b), pre + f'print({call})\n', bad))


def mimo_cases(ctx, r, lines, checks):
    from dimod.generators.wireless import mimo
    site = 'generators.mimo'
    pre = HDR + 'from dimod.generators.wireless import mimo\n'
    for rep in range(ctx.scale(40, 700)):
        nt = r.randint(1, 5); nr = r.randint(1, 4)
        if r.random() < .55:
            # given (y, F), real, BPSK: energy == ||y - F s||^2 at every spin vector
            Fm = [[F(r.randint(-8, 8), r.choice([1, 1, 2, 4])) for _ in range(nt)] for _ in range(nr)]
            y = [F(r.randint(-12, 12), r.choice([1, 2, 4])) for _ in range(nr)]
            mal = r.random() < .08
            if mal:
                y = y + [F(1)]
            as_col = r.random() < .5
            ysrc = f'np.array({[[float(v)] for v in y]!r})' if as_col else f'np.array({[float(v) for v in y]!r})'
            call = f'mimo("BPSK", {ysrc}, np.array({[[float(v) for v in row] for row in Fm]!r}))'
            try:
                with warnings.catch_warnings():
                    warnings.simplefilter('ignore')
                    b = eval(call, {'mimo': mimo, 'np': np})
            except ValueError:
                b = None
            ctx.tick('mimo:given' + (':raises' if b is None else '')); ctx.case(('mimo', call), nontrivial=b is not None, sample=dict(call=call))
            if (b is None) != mal:
                ctx.fail('property', site, 'shape mismatch' if mal else 'valid arguments', f'{call}: ' + ('refused' if b is None else 'accepted'),
                         repro=pre + f'try:\n    {call}\n    ok = True\nexcept ValueError:\n    ok = False\nassert ok == {not mal}\n')
                continue
            src = (pre + f'b = {call}\ny = {[str(v) for v in y]!r}; Fm = {[[str(v) for v in row] for row in Fm]!r}\nc = coef(b)\n'
                   'for s in itertools.product((-1, 1), repeat=len(Fm[0])):\n'
                   '    want = sum((F(y[k]) - sum(F(Fm[k][i]) * s[i] for i in range(len(s))))**2 for k in range(len(Fm)))\n'
                   '    assert en(c, dict(enumerate(s))) == want, (s, en(c, dict(enumerate(s))), want)\n')
            bad = False
            if b is not None:
                c = coef(b)
                if b.vartype is not dimod.SPIN or list(b.variables) != list(range(nt)):
                    bad = True
                    ctx.fail('property', site, 'variables', f'{call}: {b.vartype.name} {list(b.variables)!r}', repro=src)
                for s in itertools.product((-1, 1), repeat=nt) if not bad else ():
                    want = sum((y[k] - sum(Fm[k][i] * s[i] for i in range(nt))) ** 2 for k in range(nr))
                    got = energy(c, dict(enumerate(s)))
                    if got != want:
                        bad = True
                        ctx.fail('property', site, 'BPSK, real channel: energy vs ||y - F v||^2', f'{call}: at {s} energy {got}, ||y - F s||^2 = {want}', repro=src)
                        break
            lines.append(f"mimo {nt} {','.join(map(rat, y))} {';'.join(','.join(map(rat, row)) for row in Fm)}")
            checks.append((site + ' vs Gen.mimoBpsk', 'given y and F', 'err' if b is None else 'ok ' + canon_bqm(b), src, bad))
        else:
            seed = r.choice([0, 1, r.randrange(2 ** 31)])
            call = f'mimo("BPSK", num_transmitters={nt}, num_receivers={nr}, F_distribution=("binary", "real"), seed={seed})'
            with warnings.catch_warnings():
                warnings.simplefilter('ignore')
                with recording() as rec:
                    b = eval(call, {'mimo': mimo, 'np': np})
                log = rec.stream()
            ctx.tick('mimo:binary-channel'); ctx.case(('mimo', call), nontrivial=True, sample=dict(call=call))
            c = coef(b)
            bad = False
            src = pre + f'b = {call}\nlowest = dimod.ExactSolver().sample(b).first.energy\nassert lowest == 0, lowest   # no noise: the transmitted symbols have ||y - F v||^2 = 0\n'
            if len(log) != nr * nt + nt or any(x not in (0, 1) for x in log[:nr * nt]) or any(log[nr * nt:]) or b.vartype is not dimod.SPIN or list(b.variables) != list(range(nt)):
                bad = True
                ctx.fail('property', site, 'draws', f'{call}: recorded draws {log!r}, variables {list(b.variables)!r}', repro=src)
            else:
                Fm = [[1 - 2 * log[k * nt + i] for i in range(nt)] for k in range(nr)]
                v = [1 for x in log[nr * nt:]]     # BPSK: "by default, symbols are chosen for all users as 1" (the only amplitude)
                yv = [sum(Fm[k][i] * v[i] for i in range(nt)) for k in range(nr)]
                for s in itertools.product((-1, 1), repeat=nt):
                    want = sum((yv[k] - sum(Fm[k][i] * s[i] for i in range(nt))) ** 2 for k in range(nr))
                    got = energy(c, dict(enumerate(s)))
                    if got != want or got < 0:
                        bad = True
                        ctx.fail('property', site, 'BPSK, binary real channel: energy vs ||F v - F s||^2', f'{call}: channel {Fm} symbols {v}: at {s} energy {got}, expected {want}', repro=src)
                        break
            lines.append(f"mimob {nr} {nt} {','.join(str(int(x)) for x in log) or '-'}")
            checks.append((site + ' vs Gen.mimoBinary (draws recorded)', 'channel and symbols drawn', 'ok ' + canon_bqm(b), src, bad))


def comp_cases(ctx, r, lines, checks):
    """coordinated_multipoint on small lattices, BPSK, binary real channel, no noise: energy == ||F·1 - F·s||^2 with
    F = (drawn ±1) * attenuation, attenuation 1 for a station's own and its neighbours' transmitters"""
    import networkx as nx
    from dimod.generators.wireless import coordinated_multipoint
    site = 'generators.coordinated_multipoint'
    pre = HDR + 'import networkx as nx\nfrom dimod.generators.wireless import coordinated_multipoint\n'
    for rep in range(ctx.scale(16, 300)):
        n = r.randint(1, 4)
        edges = [e for e in itertools.combinations(range(n), 2) if r.random() < .6]
        per_node = r.random() < .5
        seed = r.choice([0, 1, r.randrange(2 ** 31)])
        g = nx.Graph(); g.add_nodes_from(range(n)); g.add_edges_from(edges)
        gsrc = f'g = nx.Graph(); g.add_nodes_from(range({n})); g.add_edges_from({edges!r})\n'
        if per_node:
            ntx = {v: r.randint(1, 2) for v in range(n)}; nrx = {v: r.randint(1, 2) for v in range(n)}
            if sum(ntx.values()) > 6:
                ntx = {v: 1 for v in range(n)}
            nx.set_node_attributes(g, values=ntx, name='num_transmitters'); nx.set_node_attributes(g, values=nrx, name='num_receivers')
            gsrc += f'nx.set_node_attributes(g, values={ntx!r}, name="num_transmitters"); nx.set_node_attributes(g, values={nrx!r}, name="num_receivers")\n'
        else:
            ntx = {v: 1 for v in range(n)}; nrx = {v: 1 for v in range(n)}
        # attenuation from the documented geometry: receiver of station a hears the transmitters of a and of a's neighbours
        tx_of = [v for v in range(n) for _ in range(ntx[v])]; rx_of = [v for v in range(n) for _ in range(nrx[v])]
        A = [[1 if (a == b or g.has_edge(a, b)) else 0 for b in tx_of] for a in rx_of]
        nr_, nt_ = len(rx_of), len(tx_of)
        call = 'coordinated_multipoint(g, "BPSK", F_distribution=("binary", "real"), seed=%d)' % seed
        with warnings.catch_warnings():
            warnings.simplefilter('ignore')
            with recording() as rec:
                b = coordinated_multipoint(g, 'BPSK', F_distribution=('binary', 'real'), seed=seed)
            log = rec.stream()
        ctx.tick('comp' + (':per-node' if per_node else ':uniform')); ctx.case(('comp', gsrc, seed), nontrivial=True, sample=dict(call=gsrc + call))
        src = pre + gsrc + f'b = {call}\nassert dimod.ExactSolver().sample(b).first.energy == 0 and b.energy({{v: 1 for v in b.variables}}) == 0\n'
        bad = False
        c = coef(b)
        if len(log) != nr_ * nt_ + nt_ or any(x not in (0, 1) for x in log[:nr_ * nt_]) or any(log[nr_ * nt_:]) or b.vartype is not dimod.SPIN or list(b.variables) != list(range(nt_)):
            bad = True
            ctx.fail('property', site, 'draws / variables', f'{gsrc}{call}: recorded draws {log!r}, variables {list(b.variables)!r}, expected {nr_} receivers x {nt_} transmitters', repro=src)
        else:
            Fm = [[(1 - 2 * log[k * nt_ + i]) * A[k][i] for i in range(nt_)] for k in range(nr_)]
            for s_ in itertools.product((-1, 1), repeat=nt_):
                want = sum((sum(Fm[k][i] * (1 - s_[i]) for i in range(nt_))) ** 2 for k in range(nr_))
                got = energy(c, dict(enumerate(s_)))
                if got != want:
                    bad = True
                    ctx.fail('property', site, 'BPSK, binary real channel: energy vs ||F v - F s||^2', f'{gsrc}{call}: channel {Fm}: at {s_} energy {got}, expected {want}', repro=src)
                    break
        lines.append(f"comp {nr_} {nt_} {';'.join(','.join(map(str, row)) for row in A)} {','.join(str(int(x)) for x in log) or '-'}")
        checks.append((site + ' vs Gen.compBinary (draws recorded)', 'attenuated channel', 'ok ' + canon_bqm(b), src, bad))


def qpsk_cases(ctx, r, lines, checks):
    """mimo('QPSK', y, F): "bits are encoded as a real vector concatenated with an imaginary vector": 2·nt spin variables,
    energy == ||y - F (p + i q)||^2 with p = s[:nt], q = s[nt:]; real-valued data included (imaginary parts all 0)"""
    from dimod.generators.wireless import mimo
    site = 'generators.mimo'
    pre = HDR + 'from dimod.generators.wireless import mimo\n'
    for rep in range(ctx.scale(30, 500)):
        nt = r.randint(1, 3); nr = r.randint(1, 3)
        kind = r.choice(['complex', 'complex', 'real F', 'real y and F', 'y = F v, real F'])
        z = lambda: F(r.randint(-6, 6), r.choice([1, 1, 2]))   # noqa: E731
        Fr = [[z() for _ in range(nt)] for _ in range(nr)]
        Fi = [[z() if kind == 'complex' else F(0) for _ in range(nt)] for _ in range(nr)]
        if kind == 'y = F v, real F':
            # a noise-free signal of QPSK symbols ±1±i through a ±1 channel: y is real whenever the imaginary parts cancel
            Fr = [[F(r.choice([-1, 1])) for _ in range(nt)] for _ in range(nr)]
            p0 = [r.choice([-1, 1]) for _ in range(nt)]; q0 = [r.choice([-1, 1]) for _ in range(nt)]
            yr = [sum(Fr[k][i] * p0[i] for i in range(nt)) for k in range(nr)]; yi = [sum(Fr[k][i] * q0[i] for i in range(nt)) for k in range(nr)]
        else:
            yr = [z() for _ in range(nr)]; yi = [z() if kind != 'real y and F' else F(0) for _ in range(nr)]
        cplx = lambda a, b: complex(float(a), float(b))   # noqa: E731
        ysrc = f'np.array({[cplx(a, b) for a, b in zip(yr, yi)]!r})'
        Fsrc = f'np.array({[[cplx(a, b) for a, b in zip(ra, rb)] for ra, rb in zip(Fr, Fi)]!r})'
        call = f'mimo("QPSK", {ysrc}, {Fsrc})'
        with warnings.catch_warnings():
            warnings.simplefilter('ignore')
            b = eval(call, {'mimo': mimo, 'np': np})
        # F^dagger y and F^dagger F real (e.g. real-valued data, or a noise-free signal whose imaginary parts cancel)
        real_data = (all(sum(Fr[k][i] * yi[k] - Fi[k][i] * yr[k] for k in range(nr)) == 0 for i in range(nt))
                     and all(sum(Fr[k][i] * Fi[k][j] - Fi[k][i] * Fr[k][j] for k in range(nr)) == 0 for i in range(nt) for j in range(nt)))
        cls = 'QPSK, F^H y and F^H F real' if real_data else 'QPSK: energy vs ||y - F v||^2'
        ctx.tick('mimo:qpsk:' + kind + (':real-form' if real_data else '')); ctx.case(('qpsk', call), nontrivial=True, sample=dict(call=call))
        src = (pre + f'b = {call}\nnt = {nt}\nyr, yi, Fr, Fi = {[str(v) for v in yr]!r}, {[str(v) for v in yi]!r}, {[[str(v) for v in row] for row in Fr]!r}, {[[str(v) for v in row] for row in Fi]!r}\n'
               'assert list(b.variables) == list(range(2 * nt)), ("QPSK: the real parts of the symbols followed by the imaginary parts", list(b.variables))\n'
               'c = coef(b)\n'
               'for s in itertools.product((-1, 1), repeat=2 * nt):\n'
               '    p, q = s[:nt], s[nt:]\n'
               '    re = [F(yr[k]) - sum(F(Fr[k][i]) * p[i] - F(Fi[k][i]) * q[i] for i in range(nt)) for k in range(len(yr))]\n'
               '    im = [F(yi[k]) - sum(F(Fi[k][i]) * p[i] + F(Fr[k][i]) * q[i] for i in range(nt)) for k in range(len(yr))]\n'
               '    assert en(c, dict(enumerate(s))) == sum(a * a for a in re) + sum(a * a for a in im), s\n')
        bad = False
        c = coef(b)
        if b.vartype is not dimod.SPIN or list(b.variables) != list(range(2 * nt)):
            bad = True
            ctx.fail('property', site, cls, f'{call}: variables {list(b.variables)!r}; documented: the real parts of the {nt} symbols followed by their imaginary parts ({2 * nt} variables)', repro=src)
        for s_ in itertools.product((-1, 1), repeat=2 * nt) if not bad else ():
            p_, q_ = s_[:nt], s_[nt:]
            re = [yr[k] - sum(Fr[k][i] * p_[i] - Fi[k][i] * q_[i] for i in range(nt)) for k in range(nr)]
            im = [yi[k] - sum(Fi[k][i] * p_[i] + Fr[k][i] * q_[i] for i in range(nt)) for k in range(nr)]
            want = sum(a * a for a in re) + sum(a * a for a in im)
            got = energy(c, dict(enumerate(s_)))
            if got != want:
                bad = True
                ctx.fail('property', site, cls, f'{call}: at p={p_} q={q_} energy {got}, ||y - F (p + iq)||^2 = {want}', repro=src)
                break
        mt = lambda M: ';'.join(','.join(map(rat, row)) for row in M)   # noqa: E731
        lines.append(f"qpsk {nt} {','.join(map(rat, yr))} {','.join(map(rat, yi))} {mt(Fr)} {mt(Fi)}")
        checks.append((site + ' vs Gen.mimoQpsk', cls, 'ok ' + canon_bqm(b), src, False))     # the model follows the code in both branches


# ------------------------------------------------------------------------------------ argument forms: list vs every other documented form

def _forms(kind, value, r):
    """the other forms of an argument documented as Iterable / Collection / Sequence / ArrayLike / Mapping: a list of
    (class of the form, source text of an expression over the name `v` holding the list form).  Every expression builds a
    FRESH object, so one-shot iterators are new for every call."""
    out = []
    if kind == 'iterable':           # typing.Iterable: anything that can be iterated ONCE
        out += [('one-shot iterator', 'iter(v)'), ('one-shot iterator', '(x for x in v)'), ('one-shot iterator', 'map(lambda x: x, v)'),
                ('tuple', 'tuple(v)')]
        if value and all(isinstance(x, tuple) and len(x) == 2 for x in value):
            out += [('one-shot iterator', 'zip([a for a, _ in v], [b for _, b in v])')]
            try:
                if len({x[0] for x in value}) == len(value):
                    out += [('dict view', 'dict(v).items()')]
            except TypeError:
                pass
        elif value and len(set(map(repr, value))) == len(value):
            out += [('dict view', 'dict.fromkeys(v).keys()')]
    elif kind == 'collection':       # sized, iterable, container — re-iterable
        out += [('tuple', 'tuple(v)')]
        if len(set(map(repr, value))) == len(value):
            out += [('dict view', 'dict.fromkeys(v).keys()')]
        if value == list(range(len(value))):
            out += [('range', 'range(len(v))')]
    elif kind == 'sequence':
        out += [('tuple', 'tuple(v)')]
        if value == list(range(len(value))):
            out += [('range', 'range(len(v))')]
        if value and all(isinstance(x, str) and len(x) == 1 for x in value):
            out += [('str', '"".join(v)')]
    elif kind == 'array':
        out += [('tuple', 'tuple(tuple(x) if isinstance(x, list) else x for x in v)'), ('numpy array', 'np.array(v)'),
                ('numpy array', 'np.array(v, dtype=np.float32)')]
        flat = [y for x in value for y in (x if isinstance(x, list) else [x])]
        if all(float(y).is_integer() for y in flat):
            out += [('numpy array', 'np.array(v, dtype=np.int64)'), ('numpy array', 'np.array(v, dtype=np.int8)')]
    elif kind == 'mapping':
        out += [('Mapping that is not a dict', '__import__("types").MappingProxyType(dict(v))'),
                ('Mapping that is not a dict', '__import__("collections").ChainMap({}, dict(v))')]
    return out


# ------------------------------------------------------------------------------------ purity: arguments unchanged, second call equal

def _held_forms(kind, value):
    """forms of an argument that the CALLER keeps (so a change made by the generator is visible afterwards and in a second call):
    (class, expression over v).  Arrays: every dtype that holds the values exactly, writeable float64 first (np.asarray(x, dtype=float)
    returns the caller's own array exactly then)."""
    out = []
    if kind == 'array':
        flat = [y for x in value for y in (x if isinstance(x, list) else [x])]
        out += [('writeable float64 ndarray', 'np.array(v, dtype=np.float64)'), ('list', '[list(x) if isinstance(x, list) else x for x in v]'),
                ('tuple', 'tuple(tuple(x) if isinstance(x, list) else x for x in v)'),
                ('float32 ndarray', 'np.array(v, dtype=np.float32)'), ('float16 ndarray', 'np.array(v, dtype=np.float16)'),
                ('Fortran-ordered float64 ndarray', 'np.asfortranarray(np.array(v, dtype=np.float64))'),
                ('non-contiguous float64 view', 'np.repeat(np.array(v, dtype=np.float64), 2, axis=-1)[..., ::2]')]
        if all(float(y).is_integer() for y in flat):
            out += [(f'{dt} ndarray', f'np.array(v, dtype=np.{dt})') for dt in ('int64', 'int32', 'int16', 'int8')]
            if all(y >= 0 for y in flat):
                out += [('unsigned ndarray', f'np.array(v, dtype=np.{dt})') for dt in ('uint8', 'uint16', 'uint64')]
    elif kind == 'ndarray':              # documented as a NumPy array (wireless.py): numeric dtypes, layouts
        cplx = np.iscomplexobj(value) and bool(np.iscomplex(value).any())
        base = 'complex128' if cplx else 'float64'
        out += [(f'writeable {base} ndarray', f'np.array(v, dtype=np.{base})'), (f'Fortran-ordered {base} ndarray', f'np.asfortranarray(np.array(v, dtype=np.{base}))'),
                (f'non-contiguous {base} view', f'np.repeat(np.array(v, dtype=np.{base}), 2, axis=-1)[..., ::2]'),
                ('complex64 ndarray', 'np.array(v, dtype=np.complex64)')]
        if not cplx:
            out += [('writeable complex128 ndarray', 'np.array(v, dtype=np.complex128)'), ('float32 ndarray', 'np.array(v, dtype=np.float32)')]
            if all(float(y).is_integer() for y in np.real(value).ravel()):
                out += [(f'{dt} ndarray', f'np.array(np.real(v), dtype=np.{dt})') for dt in ('int64', 'int8')]
    elif kind in ('iterable', 'collection', 'sequence'):
        out += [('list', 'list(v)'), ('tuple', 'tuple(v)')]
        if kind == 'sequence':
            if value and all(isinstance(x, str) and len(x) == 1 for x in value):
                out += [('str', '"".join(v)')]
        elif value and all(isinstance(x, tuple) and len(x) == 2 for x in value):
            try:
                if len({x[0] for x in value}) == len(value):
                    out += [('dict view', 'dict(v).items()')]
            except TypeError:
                pass
        elif value and len(set(map(repr, value))) == len(value):
            out += [('dict view', 'dict.fromkeys(v).keys()')]
    elif kind == 'mapping':
        out += [('dict', 'dict(v)'), ('Mapping that is not a dict', '__import__("collections").ChainMap({}, dict(v))')]
    elif kind == 'nxgraph':           # v = (nodes, edges[, node attributes]): a networkx graph the caller keeps (GraphLike / `lattice`)
        out += [('networkx Graph', 'nxg(v)'), ('networkx Graph with node / edge / graph attributes', 'nxg(v, True)'), ('frozen networkx Graph', '__import__("networkx").freeze(nxg(v))')]
    elif kind == 'nxedges':           # the edges of a networkx graph: the EdgeView itself (documented usage `G.edges`)
        out += [('networkx EdgeView', 'nxg((sorted({x for e in v for x in e}, key=repr), v)).edges')]
    elif kind == 'nxnodes':
        out += [('networkx NodeView', 'nxg((v, [])).nodes')]
    return out


def nxg(v, attrs=False):
    import networkx as nx
    g = nx.Graph()
    g.add_nodes_from(v[0]); g.add_edges_from(v[1])
    for name, vals in (v[2] if len(v) > 2 else {}).items():
        nx.set_node_attributes(g, values=vals, name=name)
    if attrs:
        for i, n in enumerate(g.nodes): g.nodes[n]['weight'] = float(i)
        for i, e in enumerate(g.edges): g.edges[e]['bias'] = -1.0 - i
        g.graph['name'] = 'kept by the caller'
    return g


NXG_SRC = '''
def nxg(v, attrs=False):
    import networkx as nx
    g = nx.Graph()
    g.add_nodes_from(v[0]); g.add_edges_from(v[1])
    for name, vals in (v[2] if len(v) > 2 else {}).items():
        nx.set_node_attributes(g, values=vals, name=name)
    if attrs:
        for i, n in enumerate(g.nodes): g.nodes[n]['weight'] = float(i)
        for i, e in enumerate(g.edges): g.edges[e]['bias'] = -1.0 - i
        g.graph['name'] = 'kept by the caller'
    return g
'''
SNAP_SRC = r"""
def snap(o):
    # a value that is equal before and after iff the object (and what it holds) is unchanged, dtype / flags / order included
    import numpy as np, collections.abc as abc
    if isinstance(o, np.ndarray):
        return ('ndarray', o.dtype.str, o.shape, o.strides, bool(o.flags.writeable), repr(o.tolist()))
    if isinstance(o, (list, tuple)):
        return (type(o).__name__, [snap(x) for x in o])
    if hasattr(o, 'adj') and hasattr(o, 'nodes') and hasattr(o, 'graph'):      # a networkx graph: nodes, edges, all attribute dicts, in order
        return (type(o).__name__, repr(list(o.nodes(data=True))), repr(list(o.edges(data=True))), repr(dict(o.graph)), repr({n: list(o.adj[n]) for n in o.adj}))
    if type(o).__name__ in ('EdgeView', 'NodeView', 'EdgeDataView', 'NodeDataView'):
        return (type(o).__name__, repr(list(o)))
    if isinstance(o, (abc.KeysView, abc.ValuesView)):
        return (type(o).__name__, [snap(x) for x in o])
    if isinstance(o, abc.ItemsView):
        return (type(o).__name__, [(snap(k), snap(x)) for k, x in o])
    if isinstance(o, abc.Mapping):
        return (type(o).__name__, [(snap(k), snap(x)) for k, x in o.items()])
    return (type(o).__name__, repr(o))
"""
exec(SNAP_SRC)


def _same_model(a, b):
    if isinstance(a, dimod.ConstrainedQuadraticModel) or isinstance(b, dimod.ConstrainedQuadraticModel):
        return type(a) is type(b) and list(a.variables) == list(b.variables) and a.is_equal(b)
    return same_bqm(a, b)


def forms_cases(ctx, r):
    """every generator argument documented as an iterable / collection / sequence / array-like / mapping, fed in each other
    documented form (one-shot iterators, tuples, dict views, ranges, str, numpy arrays, non-dict mappings): the returned
    model must be the one of the list form (which the other case generators check against the documented relation)"""
    from dimod.generators.bpsp import binary_paint_shop_problem
    from dimod.generators.satisfiability import random_kmcsat
    from dimod.generators.chimera import chimera_anticluster
    from dimod.generators.wireless import mimo, coordinated_multipoint
    env0 = {'coordinated_multipoint': coordinated_multipoint, 'nxg': nxg, 'G': G, 'np': np, 'dimod': dimod, 'binary_paint_shop_problem': binary_paint_shop_problem, 'random_kmcsat': random_kmcsat,
            'chimera_anticluster': chimera_anticluster, 'mimo': mimo}
    imports = ('from dimod.generators.bpsp import binary_paint_shop_problem\nfrom dimod.generators.satisfiability import random_kmcsat\n'
               'from dimod.generators.chimera import chimera_anticluster\nfrom dimod.generators.wireless import mimo, coordinated_multipoint\nfrom numpy import array\n')

    def run_call(call, args, subst):
        """evaluate `call` (an expression over the argument names) with each name bound to its list form, except those in
        `subst` (name -> form expression over v)"""
        env = dict(env0)
        for name, val in args.items():
            env[name] = eval(subst[name], {'v': val, 'np': np}) if name in subst else val
        with warnings.catch_warnings():
            warnings.simplefilter('ignore')
            try:
                return eval(call, env), None
            except (ValueError, TypeError, RuntimeError, KeyError, IndexError, AttributeError) as e:
                return None, e

    def one(name, call, args, kinds):
        """args: name -> list form; kinds: name -> kind of the documented type (only these are varied)"""
        site = f'generators.{name}'
        ref, ref_err = run_call(call, args, {})
        pool = [(an, cls, expr) for an, kind in kinds.items() for cls, expr in _forms(kind, args[an], r)]
        if not pool:
            pure(name, call, args, kinds, ref, ref_err)
            return
        # every single-argument substitution of a one-shot form, and a random sample of the rest / of combinations
        chosen = [[t] for t in pool if t[1] == 'one-shot iterator']
        rest = [t for t in pool if t[1] != 'one-shot iterator']
        r.shuffle(rest)
        chosen += [[t] for t in rest[:ctx.scale(3, 12)]]
        if len(kinds) > 1:
            for _ in range(ctx.scale(2, 6)):
                combo = []
                for an in kinds:
                    opts = [t for t in pool if t[0] == an]
                    if opts and r.random() < .7:
                        combo.append(r.choice(opts))
                if len(combo) > 1:
                    chosen.append(combo)
        for combo in chosen:
            subst = {an: expr for an, _, expr in combo}
            got, err = run_call(call, args, subst)
            cls = '; '.join(f'{an} given as {c}' for an, c, _ in sorted(set((an, c, '') for an, c, _ in combo)))
            ctx.tick(f'forms:{name}:' + '+'.join(sorted(set(c for _, c, _ in combo))))
            ctx.case(('forms', name, call, repr(args), repr(subst)), nontrivial=ref is not None, sample=dict(call=call, forms=subst))
            ok = (got is None and ref is None) if (got is None or ref is None) else _same_model(ref, got)
            if not ok:
                binds = ''.join(f'{an}_list = {val!r}\n' for an, val in args.items())
                def bind(use_forms):
                    return ''.join(f'v = {an}_list; {an} = ' + (subst[an] if use_forms and an in subst else 'v') + '\n' for an in args)
                repro = (HDR + imports + binds + bind(False) + f'a = {call}\n' + bind(True) + f'b = {call}\n'
                         + 'same = (a.is_equal(b) if isinstance(a, dimod.ConstrainedQuadraticModel) else (a.vartype is b.vartype and list(a.variables) == list(b.variables) and coef(a) == coef(b)))\n'
                         + f'assert same, "the model depends on the form of the argument(s) {sorted(subst)}"\n')
                what = (f'{call} with {args!r}: ' + ', '.join(f'{an} = {expr}' for an, expr in subst.items()) + ': '
                        + (f'raises {type(err).__name__}: {err}' if got is None else f'accepted although the list form raises {type(ref_err).__name__}' if ref is None
                           else f'returns {coef(got) if not isinstance(got, dimod.ConstrainedQuadraticModel) else "a different CQM"}, the list form {coef(ref) if not isinstance(ref, dimod.ConstrainedQuadraticModel) else ""}'))
                ctx.fail('property', site, cls, what[:1500], repro=repro)
        pure(name, call, args, kinds, ref, ref_err)

    def pure(name, call, args, kinds, ref, ref_err):
        """the caller keeps the argument objects: they must be unchanged after the call (values, dtype, flags, order), a second call
        with the SAME objects must return the same model, and that model is the one of the list form"""
        site = f'generators.{name}'
        held = {an: _held_forms(kind, args[an]) for an, kind in kinds.items()}
        if not all(held.values()):
            return
        combos = [{an: fs[0] for an, fs in held.items()}]                                   # all writeable float64 / plain lists
        for an, fs in held.items():                                                         # every form of one argument, one at a time over the reps
            combos.append({a: (r.choice(fs) if a == an else r.choice(f2[:3])) for a, f2 in held.items()})
        for _ in range(ctx.scale(1, 6)):
            combos.append({an: r.choice(fs) for an, fs in held.items()})
        for combo in combos:
            env = dict(env0)
            with warnings.catch_warnings():
                warnings.simplefilter('ignore')
                for an, val in args.items():
                    env[an] = eval(combo[an][1], {'v': val, 'np': np, 'nxg': nxg}) if an in combo else val
            before = {an: snap(env[an]) for an in args}
            outs, after = [], dict(before)
            for _k in range(2):
                with warnings.catch_warnings():
                    warnings.simplefilter('ignore')
                    try:
                        outs.append(eval(call, env))
                    except (ValueError, TypeError, RuntimeError, KeyError, IndexError, AttributeError) as e:
                        outs.append(e)
                for an in args:                       # after EVERY call (two sign flips cancel)
                    if after[an] == before[an]:
                        after[an] = snap(env[an])
            forms_txt = ', '.join(f'{an} = {combo[an][1]}' for an in combo)
            ctx.tick(f'pure:{name}:' + '+'.join(sorted(set(c for c, _ in combo.values()))))
            ctx.case(('pure', name, call, repr(args), forms_txt), nontrivial=ref is not None, sample=dict(call=call, forms=forms_txt))
            binds = ''.join(f'{an}_list = {val!r}\n' for an, val in args.items())
            bind = ''.join(f'v = {an}_list; {an} = ' + (combo[an][1] if an in combo else 'v') + '\n' for an in args)
            model_eq = ('def same(a, b): return (a.is_equal(b) and list(a.variables) == list(b.variables)) if isinstance(a, dimod.ConstrainedQuadraticModel) else '
                        '(a.vartype is b.vartype and list(a.variables) == list(b.variables) and coef(a) == coef(b))\n')
            head = HDR + imports + SNAP_SRC + NXG_SRC + model_eq + binds
            changed = [an for an in args if before[an] != after[an]]
            m1, m2 = outs
            def same(a, b):
                if isinstance(a, Exception) or isinstance(b, Exception):
                    return isinstance(a, Exception) and isinstance(b, Exception) and type(a) is type(b)
                return _same_model(a, b)
            if changed:
                an = changed[0]
                ctx.fail('property', site, f'{an} given as {combo[an][0] if an in combo else "list"}: the argument is changed by the call',
                         f'{call} with {forms_txt} of {args!r}: {an} before {before[an]!r:.300}, after {after[an]!r:.300}',
                         repro=head + bind + f'before = snap({an})\n{call}\nassert snap({an}) == before, "{call.split("(")[0]} changed its argument {an}"\n')
            elif not same(m1, m2):
                cls = '; '.join(f'{an} given as {c}' for an, (c, _) in sorted(combo.items()))
                ctx.fail('property', site, cls + ': second call with the same argument objects differs',
                         f'{call} with {forms_txt} of {args!r}: first {m1 if isinstance(m1, Exception) else (coef(m1) if not isinstance(m1, dimod.ConstrainedQuadraticModel) else canon_cqm(m1))!r:.500}, '
                         f'second {m2 if isinstance(m2, Exception) else (coef(m2) if not isinstance(m2, dimod.ConstrainedQuadraticModel) else canon_cqm(m2))!r:.500}',
                         repro=head + bind + f'a = {call}\nb = {call}\nassert same(a, b), "two calls with the same argument objects give different models"\n')
            elif not any(kinds[an].startswith('nx') for an in combo) and not same(m1, ref if ref is not None else ref_err):
                bad = [an for an in combo if combo[an][0] not in ('list',)]
                alone = []              # the arguments whose form alone (fresh object, the others as lists) already changes the model
                for an in bad:
                    got1, err1 = run_call(call, args, {an: combo[an][1]})
                    if not same(got1 if got1 is not None else err1, ref if ref is not None else ref_err):
                        alone.append(an)
                bad = alone or bad
                cls = '; '.join(f'{an} given as {combo[an][0]}' for an in sorted(bad))
                ctx.fail('property', site, cls,
                         f'{call} with {forms_txt} of {args!r}: ' + (f'raises {type(m1).__name__}: {m1}' if isinstance(m1, Exception) else 'accepted although the list form raises' if ref is None
                                                                       else f'returns {coef(m1) if not isinstance(m1, dimod.ConstrainedQuadraticModel) else canon_cqm(m1)!r:.500}, the list form {coef(ref) if not isinstance(ref, dimod.ConstrainedQuadraticModel) else canon_cqm(ref)!r:.500}'),
                         repro=head + ''.join(f'v = {an}_list; {an} = v\n' for an in args) + f'a = {call}\n' + bind + f'b = {call}\nassert same(a, b), "the model depends on the form of the argument(s) {sorted(bad)}"\n')

    pool = ['a', 'b', 'c', 'd', 0, 1, 2, 3, ('t', 1)]
    for rep in range(ctx.scale(10, 150)):
        n = r.randint(2, 5)
        nodes = r.sample(pool, n)
        edges = [(u, v) if r.random() < .5 else (v, u) for u, v in itertools.combinations(nodes, 2) if r.random() < .6] or [(nodes[0], nodes[1])]
        extra = [v for v in pool if v not in nodes][:1]
        some_nodes = [v for v in nodes + extra if r.random() < .8]
        weighted = [(v, r.randint(1, 16) / 8) for v in nodes + extra if r.random() < .7]
        one('independent_set', 'G.independent_set(edges, nodes)', dict(edges=edges, nodes=some_nodes), dict(edges='iterable', nodes='iterable'))
        one('maximum_independent_set', 'G.maximum_independent_set(edges, nodes, strength=2.5)', dict(edges=edges, nodes=some_nodes), dict(edges='iterable', nodes='iterable'))
        one('maximum_weight_independent_set', 'G.maximum_weight_independent_set(edges, nodes)', dict(edges=edges, nodes=weighted), dict(edges='iterable', nodes='iterable'))
        one('maximum_weight_independent_set', 'G.maximum_weight_independent_set(edges, nodes, strength=3.0, strength_multiplier=1.5)', dict(edges=edges, nodes=weighted), dict(edges='iterable', nodes='iterable'))
        labels = list(range(n)) if r.random() < .4 else nodes
        k = r.randint(0, n)
        vt = r.choice(['BINARY', 'SPIN'])
        one('combinations', f'G.combinations(n, {k}, strength=1.5, vartype={vt!r})', dict(n=labels), dict(n='collection'))
        # array-likes
        ni = r.randint(1, 3)
        values = [r.randint(0, 40) / 4 for _ in range(ni)]; weights = [r.randint(1, 24) / 4 for _ in range(ni)]
        if r.random() < .5:
            values = [float(int(x)) for x in values]; weights = [float(max(1, int(x))) for x in weights]
        caps = [r.randint(1, 32) / 4 for _ in range(r.randint(1, 2))]
        P = [[0.0] * ni for _ in range(ni)]
        for i in range(ni):
            for j in range(i + 1, ni):
                P[i][j] = P[j][i] = float(r.randint(0, 6))
        one('knapsack', 'G.knapsack(values, weights, 4.5)', dict(values=values, weights=weights), dict(values='array', weights='array'))
        one('multi_knapsack', 'G.multi_knapsack(values, weights, capacities)', dict(values=values, weights=weights, capacities=caps), dict(values='array', weights='array', capacities='array'))
        one('bin_packing', 'G.bin_packing(weights, 6.0)', dict(weights=weights), dict(weights='array'))
        one('quadratic_knapsack', 'G.quadratic_knapsack(values, weights, profits, 4.5)', dict(values=values, weights=weights, profits=P), dict(values='array', weights='array', profits='array'))
        one('quadratic_multi_knapsack', 'G.quadratic_multi_knapsack(values, weights, profits, capacities)', dict(values=values, weights=weights, profits=P, capacities=caps),
            dict(values='array', weights='array', profits='array', capacities='array'))
        nq = r.randint(1, 3)
        D = [[float(r.randint(0, 7)) if i != j else 0.0 for j in range(nq)] for i in range(nq)]
        Fl = [[float(r.randint(0, 7)) if i != j else 0.0 for j in range(nq)] for i in range(nq)]
        one('quadratic_assignment', 'G.quadratic_assignment(distance_matrix, flow_matrix)', dict(distance_matrix=D, flow_matrix=Fl), dict(distance_matrix='array', flow_matrix='array'))
        # sequences
        cars = r.sample(['a', 'b', 'c', 'd'], r.randint(1, 4)) if r.random() < .6 else list(range(r.randint(1, 4)))
        seq = cars * 2; r.shuffle(seq)
        one('binary_paint_shop_problem', 'binary_paint_shop_problem(car_sequence)', dict(car_sequence=seq), dict(car_sequence='sequence'))
        seed = r.randrange(2 ** 31)
        vs = r.choice([list(range(n + 1)), r.sample(['a', 'b', 'c', 'd', 'e', 'f'], n + 1)])
        one('random_kmcsat', f'random_kmcsat(variables, 3, {r.randint(1, 4)}, seed={seed})', dict(variables=vs), dict(variables='sequence'))
        one('random_nae3sat', f'G.random_nae3sat(variables, {r.randint(1, 4)}, seed={seed})', dict(variables=vs), dict(variables='sequence'))
        one('gnm_random_bqm', f'G.gnm_random_bqm(variables, {r.randint(0, 6)}, "SPIN", random_state={seed})', dict(variables=vs), dict(variables='sequence'))
        one('gnp_random_bqm', f'G.gnp_random_bqm(n, 0.5, "BINARY", random_state={seed})', dict(n=vs), dict(n='sequence'))
        # graphs given as (nodes, edges): both are Collections
        gnodes = list(range(n)) if r.random() < .5 else nodes
        gedges = [e for e in itertools.combinations(gnodes, 2) if r.random() < .7] or [(gnodes[0], gnodes[1])]
        for gname, gcall in (('uniform', f'G.uniform((gnodes, gedges), "SPIN", low=-2.0, high=2.0, seed={seed})'), ('randint', f'G.randint((gnodes, gedges), "BINARY", low=-3, high=3, seed={seed})'),
                             ('ran_r', f'G.ran_r(3, (gnodes, gedges), seed={seed})'), ('power_r', f'G.power_r(3, (gnodes, gedges), seed={seed})'),
                             ('doped', f'G.doped(0.5, (gnodes, gedges), seed={seed})'),
                             ('frustrated_loop', f'G.frustrated_loop((gnodes, gedges), 2, seed={seed})')):
            one(gname, gcall, dict(gnodes=gnodes, gedges=gedges), dict(gnodes='collection', gedges='collection'))
        # the same graphs as networkx objects the caller keeps (GraphLike): unchanged, attributes included; two calls agree
        for gname, gcall in (('uniform', f'G.uniform(graph, "SPIN", low=-2.0, high=2.0, seed={seed})'), ('randint', f'G.randint(graph, "BINARY", low=-3, high=3, seed={seed})'),
                             ('ran_r', f'G.ran_r(3, graph, seed={seed})'), ('power_r', f'G.power_r(3, graph, seed={seed})'), ('doped', f'G.doped(0.5, graph, seed={seed})'),
                             ('frustrated_loop', f'G.frustrated_loop(graph, 2, seed={seed})')):
            one(gname, gcall, dict(graph=(gnodes, gedges)), dict(graph='nxgraph'))
        one('maximum_independent_set', 'G.maximum_independent_set(edges, nodes, strength=2.5)', dict(edges=edges, nodes=some_nodes), dict(edges='nxedges', nodes='nxnodes'))
        one('maximum_weight_independent_set', 'G.maximum_weight_independent_set(edges, nodes)', dict(edges=edges, nodes=weighted), dict(edges='nxedges'))
        if rep % 2 == 0:
            cn = r.randint(1, 3)
            cedges = [e for e in itertools.combinations(range(cn), 2) if r.random() < .6]
            cattrs = {'num_transmitters': {v: r.randint(1, 2) for v in range(cn)}, 'num_receivers': {v: r.randint(1, 2) for v in range(cn)}} if r.random() < .5 else {}
            one('coordinated_multipoint', f'coordinated_multipoint(lattice, "BPSK", F_distribution=("binary", "real"), seed={seed})',
                dict(lattice=(list(range(cn)), cedges, cattrs)), dict(lattice='nxgraph'))
        planted = [(v, r.choice([-1, 1])) for v in gnodes]
        one('frustrated_loop', f'G.frustrated_loop((gnodes, gedges), 2, seed={seed}, planted_solution=dict(planted) if isinstance(planted, list) else planted)',
            dict(gnodes=gnodes, gedges=gedges, planted=planted), dict(planted='mapping'))
        # wireless: the received signal / channel / transmitted symbols / noise are NumPy arrays the caller keeps
        nr_, nt_ = r.randint(1, 2), r.randint(1, 2)
        zr = lambda: float(r.randint(-4, 4)) / r.choice([1, 1, 2])   # noqa: E731
        Fm = np.array([[zr() for _ in range(nt_)] for _ in range(nr_)]); ym = np.array([[zr()] for _ in range(nr_)])
        Fc = Fm + 1j * np.array([[zr() for _ in range(nt_)] for _ in range(nr_)]); yc = ym + 1j * np.array([[zr()] for _ in range(nr_)])
        ts = np.array([[float(r.choice([-1, 1]))] for _ in range(nt_)]); cn = np.array([[zr()] for _ in range(nr_)])
        one('mimo', 'mimo("BPSK", y, F)', dict(y=ym, F=Fm), dict(y='ndarray', F='ndarray'))
        if np.iscomplex(Fc.conj().T @ yc).any() or np.iscomplex(Fc.conj().T @ Fc).any():      # the data-dependent real form: D65
            one('mimo', 'mimo("QPSK", y, F)', dict(y=yc, F=Fc), dict(y='ndarray', F='ndarray'))
        one('mimo', 'mimo("BPSK", F=F, transmitted_symbols=ts)', dict(F=Fm, ts=ts), dict(F='ndarray', ts='ndarray'))
        one('mimo', 'mimo("BPSK", F=F, transmitted_symbols=ts, channel_noise=cn)', dict(F=Fm, ts=ts, cn=cn), dict(F='ndarray', ts='ndarray', cn='ndarray'))
        if rep % 3 == 0:
            tile, inter = chimera_lattice(1, 2, 2)
            sn = [v for v in range(8) if r.random() < .8]
            se = [tuple(sorted(e)) for e in sorted(map(sorted, tile | inter)) if e[0] in sn and e[1] in sn and r.random() < .8]
            one('chimera_anticluster', f'chimera_anticluster(1, 2, 2, subgraph=(sn, se), seed={seed})', dict(sn=sn, se=se), dict(sn='collection', se='collection'))


QAM_BITS = {'16QAM': 4, '64QAM': 6, '256QAM': 8}       # log2 of the constellation size = bits per transmitted symbol


def qam_cases(ctx, r, lines, checks):
    """mimo('16QAM' | '64QAM' | '256QAM', y, F): log2(constellation) spin variables per transmitter; with the documented layout
    (per amplitude bit: the real parts of all symbols, then the imaginary parts; lower precision first) the symbol of
    transmitter i is sum_a 2^a (p_a[i] + i q_a[i]) and the energy is ||y - F v||^2"""
    from dimod.generators.wireless import mimo
    site = 'generators.mimo'
    pre = HDR + 'from dimod.generators.wireless import mimo\n'
    for rep in range(ctx.scale(8, 120)):
        mod = r.choice(['16QAM', '16QAM', '64QAM', '256QAM'])
        na = QAM_BITS[mod] // 2
        nt = 2 if (mod == '16QAM' and r.random() < .5) else 1
        nr = r.randint(1, 2)
        z = lambda: F(r.randint(-4, 4), r.choice([1, 1, 2]))   # noqa: E731
        Fr = [[z() for _ in range(nt)] for _ in range(nr)]; Fi = [[z() for _ in range(nt)] for _ in range(nr)]
        yr = [z() for _ in range(nr)]; yi = [z() for _ in range(nr)]
        if all(sum(Fr[k][i] * yi[k] - Fi[k][i] * yr[k] for k in range(nr)) == 0 for i in range(nt)) and \
           all(sum(Fr[k][i] * Fi[k][j] - Fi[k][i] * Fr[k][j] for k in range(nr)) == 0 for i in range(nt) for j in range(nt)):
            continue            # the data-dependent real form: known finding D65, covered by qpsk_cases
        cplx = lambda a, b: complex(float(a), float(b))   # noqa: E731
        call = f'mimo({mod!r}, np.array({[cplx(a, b) for a, b in zip(yr, yi)]!r}), np.array({[[cplx(a, b) for a, b in zip(ra, rb)] for ra, rb in zip(Fr, Fi)]!r}))'
        with warnings.catch_warnings():
            warnings.simplefilter('ignore')
            b = eval(call, {'mimo': mimo, 'np': np})
        ctx.tick(f'mimo:{mod}'); ctx.case(('qam', call), nontrivial=True, sample=dict(call=call))
        nv = QAM_BITS[mod] * nt
        src = (pre + f'b = {call}\nnt, na = {nt}, {na}\nyr, yi, Fr, Fi = {[str(v) for v in yr]!r}, {[str(v) for v in yi]!r}, {[[str(v) for v in row] for row in Fr]!r}, {[[str(v) for v in row] for row in Fi]!r}\n'
               f'assert b.num_variables == {nv}, ("{mod}: {QAM_BITS[mod]} bits per transmitter", b.num_variables)\n'
               'c = coef(b)\n'
               'for s in itertools.product((-1, 1), repeat=b.num_variables):\n'
               '    p = [sum(2**a * s[a * 2 * nt + i] for a in range(na)) for i in range(nt)]; q = [sum(2**a * s[a * 2 * nt + nt + i] for a in range(na)) for i in range(nt)]\n'
               '    re = [F(yr[k]) - sum(F(Fr[k][i]) * p[i] - F(Fi[k][i]) * q[i] for i in range(nt)) for k in range(len(yr))]\n'
               '    im = [F(yi[k]) - sum(F(Fi[k][i]) * p[i] + F(Fr[k][i]) * q[i] for i in range(nt)) for k in range(len(yr))]\n'
               '    assert en(c, dict(enumerate(s))) == sum(a * a for a in re) + sum(a * a for a in im), s\n')
        bad = False
        c = coef(b)
        if b.vartype is not dimod.SPIN or list(b.variables) != list(range(nv)):
            bad = True
            ctx.fail('property', site, f'{mod}: number of variables', f'{call}: {b.num_variables} variables for {nt} transmitter(s); a {mod} symbol carries {QAM_BITS[mod]} bits', repro=src)
        for s_ in itertools.product((-1, 1), repeat=nv) if not bad else ():
            p_ = [sum(2 ** a * s_[a * 2 * nt + i] for a in range(na)) for i in range(nt)]
            q_ = [sum(2 ** a * s_[a * 2 * nt + nt + i] for a in range(na)) for i in range(nt)]
            re = [yr[k] - sum(Fr[k][i] * p_[i] - Fi[k][i] * q_[i] for i in range(nt)) for k in range(nr)]
            im = [yi[k] - sum(Fi[k][i] * p_[i] + Fr[k][i] * q_[i] for i in range(nt)) for k in range(nr)]
            want = sum(a * a for a in re) + sum(a * a for a in im)
            got = energy(c, dict(enumerate(s_)))
            if got != want:
                bad = True
                ctx.fail('property', site, f'{mod}: energy vs ||y - F v||^2', f'{call}: at {s_} (symbols {list(zip(p_, q_))}) energy {got}, expected {want}', repro=src)
                break
        mt = lambda M: ';'.join(','.join(map(rat, row)) for row in M)   # noqa: E731
        lines.append(f"qam {na} {nt} {','.join(map(rat, yr))} {','.join(map(rat, yi))} {mt(Fr)} {mt(Fi)}")
        checks.append((site + ' vs Gen.mimoQam', mod, 'ok ' + canon_bqm(b), src, bad))


def run(ctx):
    r = ctx.rng
    ctx.rule = ('every gate generator with random labels (ints, strings, nested tuples) / strengths, both vartypes, every row of the truth table x every auxiliary value; '
                'multiplication circuits by full enumeration; combinations / independent-set family / knapsack family on random small instances at every assignment; '
                'random generators over random seeds and the seeds 0, np.int64(0), np.uint32(0), 1, 2**32-1 on a complete 7-node graph (ranges, graph, two calls with one seed agree, 0 and np.int64(0) agree). A case = one generator call; non-trivial = it returned a model with at least one term')
    lines, checks = [], []
    gate_cases(ctx, r, lines, checks)
    mult_cases(ctx, r, lines, checks)
    comb_cases(ctx, r, lines, checks)
    graph_cases(ctx, r, lines, checks)
    knap_cases(ctx, r, lines, checks)
    qknap_cases(ctx, r, lines, checks)
    qap_cases(ctx, r, lines, checks)
    kmcsat_cases(ctx, r, lines, checks)
    bpsp_cases(ctx, r, lines, checks)
    msq_cases(ctx, r, lines, checks)
    random_cases(ctx, r)
    random_corr(ctx, r, lines, checks)
    ac_cases(ctx, r, lines, checks)
    fl_cases(ctx, r, lines, checks)
    chimera_cases(ctx, r, lines, checks)
    mimo_cases(ctx, r, lines, checks)
    comp_cases(ctx, r, lines, checks)
    qpsk_cases(ctx, r, lines, checks)
    qam_cases(ctx, r, lines, checks)
    forms_cases(ctx, r)
    ctx.notes.append('random generators: the NumPy generator is a contract (its draws are recorded and handed to the models as an explicit stream); placement of the draws, index maps, pair selection, capacities are modelled (Rnd.*) and proved; range / reproducibility over seeds stay validated; '
                     'multiplication circuit: "energy 0 (minimised over the internal wires) iff p = a*b, else >= 1" is proved for all n, m >= 2 (multiplication_circuit_zero_iff_product); the enumeration up to 3x3 stays as a test')
    got = run_driver('gendriver', lines)
    ctx.corr_lines += len(lines)
    for i, ln in enumerate(lines):
        site, cls, want, src, had = checks[i]
        g = got[i] if i < len(got) else 'MISSING'
        if g != want and not had:
            ctx.fail('correspondence', site, cls, f'line `{ln}`: implementation `{want[:300]}` model `{g[:300]}`', repro=src)
