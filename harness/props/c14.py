"""C14 — sample-set operations move whole rows and columns and never alter data.

(i)  correspondence: the real `dimod.SampleSet` / `dimod.as_samples` vs the Lean model
     `DimodModel/SampleSet.lean` through the compiled driver `samplesetdriver` (canonical text of the
     whole sample set after every operation, which calls raise);
(ii) property predicate on the real code: every operation is compared with a plain-Python
     list-of-rows reference (`Ref`) written from the documentation of the operation, not from the
     model; sorted selections are compared up to the order of equal keys (any sorting permutation is
     allowed by `np.argsort`), everything else exactly;
(iii) the Lean specification functions (`aggSpec`, `List.filter`) vs the same reference.
"""
import concurrent.futures
import copy
import warnings
from fractions import Fraction as F

import numpy as np

import dimod
from dimod import SampleSet
from dimod.variables import Variables
from harness.common import lab, rat, run_driver

REQ = ('sample', 'energy', 'num_occurrences')
POOLS = [
    [0, 1, 2, 3, 4, 7],                               # ints (sortable)
    [3, 1, 0, 5, 2, -2],                              # ints, not in order
    ['a', 'b', 'c', 'd', 'ab', 'B'],                  # strings
    [('a', 1), ('a', 0), ('b', 2), ('a', 2), ('b', 0)],   # homogeneous tuples (sortable)
    [('t', (1, 2)), ('t', (0, 5)), ('s', (1, 2)), ('t', (1, 0))],  # nested tuples (sortable)
    [0, 'a', 1, 'b', 2, 'c'],                         # mixed: unsortable, given order is kept
    ['x', ('a', 1), 3, 'y', ('b', 0)],                # mixed with tuples
]
NEWLABELS = ['N1', 'N2', 9, 8, ('n', 1), ('n', 2), 'A', 'Z']
PRE = '''import numpy as np, dimod, warnings, concurrent.futures
from fractions import Fraction as F
Fraction = F
warnings.simplefilter('ignore')
def rows_of(ss):
    """the rows of a sample set as comparable tuples: (sorted labelled values, energy, occurrences, other fields)"""
    rec = ss.record; vs = list(ss.variables)
    names = [f for f in rec.dtype.names if f not in ('sample', 'energy', 'num_occurrences')]
    return [(tuple(sorted((repr(v), F(float(rec.sample[i, j]))) for j, v in enumerate(vs))), F(float(rec.energy[i])), int(rec.num_occurrences[i]),
             tuple(tuple(F(float(x)) for x in np.atleast_1d(rec[f][i])) for f in names)) for i in range(len(rec))]
def table(ss):
    """(vartype, {label: column}, energies, occurrences, {field: values}) of a sample set, exact"""
    rec = ss.record; vs = list(ss.variables)
    return (ss.vartype.name, {v: [F(float(x)) for x in rec.sample[:, j]] for j, v in enumerate(vs)},
            [F(float(x)) for x in rec.energy], [int(x) for x in rec.num_occurrences],
            {f: np.asarray(rec[f]).tolist() for f in rec.dtype.names if f not in ('sample', 'energy', 'num_occurrences')})
'''


# ------------------------------------------------------------------ canonical text

def ss_text(ss):
    rec = ss.record
    names = [f for f in rec.dtype.names if f not in REQ]
    rows = []
    for i in range(len(rec)):
        s = ','.join(rat(x) for x in rec.sample[i]) or '-'
        ex = ','.join(':'.join(rat(x) for x in np.atleast_1d(rec[f][i])) for f in names) or '-'
        rows.append(f'{s}~{rat(rec.energy[i])}~{int(rec.num_occurrences[i])}~{ex}')
    return ';'.join([ss.vartype.name, ','.join(lab(v) for v in ss.variables) or '-', ','.join(names) or '-', '|'.join(rows) or '-'])


class Ref:
    """the specification object: plain lists.  rows = [sample(list of Fraction), energy, occ, extras(list of lists)]"""

    def __init__(self, vt, labels, fields, rows):
        self.vt, self.labels, self.fields, self.rows = vt, list(labels), list(fields), [list(r) for r in rows]

    def copy(self):
        return Ref(self.vt, self.labels, self.fields, [[list(r[0]), r[1], r[2], [list(x) for x in r[3]]] for r in self.rows])

    def text(self):
        rows = []
        for s, e, o, x in self.rows:
            rows.append(f"{','.join(rat(v) for v in s) or '-'}~{rat(e)}~{o}~{','.join(':'.join(rat(v) for v in f) for f in x) or '-'}")
        return ';'.join([self.vt, ','.join(lab(v) for v in self.labels) or '-', ','.join(self.fields) or '-', '|'.join(rows) or '-'])

    def key(self, by):
        if by == 'energy':
            return lambda r: r[1]
        if by == 'num_occurrences':
            return lambda r: r[2]
        k = self.fields.index(by)
        return lambda r: r[3][k][0]

    # --- the documented meaning of each operation
    def aggregate(self):
        out, pos = [], {}
        for s, e, o, x in self.rows:
            k = tuple(s)
            if k in pos:
                out[pos[k]][2] += o
            else:
                pos[k] = len(out); out.append([list(s), e, o, [list(f) for f in x]])
        return Ref(self.vt, self.labels, self.fields, out)

    def slice(self, by, sl):
        rows = self.rows if by is None else sorted(self.rows, key=self.key(by))
        return Ref(self.vt, self.labels, self.fields, rows[sl])

    def lowest(self, rtol, atol):
        if not self.rows:
            return self.copy()
        m = min(r[1] for r in self.rows)
        return Ref(self.vt, self.labels, self.fields, [r for r in self.rows if abs(r[1] - m) <= atol + rtol * abs(m)])

    def filter(self, pred):
        return Ref(self.vt, self.labels, self.fields, [r for r in self.rows if pred(r)])

    def relabel(self, m):
        news = list(m.values())
        if len(set(news)) < len(news) or any(n in self.labels and n not in m for n in news):
            return None
        return Ref(self.vt, [m.get(v, v) for v in self.labels], self.fields, self.rows)

    def _sorted_cols(self, labels, cols, sort):
        """columns given by label; optionally in sorted label order when the labels are sortable"""
        order = list(range(len(labels)))
        if sort and labels:
            try:
                order = [i for i, _ in sorted(enumerate(labels), key=lambda t: t[1])]
            except TypeError:
                pass
        return [labels[i] for i in order], [[row[i] for i in order] for row in cols]

    def keep(self, vs, sort):
        if any(v not in self.labels for v in vs) or len(set(vs)) < len(vs):
            return None
        idx = [self.labels.index(v) for v in vs]
        labels, cols = self._sorted_cols(list(vs), [[r[0][i] for i in idx] for r in self.rows], sort)
        return Ref(self.vt, labels, self.fields, [[c, r[1], r[2], r[3]] for c, r in zip(cols, self.rows)])

    def drop(self, vs):
        return self.keep([v for v in self.labels if v not in vs], False)

    def append_vars(self, labels, newrows, sort):
        n = len(self.rows)
        if len(newrows) == n:
            nr = newrows
        elif len(newrows) == 1 and n:
            nr = newrows * n
        else:
            return None
        if any(v in self.labels for v in labels):
            return None
        labs, cols = self._sorted_cols(self.labels + list(labels), [r[0] + list(x) for r, x in zip(self.rows, nr)], sort)
        return Ref(self.vt, labs, self.fields, [[c, r[1], r[2], r[3]] for c, r in zip(cols, self.rows)])

    def change_vartype(self, vt, off):
        rows = [[list(r[0]), r[1] + off, r[2], r[3]] for r in self.rows]
        if vt == self.vt:
            return Ref(vt, self.labels, self.fields, rows)
        if (self.vt, vt) == ('BINARY', 'SPIN'):
            f = lambda x: 2 * x - 1
        elif (self.vt, vt) == ('SPIN', 'BINARY'):
            f = lambda x: (x + 1) / 2
        else:
            return None
        return Ref(vt, self.labels, self.fields, [[[f(x) for x in r[0]], r[1], r[2], r[3]] for r in rows])

    def append_vec(self, name, vals):
        if len(vals) != len(self.rows) or name in self.fields or name in REQ:
            return None
        return Ref(self.vt, self.labels, self.fields + [name], [[r[0], r[1], r[2], r[3] + [list(v)]] for r, v in zip(self.rows, vals)])


def expect_code(ref):
    """source of the value `rows_of` must return for the reference"""
    rows = [(tuple(sorted((repr(v), x) for v, x in zip(ref.labels, r[0]))), r[1], r[2], tuple(tuple(f) for f in r[3])) for r in ref.rows]
    return f'({ref.vt!r}, {ref.labels!r}, {ref.fields!r}, {rows!r})'


CHECK = "(out.vartype.name, list(out.variables), [f for f in out.record.dtype.names if f not in ('sample', 'energy', 'num_occurrences')], rows_of(out))"


NUMPY_FILL = {'ex': F(999999), 'ev': F(10) ** 20, 'zz': F(10) ** 20}     # numpy.ma.default_fill_value: int -> 999999, float -> 1e20
WIDTH = {'ex': 1, 'ev': 2, 'zz': 1}


def concat_ref(refs, defaults=None):
    """the documented meaning of concatenate: rows of all sets in order, columns by label in the first set's order,
    vartype of the first set; data vectors: the union of the fields in order of first appearance, a missing value is
    the entry of `defaults` or NumPy's default fill value"""
    first = refs[0]
    fields = []
    for o in refs:
        for f in o.fields:
            if f not in fields:
                fields.append(f)
    def lay(o, row):
        return [list(row[3][o.fields.index(f)]) if f in o.fields else [F((defaults or {}).get(f, NUMPY_FILL[f]))] * WIDTH[f] for f in fields]
    rows = [[list(r[0]), r[1], r[2], lay(first, r)] for r in first.rows]
    for o in refs[1:]:
        src = o
        if o.vt != first.vt:
            o = o.change_vartype(first.vt, 0)
            if o is None:
                return None
        if set(o.labels) != set(first.labels) or len(o.labels) != len(first.labels):
            return None
        idx = [o.labels.index(v) for v in first.labels]
        rows += [[[r[0][i] for i in idx], r[1], r[2], lay(src, r)] for r in o.rows]
    return Ref(first.vt, first.labels, fields, rows)


def same_up_to_ties(got_text, ref_all, ref_sel, key):
    """`got` must be what *some* sorting permutation followed by the slice selects: same key sequence
    as the stable reference, and per key value a sub-multiset of the rows carrying that key"""
    got = got_text.split(';')[3]
    got = [] if got == '-' else got.split('|')
    exp = [Ref('', [], [], [r]).text().split(';')[3] for r in ref_sel.rows]
    if len(got) != len(exp) or got_text.split(';')[:3] != ref_sel.text().split(';')[:3]:
        return False
    if [key(r) for r in ref_sel.rows] != [key_of_text(g, ref_sel, key) for g in got]:
        return False
    pool = {}
    for r in ref_all.rows:
        pool.setdefault(Ref('', [], [], [r]).text().split(';')[3], 0)
        pool[Ref('', [], [], [r]).text().split(';')[3]] += 1
    for g in got:
        if pool.get(g, 0) <= 0:
            return False
        pool[g] -= 1
    return True


def key_of_text(rowtext, ref, key):
    s, e, o, x = rowtext.split('~')
    row = [None, F(e), int(o), [[F(v) for v in f.split(':')] for f in x.split(',')] if x != '-' else []]
    return key(row)


# ------------------------------------------------------------------ generators

BOUNDARY = [127, 128, 129, -127, -128, -129, 32767, 32768, 32769, -32767, -32768, -32769,
            2 ** 31 - 1, 2 ** 31, 2 ** 31 + 1, -2 ** 31 + 1, -2 ** 31, -2 ** 31 - 1]      # edges of int8 / int16 / int32


def gen_values(r, vt, n, boundary=False):
    if vt == 'INTEGER' and boundary:
        return [r.choice([-3, 0, 1, 2, 7, r.choice(BOUNDARY), r.choice(BOUNDARY)]) for _ in range(n)]
    if vt == 'SPIN':
        return [r.choice([-1, 1]) for _ in range(n)]
    if vt == 'BINARY':
        return [r.choice([0, 1]) for _ in range(n)]
    if vt == 'INTEGER':
        return [r.choice([-3, 0, 1, 2, 7]) for _ in range(n)]
    return [F(r.randint(-24, 24), 8) for _ in range(n)]


def gen_ss(r, labels=None, vt=None, fields=None, m=None, tiefree=False, dt=None):
    """returns (python source building `ss`, Ref)"""
    vt = vt or r.choice(['SPIN', 'BINARY', 'INTEGER', 'REAL'])
    if labels is None:
        pool = r.choice(POOLS)
        labels = r.sample(pool, r.choice([0, 1, 2, 2, 3, 3, 4, min(5, len(pool))]))
    n = len(labels)
    m = r.choice([0, 1, 2, 3, 4, 5, 6]) if m is None else m
    plain = vt == 'INTEGER' and dt is None and m > 0 and n > 0 and r.random() < .35     # dtype-less list: as_samples picks the smallest dtype
    rows = [gen_values(r, vt, n, boundary=plain) for _ in range(m)]
    if m and r.random() < .6:                       # duplicate rows
        for _ in range(r.randint(1, 3)):
            rows[r.randrange(m)] = list(rows[r.randrange(m)])
    if tiefree or r.random() < .5:
        en = r.sample([F(k, 8) for k in range(-40, 41)], m)
    else:
        en = [F(r.randint(-4, 4), 2) for _ in range(m)]
    if r.random() < .3:
        en = [e * 16 for e in en]                   # large magnitudes: relative tolerances matter
    occ = [r.randint(1, 3) for _ in range(m)]
    if dt is not None:
        pass
    elif vt == 'REAL':
        dt = r.choice(['float32', 'float64'])
    elif vt == 'BINARY' and r.random() < .3:
        dt = r.choice(['uint8', 'uint16', 'uint32', 'uint64', 'bool'])      # r8f: 0/1 samples as samplers hand them over; -1 does not fit these types
    else:
        dt = r.choice(['int8', 'int16', 'int32', 'int64', 'float32', 'float64'])
    if fields is None:
        fields = r.choice([[], [], ['ex'], ['ex', 'ev'], ['ev']])
    vec = {}
    for f in fields:
        if f == 'ex':
            vec[f] = r.sample(range(-9, 30), m) if r.random() < .5 else [r.randint(0, 3) for _ in range(m)]
        else:
            vec[f] = [[F(r.randint(-8, 8), 4), r.randint(0, 2)] for _ in range(m)]
    sort = r.random() < .5
    flt = lambda x: repr(float(x))
    arr_src = repr([[int(x) for x in row] for row in rows]) if plain else f"np.array({[[float(x) for x in row] for row in rows]!r}, dtype='{dt}').reshape({m}, {n})"
    src = (f"ss = dimod.SampleSet.from_samples(({arr_src}, {labels!r}), "
           f"{vt!r}, energy=np.array([{', '.join(flt(e) for e in en)}], dtype=float), num_occurrences=np.array({occ!r}, dtype=int), sort_labels={sort}, info={{'k': [1, {{'z': 2}}]}}"
           + ''.join(f", {f}=np.array({[[float(x) for x in v] if isinstance(v, list) else v for v in vec[f]]!r}, dtype={'float' if f == 'ev' else 'int'}).reshape({(m, 2) if f == 'ev' else (m,)})" for f in fields) + ')')
    ref = Ref(vt, labels, fields, [[[F(x) for x in rows[i]], en[i], occ[i], [([F(x) for x in vec[f][i]] if f == 'ev' else [F(vec[f][i])]) for f in fields]] for i in range(m)])
    ref = ref.keep(labels, sort) if n else ref     # from_samples(sort_labels) puts the columns in sorted label order
    return src, ref


def build(src):
    env = {}
    exec(PRE + src, env)
    return env


def exc_class(e):
    return type(e).__name__


# ------------------------------------------------------------------ one history of value-level operations

def history(ctx, r, lines, expect, meta):
    src0, ref = gen_ss(r)
    src = [src0]
    env = build(src0)
    ss = env['ss']
    t = ss_text(ss)
    if t != ref.text():
        ctx.fail('property', 'SampleSet.from_samples', 'construction', f'built `{t}` expected `{ref.text()}`',
                 repro=PRE + src0 + f'\nassert False, table(ss)', detail=dict(src=src0))
        return
    lines.append(f'set 0 {t}'); expect.append('ok ' + t); meta.append(('set', list(src), None))
    others = {}
    # r8f: histories on ONE object.  With `stay_p` a non-mutating call is evaluated and checked, and the history then goes on
    # with the RECEIVER (not with the result): lookups <-> in-place mutations on one object, incl. the objects reached from it
    # (`variables`, `samples()` arrays, `record`), which is where a per-object cache would go stale.
    stay_p = r.choice([0, 0, .5, .85])
    ipw = ['relabel_ip', 'relabel_ip', 'change_ip', 'multi', 'multi', 'handles', 'keep', 'drop'] if stay_p else []
    for step in range(r.randint(1, 6) + (r.randint(0, 4) if stay_p else 0)):
        op = r.choice(['aggregate', 'aggregate', 'slice', 'slice', 'truncate', 'lowest', 'filter', 'relabel', 'relabel_ip', 'keep', 'drop',
                       'append_vars', 'change', 'change_ip', 'append_vec', 'concat', 'copy', 'first', 'data', 'samples', 'multi', 'handles'] + ipw)
        before = ss_text(ss)
        spec_line = None
        tie_key = None
        code = None
        exp = None
        line = None
        inplace = False
        try:
            if op == 'aggregate':
                code = 'out = ss.aggregate()'; line = 'aggregate 0 0'; exp = ref.aggregate(); spec_line = True
            elif op in ('slice', 'truncate'):
                by = r.choice(['energy', 'energy', None, 'num_occurrences'] + [f for f in ref.fields if f == 'ex'])
                bym = {None: 'none', 'energy': 'energy', 'num_occurrences': 'occ'}.get(by) or 'x' + str(ref.fields.index(by))
                if op == 'slice':
                    args = [r.choice([None, -7, -3, -2, -1, 0, 1, 2, 3, 5, 9]) for _ in range(r.randint(0, 3))]
                    if len(args) == 3 and r.random() < .6 and args[2] == 0:
                        args[2] = None
                    if len(args) == 3 and args[2] is not None:
                        ctx.tick('slice step 0' if args[2] == 0 else 'slice negative step' if args[2] < 0 else 'slice positive step')
                    if any(a is not None and a < 0 for a in args[:2]):
                        ctx.tick('slice negative start/stop')
                    if any(a is not None and abs(a) > len(ref.rows) for a in args[:2]):
                        ctx.tick('slice oversize bound')
                    ctx.tick(f'slice sorted_by={by}')
                    full = ([None, None, None] if not args else [None, args[0], None] if len(args) == 1 else args + [None] * (3 - len(args)))
                    code = f"out = ss.slice({', '.join(map(repr, args))}{', ' if args else ''}sorted_by={by!r})"
                    line = 'slice 0 0 ' + bym + ' ' + ' '.join('-' if a is None else str(a) for a in full)
                    exp = ref.slice(by, slice(*full)) if full[2] != 0 else None
                else:
                    k = r.randint(-2, 7)
                    ctx.tick(f'truncate sorted_by={by}' + (' negative n' if k < 0 else ''))
                    code = f'out = ss.truncate({k}, sorted_by={by!r})'; line = f'truncate 0 0 {bym} {k}'
                    exp = ref.slice(by, slice(k))
                if by is not None:
                    tie_key = ref.key(by)
            elif op == 'lowest':
                if r.random() < .5:
                    code = 'out = ss.lowest()'; rt, at = F(1e-5), F(1e-8)
                else:
                    rt, at = r.choice([F(0), F(1, 4), F(1, 8), F(1, 2), F(1), F(3, 2), F(2)]), r.choice([F(0), F(1, 2), F(1), F(4)])     # large rtol: the band is scaled by |min|
                    code = f'out = ss.lowest(rtol={float(rt)!r}, atol={float(at)!r})'
                line = f'lowest 0 0 {rat(rt)} {rat(at)}'; exp = ref.lowest(rt, at)
                ctx.tick('lowest default tolerances' if 'tol' not in code else 'lowest rtol/atol given')
                if not ref.rows:
                    ctx.tick('lowest empty receiver')
                elif min(row[1] for row in ref.rows) < 0:
                    ctx.tick('lowest negative minimum' + (' rtol>0' if rt > 0 and 'tol' in code else ''))
            elif op == 'filter':
                if r.random() < .35:
                    # a predicate returning numbers (truthy / falsy), not booleans: the mask must be coerced to bool
                    kind = r.choice(['energy', 'occm1'] + (['col'] if ref.labels else []))
                    if kind == 'energy':
                        code = 'out = ss.filter(lambda d: d.energy)'; fsrc = 'energy'; val = lambda row: row[1]
                    elif kind == 'occm1':
                        code = 'out = ss.filter(lambda d: d.num_occurrences - 1)'; fsrc = 'occm1'; val = lambda row: row[2] - 1
                    else:
                        v = r.choice(ref.labels); j = ref.labels.index(v)
                        code = f'out = ss.filter(lambda d: d.sample[{v!r}])'; fsrc = f'col:{j}'; val = lambda row, j=j: row[0][j]
                    line = f'filternz 0 0 {fsrc}'; exp = ref.filter(lambda row: val(row) != 0); spec_line = True
                    ctx.tick('filter numeric predicate')
                    if ref.rows and not exp.rows:
                        ctx.tick('filter keeps no row')
                elif r.random() < .5 or not ref.rows:
                    thr = F(r.randint(-8, 8), 4)
                    code = f'out = ss.filter(lambda d: d.energy <= {float(thr)!r})'
                    line = f'filterle 0 0 energy {rat(thr)}'; exp = ref.filter(lambda row: row[1] <= thr); spec_line = True
                    if ref.rows and not exp.rows:
                        ctx.tick('filter keeps no row')
                else:
                    v = r.choice(ref.labels) if ref.labels else None
                    if v is None:
                        code = 'out = ss.filter(lambda d: d.num_occurrences >= 2)'; mask = [row[2] >= 2 for row in ref.rows]
                    else:
                        code = f'out = ss.filter(lambda d: d.sample[{v!r}] > 0)'; mask = [row[0][ref.labels.index(v)] > 0 for row in ref.rows]
                    line = 'filtermask 0 0 ' + (','.join('1' if b else '0' for b in mask) or '-')
                    it = iter(mask); exp = ref.filter(lambda row: next(it))
            elif op in ('relabel', 'relabel_ip'):
                cur = ref.labels
                ks = r.sample(cur, r.randint(0, len(cur))) if cur else []
                mode = r.random()
                if mode < .25 and len(ks) > 1:
                    m = {ks[i]: ks[(i + 1) % len(ks)] for i in range(len(ks))}
                elif mode < .5:
                    m = dict(zip(ks, r.sample(NEWLABELS, len(ks))))
                else:
                    m = {k: r.choice(NEWLABELS + cur) for k in ks}
                inplace = op == 'relabel_ip'
                code = f'out = ss.relabel_variables({m!r}, inplace={inplace})'
                line = 'relabel 0 0 ' + (','.join(f'{lab(a)}={lab(b)}' for a, b in m.items()) or '-'); exp = ref.relabel(m)
            elif op == 'keep':
                vs = r.sample(ref.labels, r.randint(0, len(ref.labels)))
                if r.random() < .1:
                    vs = vs + ['nope']
                kind = r.choice(['list', 'tuple', 'set', 'iter', 'Variables'])
                sort = kind == 'set'
                setsrc = 'set(' + repr(vs) + ')'
                if kind == 'set':
                    vs = list(eval(setsrc))       # the iteration order of exactly this set construction
                arg = {'list': repr(vs), 'tuple': repr(tuple(vs)) if len(vs) != 2 else repr(vs), 'set': setsrc,
                       'iter': 'iter(' + repr(vs) + ')', 'Variables': 'dimod.variables.Variables(' + repr(vs) + ')'}[kind]
                code = f'out = dimod.keep_variables(ss, {arg})'
                line = f'keep 0 0 {int(sort)} ' + (','.join(lab(v) for v in vs) or '-'); exp = ref.keep(vs, sort)
            elif op == 'drop':
                vs = r.sample(ref.labels, r.randint(0, len(ref.labels))) + (['nope'] if r.random() < .3 else [])
                code = f'out = dimod.drop_variables(ss, {vs!r})'
                line = 'drop 0 0 ' + (','.join(lab(v) for v in vs) or '-'); exp = ref.drop(vs)
            elif op == 'append_vars':
                nl = r.sample([x for x in NEWLABELS], r.randint(1, 2))
                if r.random() < .1 and ref.labels:
                    nl[0] = r.choice(ref.labels)
                k = r.choice([1, len(ref.rows), len(ref.rows), 2])
                form = r.choice(['tuple', 'tuple', 'dict', 'SampleSet', 'list of dicts', 'generator of dicts'])
                if form == 'dict':
                    k = 1                  # a mapping of constants: one row, repeated for every sample
                if form in ('list of dicts', 'generator of dicts') and k == 0:
                    form = 'tuple'
                plain = ref.vt == 'INTEGER' and k > 0 and r.random() < .4
                nr = [gen_values(r, ref.vt, len(nl), boundary=plain) for _ in range(k)]
                sort = r.random() < .5
                arr_src = repr([[int(x) for x in row] for row in nr]) if plain else f'np.array({[[float(x) for x in row] for row in nr]!r}).reshape({k}, {len(nl)})'
                if form == 'dict':
                    like = '{' + ', '.join(f'{v!r}: {(int(x) if ref.vt != "REAL" else float(x))!r}' for v, x in zip(nl, nr[0])) + '}'
                elif form == 'SampleSet':
                    like = f'dimod.SampleSet.from_samples(({arr_src}, {nl!r}), {ref.vt!r}, energy=[7.0] * {k}, sort_labels=False)'
                elif form in ('list of dicts', 'generator of dicts'):
                    orders = [r.sample(range(len(nl)), len(nl)) for _ in range(k)]
                    body = '[' + ', '.join('{' + ', '.join(f'{nl[j]!r}: {(int(nr[i][j]) if ref.vt != "REAL" else float(nr[i][j]))!r}' for j in orders[i]) + '}' for i in range(k)) + ']'
                    like = body if form == 'list of dicts' else f'iter({body})'
                else:
                    like = f'({arr_src}, {nl!r})'
                code = f'out = dimod.append_variables(ss, {like}, sort_labels={sort})'
                if r.random() < .3:
                    code = f'out = ss.append_variables({like}, sort_labels={sort})'      # the (deprecated) method form delegates to the function
                    ctx.tick('append_vars through SampleSet.append_variables')
                ctx.tick(f'append_vars {form}: ' + ('label clash' if any(v in ref.labels for v in nl) else 'one row per sample' if k == len(ref.rows)
                                                   else 'one row broadcast' if k == 1 and ref.rows else 'wrong number of rows'))
                rows_w = '|'.join(','.join(rat(x) for x in row) or '-' for row in nr) or '~'
                if form == 'dict':
                    wform = 'M!' + ','.join(f'{lab(v)}={rat(x)}' for v, x in zip(nl, nr[0])) + f'!{int(ref.vt == "REAL")}'
                elif form == 'SampleSet':
                    wform = f"S!{','.join(lab(v) for v in nl)}!{rows_w}!f64"
                elif form in ('list of dicts', 'generator of dicts'):
                    wform = ('Q' if form == 'list of dicts' else 'I') + f'!{k}' + ''.join(
                        '!M!' + ','.join(f'{lab(nl[j])}={rat(nr[i][j])}' for j in orders[i]) + f'!{int(ref.vt == "REAL")}' for i in range(k))
                elif plain:
                    wform = f"T!pi64!2:{len(nl)}:{rows_w}!{','.join(lab(v) for v in nl)}"
                else:
                    wform = f"T!nf64!2:{len(nl)}:{rows_w}!{','.join(lab(v) for v in nl)}"
                line = f'appendform 0 0 {int(sort)} {wform}'
                if form in ('list of dicts', 'generator of dicts'):
                    # the column order of the stacked dicts is the key order of the FIRST one
                    nl, nr = [nl[j] for j in orders[0]], [[row[j] for j in orders[0]] for row in nr]
                exp = ref.append_vars(nl, [[F(x) for x in row] for row in nr], sort)
            elif op in ('change', 'change_ip'):
                vt = r.choice(['SPIN', 'BINARY', 'SPIN', 'BINARY', 'INTEGER'])
                off = r.choice([F(0), F(0), F(3, 2), F(-1, 4)])
                inplace = op == 'change_ip'
                code = f'out = ss.change_vartype({vt!r}, energy_offset={float(off)!r}, inplace={inplace})'
                line = f'changevt 0 0 {vt} {rat(off)}'; exp = ref.change_vartype(vt, off)
            elif op == 'append_vec':
                name = r.choice(['nv', 'nw', 'nv', 'energy'] + (['ex'] if 'ex' in ref.fields else []))
                m = len(ref.rows) if r.random() < .9 else len(ref.rows) + 1
                two = r.random() < .4
                vals = [[r.randint(-3, 3), r.randint(0, 5)] if two else [r.randint(-5, 5)] for _ in range(m)]
                if not two and name == 'energy' and r.random() < .5:
                    name = 'nv'
                code = f'out = dimod.append_data_vectors(ss, {name}={[v if two else v[0] for v in vals]!r})'
                line = f'appendvec 0 0 {name} ' + ('|'.join(':'.join(str(x) for x in v) for v in vals) or '-')
                exp = ref.append_vec(name, [[F(x) for x in v] for v in vals]) if m else None
                if m == 0 or not ref.labels:
                    line = None      # NumPy's own behaviour for empty records / zero-width sample fields is not dimod's to define
                    exp = 'any'
                else:
                    ctx.tick('append_vec ' + ('wrong length' if m != len(ref.rows) else 'name clash' if (name in ref.fields or name in REQ)
                                              else '2-d vector' if two else 'scalar vector'))
            elif op == 'concat':
                if not set(ref.fields) <= {'ex', 'ev'} or not ref.labels:
                    continue      # numpy.lib.recfunctions cannot stack zero-width sub-array fields (IndexError inside numpy.ma)
                k = r.choice([0, 1, 1, 2, 2])
                o_src, o_refs = [], []
                mism = k > 0 and r.random() < .08       # one later set over other variables: must be rejected
                empty_list = r.random() < .04
                mixed = r.random() < .4             # sample sets with different data vectors (stack_arrays fills the gaps)
                for j in range(k):
                    vt2 = ref.vt if r.random() < .7 or ss.record.sample.dtype.kind in 'ub' else r.choice(['SPIN', 'BINARY'])   # (-1 cannot be written into an unsigned / bool array)
                    labs2 = r.sample(ref.labels, len(ref.labels))
                    if mism and j == k - 1:
                        labs2 = labs2[:-1] if r.random() < .5 else labs2 + ['other']
                    if labs2 != ref.labels:
                        ctx.tick('concat label order differs')
                    if vt2 != ref.vt:
                        ctx.tick('concat vartype differs')
                    flds = [f for f in ['ex', 'ev'] if r.random() < .5] if mixed else ref.fields
                    s2, r2 = gen_ss(r, labels=labs2, vt=vt2, fields=flds, dt=ss.record.sample.dtype.name,
                                    m=r.choice([1, 2, 3]) if mixed else None)  # NumPy's stack_arrays wants equal field dtypes
                    o_src.append(s2.replace('ss = ', f'o{j} = ', 1)); o_refs.append(r2)
                defaults = None
                if mixed and r.random() < .5:
                    defaults = {f: F(r.randint(-3, 3)) for f in ['ex', 'ev'] if r.random() < .7}
                dsrc = '' if defaults is None else ', defaults={' + ', '.join(f'{f!r}: {int(v)}' for f, v in defaults.items()) + '}'
                code = '\n'.join(o_src) + ('\n' if o_src else '') + f"out = dimod.concatenate([{', '.join(['ss'] + ['o%d' % j for j in range(k)])}]{dsrc})"
                exp = concat_ref([ref] + o_refs, defaults)
                others = o_refs
                if mixed and len(ref.rows) == 0:
                    continue
                if empty_list:
                    code = f'out = dimod.concatenate([]{dsrc})'; exp = None; others = []; mixed = False; k = -1
                    ctx.tick('concat empty list')
                elif k == 0:
                    ctx.tick('concat single input')
                elif mism:
                    ctx.tick('concat variables mismatch')
                if defaults is not None and not empty_list:
                    ctx.tick('concat with defaults')
                if mixed:
                    ctx.tick('concat differing fields')
                    fills = {f: (defaults or {}).get(f, NUMPY_FILL[f]) for f in ['ex', 'ev']}
                    line = ('concatd 0 ' + ','.join(['0'] + [str(j + 1) for j in range(k)]) + ' '
                            + ','.join(f"{f}={':'.join([rat(v)] * WIDTH[f])}" for f, v in fills.items()))
                else:
                    line = 'concat 0 ' + (','.join(['0'] + [str(j + 1) for j in range(k)]) if k >= 0 else '-')
            elif op == 'copy':
                code = 'out = ss.copy()'; line = 'copy 0 0'; exp = ref.copy()
            elif op in ('first', 'data', 'samples', 'multi', 'handles'):
                pass
        except TypeError:
            raise
        hist_src = '\n'.join(src)

        if op in ('first', 'data', 'samples'):
            observe(ctx, r, op, ss, ref, hist_src, lines, expect, meta)
            continue
        if op in ('multi', 'handles'):
            if not lookups(ctx, r, op, ss, ref, env, src, lines, expect, meta):
                return
            continue

        # ---- run the real operation
        genv = dict(env); genv['ss'] = ss
        ok = True
        try:
            with warnings.catch_warnings():
                warnings.simplefilter('ignore')
                exec(code, genv)
            out = genv['out']
            got = ss_text(out)
        except (ValueError, KeyError, TypeError, IndexError) as e:
            ok = False; got = None; err = e
        except Exception as e:  # noqa: any other class (StopIteration, AttributeError ...) is never a documented refusal
            ok = False; got = None; err = e
            if exp is None:
                exp = 'undocumented-exception'
        ctx.tick(op + ('' if ok else ':raises'))
        full_src = hist_src + '\n' + code
        if op == 'concat' and line is not None:
            # load the other operands into registers
            for j, o in enumerate(others):
                lines.append(f'set {j + 1} {o.text()}'); expect.append('ok ' + o.text()); meta.append(('set', [full_src], None))
        nontrivial = (not ok) or got != before
        ctx.case((op, line or code, before), nontrivial=nontrivial, sample=dict(source=full_src.splitlines()[-3:]) if step == 2 else None)

        # ---- (ii) the property predicate: the plain reference
        bad = None
        if exp == 'any':
            pass
        elif exp == 'undocumented-exception':
            bad = f'call raised {exc_class(err)}: {err}, which is not a documented refusal (ValueError / KeyError / TypeError / IndexError)'
            exp = None
        elif exp is None:
            if ok:
                bad = f'call returned `{got}` but the operation is not defined for this input (expected an exception)'
        elif not ok:
            bad = f'call raised {exc_class(err)}: {err} but the result `{exp.text()}` is defined'
        elif got != exp.text():
            if tie_key is None or not same_up_to_ties(got, ref, exp, tie_key):
                bad = f'result `{got}` but the rows/columns selected by the definition are `{exp.text()}`'
        if bad is None and ok and not inplace and op != 'copy' and ss_text(ss) != before:
            bad = f'receiver changed by a non-mutating call: `{before}` -> `{ss_text(ss)}`'
        if bad is None and ok and op == 'concat':
            # every further input must come out of the call bit for bit as it went in (not only the first one)
            for j, o in enumerate(others):
                if ss_text(genv[f'o{j}']) != o.text():
                    bad = f'receiver changed: input o{j} of concatenate was modified by the call: `{o.text()}` -> `{ss_text(genv["o%d" % j])}`'
        if bad:
            site = {'slice': 'SampleSet.slice', 'truncate': 'SampleSet.truncate', 'aggregate': 'SampleSet.aggregate', 'lowest': 'SampleSet.lowest',
                    'filter': 'SampleSet.filter', 'relabel': 'SampleSet.relabel_variables', 'relabel_ip': 'SampleSet.relabel_variables',
                    'keep': 'dimod.keep_variables', 'drop': 'dimod.drop_variables', 'append_vars': 'dimod.append_variables',
                    'change': 'SampleSet.change_vartype', 'change_ip': 'SampleSet.change_vartype', 'append_vec': 'dimod.append_data_vectors',
                    'concat': 'dimod.concatenate', 'copy': 'SampleSet.copy'}[op]
            if exp is None and not ok:
                rp = PRE + hist_src + '\ntry:\n    ' + code.replace('\n', '\n    ') + '\nexcept (ValueError, KeyError, TypeError, IndexError):\n    pass\nexcept Exception as e:\n    assert False, repr(e)'
            elif exp is None:
                rp = PRE + hist_src + '\ntry:\n    ' + code.replace('\n', '\n    ') + '\nexcept (ValueError, KeyError, TypeError, IndexError):\n    pass\nelse:\n    assert False, "accepted"'
            elif not ok:
                rp = PRE + full_src
            elif tie_key is not None:
                kidx = 1 if 'energy' in line.split()[3] else 2 if 'occ' in line.split()[3] else None
                keys = [tie_key(row) for row in exp.rows]
                rp = (PRE + full_src + f'\nR, A = rows_of(out), rows_of(ss)\nkeys = {keys!r}\n'
                      + (f'assert [x[{kidx}] for x in R] == keys, (R, keys)\n' if kidx else f'assert len(R) == len(keys)\n')
                      + 'assert all(R.count(x) <= A.count(x) for x in R), (R, A)')
            elif 'input o' in bad:
                names = ', '.join('o%d' % j for j in range(len(others))) + ','
                head, tail = code.rsplit('\n', 1)
                rp = (PRE + hist_src + '\n' + head + f'\nbefore = [(rows_of(o), list(o.variables), o.vartype) for o in ({names})]\n' + tail
                      + f'\nassert [(rows_of(o), list(o.variables), o.vartype) for o in ({names})] == before, "an input was modified"')
            elif 'receiver changed' in bad:
                rp = PRE + hist_src + '\nbefore = rows_of(ss), list(ss.variables), ss.vartype\n' + code + '\nassert (rows_of(ss), list(ss.variables), ss.vartype) == before, "receiver changed"'
            else:
                rp = PRE + full_src + f'\nassert {CHECK} == {expect_code(exp)}, rows_of(out)'
            ctx.fail('property', site, 'an input changed by the call' if 'input o' in bad else 'content', bad, repro=rp, detail=dict(source=full_src))
            return
        stay = ok and not inplace and r.random() < stay_p
        if stay and line is not None:
            parts = line.split(' ')
            parts[1 if parts[0] in ('concat', 'concatd') else 2] = '9'      # the result goes to another register: register 0 stays the receiver
            line = ' '.join(parts)
        # ---- (i) correspondence line
        if line is not None:
            if ok:
                e_line = 'ok ' + got
                if tie_key is not None and got != exp.text():
                    e_line = 'ok ' + exp.text()      # a different (valid) tie order: the model is the stable one
                    ctx.tick('tie-order-differs')
                if spec_line:
                    e_line += ' # ' + exp.text()
            else:
                e_line = 'err'
            lines.append(line); expect.append(e_line); meta.append((op, [full_src], None))
        if not ok:
            if ss_text(ss) != before:
                ctx.tick('changed-before-raise')     # e.g. change_vartype shifts the energies before it rejects the vartype
                return
            continue
        if stay:
            # ---- continue the history on the receiver (it has just been looked into; it must answer the next calls as before)
            ctx.tick('history continues on the receiver')
            src.append(code)
            continue
        if inplace and env.get('_held') and op == 'change_ip':
            env.pop('_held')             # (what a held array shows after an in-place change of the values is not specified here)
        if not inplace:
            env.pop('_held', None)       # handles belong to the object they were taken from
        # ---- continue the history from the result
        src.append(code + '\nss = out')
        if tie_key is not None and got != exp.text():
            return          # the reference and the object now differ by a tie order; stop this history
        ss = out
        ref = exp if exp != 'any' else None
        if ref is None:
            return


def observe(ctx, r, op, ss, ref, hist_src, lines, expect, meta):
    """read-only views: first, data, samples"""
    if op == 'first':
        try:
            f = ss.first
            got = (dict(f.sample), f.energy, f.num_occurrences)
        except ValueError:
            got = None
        ctx.tick('first' + ('' if got else ':raises'))
        ctx.case(('first', ss_text(ss)), nontrivial=True)
        bad = None
        if not ref.rows:
            if got is not None:
                bad = 'first on an empty sample set returned a row'
            e_line = 'err'
        elif got is None:
            bad = 'first raised on a non-empty sample set'
        else:
            m = min(row[1] for row in ref.rows)
            cands = [row for row in ref.rows if row[1] == m]
            hit = [row for row in cands if [F(float(got[0][v])) for v in ref.labels] == row[0] and got[2] == row[2] and F(float(got[1])) == m]
            if not hit or set(got[0]) != set(ref.labels):
                bad = f'first = {got!r} is not a row of lowest energy'
            stable = cands[0]
            e_line = 'ok ' + Ref('', [], [], [stable]).text().split(';')[3] if hit and hit[0] is stable else None
        if bad:
            ctx.fail('property', 'SampleSet.first', 'content', bad, repro=PRE + hist_src + f'\nprint(ss.first)\nassert False, {bad!r}', detail=dict(source=hist_src))
            return
        if e_line:
            lines.append('first 0'); expect.append(e_line); meta.append(('first', [hist_src], None))
    elif op == 'data':
        by = r.choice(['energy', None, 'num_occurrences'] + (['ex'] if 'ex' in ref.fields else []))
        rev = r.random() < .4
        ctx.tick('data'); ctx.case(('data', by, rev, ss_text(ss)), nontrivial=bool(ref.rows))
        got = list(ss.data(sorted_by=by, reverse=rev, index=True, name=None))
        rows = list(enumerate(ref.rows))
        if by is not None:
            rows = sorted(rows, key=lambda t: ref.key(by)(t[1]))      # index=True asks for the stable order
        if rev:
            rows = rows[::-1]
        names = [f for f in ss.record.dtype.names if f not in REQ]
        exp = [(dict(zip(ref.labels, row[0])), row[1], row[2]) + tuple(row[3][ref.fields.index(f)] for f in names) + (i,) for i, row in rows]
        gotc = [({k: F(float(v)) for k, v in d[0].items()}, F(float(d[1])), int(d[2])) + tuple([F(float(x)) for x in np.atleast_1d(v)] for v in d[3:-1]) + (int(d[-1]),) for d in got]
        bym = {None: 'none', 'energy': 'energy', 'num_occurrences': 'occ'}.get(by) or 'x' + str(ref.fields.index(by))
        lines.append(f'dataorder 0 {bym} {int(rev)}'); expect.append('ok ' + (','.join(str(d[-1]) for d in gotc) or '-')); meta.append(('data', [hist_src], None))
        if gotc != exp:
            bad = f'data(sorted_by={by!r}, reverse={rev}, index=True) yields {gotc!r}, the definition gives {exp!r}'
            ctx.fail('property', 'SampleSet.data', 'content', bad,
                     repro=PRE + hist_src + f'\nprint(list(ss.data(sorted_by={by!r}, reverse={rev}, index=True)))\nassert False, {bad!r}', detail=dict(source=hist_src))
    else:
        by = r.choice(['energy', None, 'num_occurrences'] + (['ex'] if 'ex' in ref.fields else []))
        n = r.choice([None, 0, 1, 2, 5, -1])
        ctx.tick('samples'); ctx.case(('samples', by, n, ss_text(ss)), nontrivial=bool(ref.rows))
        sa = ss.samples(n, sorted_by=by)
        got = [[F(float(row[v])) for v in ref.labels] for row in sa]
        sel = ref.slice(by, slice(n))
        keys_ok = True
        if by is not None:
            # rows of equal energy may come in any order: compare as multisets per energy prefix
            exp_sorted = sorted(tuple(row[0]) for row in sel.rows)
            pool = [tuple(row[0]) for row in ref.rows]
            keys_ok = len(got) == len(sel.rows) and all(tuple(g) in pool for g in got)
            if keys_ok and len({ref.key(by)(row) for row in ref.rows}) == len(ref.rows):
                keys_ok = sorted(map(tuple, got)) == exp_sorted and [tuple(g) for g in got] == [tuple(row[0]) for row in sel.rows]
        else:
            keys_ok = got == [row[0] for row in sel.rows]
        if keys_ok and got == [row[0] for row in sel.rows]:     # (with ties NumPy may pick another valid order: the model is the stable one)
            bym = {None: 'none', 'energy': 'energy', 'num_occurrences': 'occ'}.get(by) or 'x' + str(ref.fields.index(by))
            lines.append(f"samples 0 {'-' if n is None else n} {bym}")
            expect.append('ok ' + ('|'.join(','.join(rat(x) for x in row) or '-' for row in got) or '-')); meta.append(('samples', [hist_src], None))
        if not keys_ok:
            bad = f'samples({n}, sorted_by={by!r}) gives {got!r}, the definition {[row[0] for row in sel.rows]!r}'
            ctx.fail('property', 'SampleSet.samples', 'content', bad,
                     repro=PRE + hist_src + f'\nprint(ss.samples({n}, sorted_by={by!r}))\nassert False, {bad!r}', detail=dict(source=hist_src))


# ------------------------------------------------------------------ r8f: label-addressed reads on one object along a history

def _fr(x):
    if isinstance(x, list):
        return [_fr(y) for y in x]
    return F(float(x))


def lookups(ctx, r, op, ss, ref, env, src, lines, expect, meta):
    """Label-addressed reads on the object and on the objects REACHED from it (`samples()` arrays taken earlier or now,
    `variables`, `record`), anywhere in a history of lookups and in-place mutations on one object.  Reference: the plain lists of
    `ref` — the value of label v in row i is `ref.rows[i][0][ref.labels.index(v)]`, whatever was looked up before.
    Returns False when a violation was reported (the history stops)."""
    hist_src = '\n'.join(src)
    m, labels = len(ref.rows), ref.labels
    g = dict(env); g['ss'] = ss
    if op == 'handles' and not env.get('_held'):
        code = 'sa_h = ss.samples(sorted_by=None); vs_h = ss.variables; rec_h = ss.record; it_h = sa_h[0:]'
        exec(code, g)
        for k in ('sa_h', 'vs_h', 'rec_h', 'it_h'):
            env[k] = g[k]
        env['_held'] = True
        src.append(code)
        ctx.tick('handles taken (samples array, variables, record)')
        return True
    held = bool(env.get('_held'))
    val = lambda i, v: ref.rows[i][0][labels.index(v)]

    def fail(site, what, rp):
        ctx.fail('property', site, 'label-addressed read on one object along a history of lookups and in-place calls', what,
                 repro=PRE + hist_src + '\n' + rp, detail=dict(source=hist_src))
        return False

    if op == 'handles':
        # the objects reached from the sample set answer for its CURRENT labels
        ctx.tick('handles re-read'); ctx.case(('handles', hist_src), nontrivial=True)
        got = (list(g['vs_h']), list(ss.variables), [g['vs_h'].index(v) for v in labels], [v in g['vs_h'] for v in labels],
               _fr(np.asarray(g['rec_h'].sample).tolist()) if labels and m else None,
               [dict((k, F(float(x))) for k, x in g['sa_h'][i].items()) for i in range(m)],
               len(g['sa_h']), [len(g['sa_h'][i]) for i in range(m)], [[F(float(x)) for x in g['it_h'][i].values()] for i in range(m)],
               [list(g['sa_h'][i].keys()) for i in range(m)])
        exp = (labels, labels, list(range(len(labels))), [True] * len(labels), [row[0] for row in ref.rows] if labels and m else None,
               [dict(zip(labels, row[0])) for row in ref.rows],
               m, [len(labels)] * m, [list(row[0]) for row in ref.rows], [list(labels)] * m)
        if got != exp:
            return fail('SampleSet.variables / samples() / record', f'held variables/samples()/record answer {got!r}, the sample set holds {exp!r}',
                        f'assert list(vs_h) == list(ss.variables) == {labels!r}\nassert [vs_h.index(v) for v in {labels!r}] == list(range({len(labels)}))\n'
                        f'assert [[float(sa_h[i][v]) for v in {labels!r}] for i in range({m})] == {[[float(x) for x in row[0]] for row in ref.rows]!r}')
        return True

    # ---- a multi-index read  <array>[rows, cols]
    if held and r.random() < .6:
        via, base = r.choice(['sa_h', 'it_h']), list(range(m))
    else:
        n = r.choice([0, 1, 2, 5])
        via, base = r.choice([('ss.samples(sorted_by=None)', list(range(m))), ('ss.samples(sorted_by=None)', list(range(m))),
                              (f'ss.samples({n}, sorted_by=None)', list(range(m))[:n]), ('ss.samples(sorted_by=None)[::-1]', list(range(m))[::-1])])
    k = len(base)
    kind = r.choice(['all', 'all', 'slice', 'int', 'list', 'array']) if k else r.choice(['all', 'slice', 'list'])
    if kind == 'all':
        rsrc, idx = ':', base
    elif kind == 'slice':
        a, b, c = r.choice([None, 0, 1, -2]), r.choice([None, 1, 3, -1]), r.choice([None, 1, 2, -1])
        rsrc = f"{'' if a is None else a}:{'' if b is None else b}:{'' if c is None else c}"; idx = base[slice(a, b, c)]
    elif kind == 'int':
        i = r.randrange(-k, k); rsrc, idx = repr(i), [base[i]]
    else:
        sel = [r.randrange(-k, k) for _ in range(r.randint(0, 3))] if k else []
        rsrc = repr(sel) if kind == 'list' else f'np.array({sel!r}, dtype=int)'; idx = [base[i] for i in sel]
    single = bool(labels) and r.random() < .25
    if single:
        cols = r.choice(labels)
        exp = [val(i, cols) for i in idx]
        if kind == 'int':
            exp = exp[0]
    else:
        cols = [r.choice(labels) for _ in range(r.randint(0, len(labels) + 1))] if labels and r.random() < .3 else r.sample(labels, r.randint(0, len(labels)))
        if r.random() < .08:
            cols = cols + ['nope']
        exp = None if 'nope' in cols else [[val(i, v) for v in cols] for i in idx]
        if exp is not None and kind == 'int':
            exp = exp[0]
    code = f'out = {via}[{rsrc}, {cols!r}]'
    try:
        exec(code, g)
        got = _fr(np.asarray(g['out']).tolist())
        if isinstance(exp, list) and exp and isinstance(exp[0], list) and not exp[0]:
            got = [list(x) for x in got]
    except KeyError:
        got = None
    except Exception as e:  # noqa
        got = ('raised', type(e).__name__, str(e))
    tag = ('single column' if single else 'multi-column') + (' through a held array' if via in ('sa_h', 'it_h') else '')
    ctx.tick(f'samples()[rows, cols] {tag}' + ('' if got is not None else ':raises'))
    ctx.case(('multi', code, ss_text(ss), held), nontrivial=bool(idx) and (single or bool(cols)))
    if got != exp:
        if isinstance(got, tuple):
            rp = code
        elif exp is None:
            rp = f'try:\n    {code}\nexcept KeyError:\n    pass\nelse:\n    assert False, ("accepted a label the sample set does not have", out)'
        else:
            fl = (lambda x: [fl(y) for y in x] if isinstance(x, list) else float(x))
            rp = f'{code}\nassert np.asarray(out).tolist() == {fl(exp)!r}, np.asarray(out).tolist()'
        return fail('SamplesArray.__getitem__', f'`{code}` gives {got!r}; under these labels the sample set holds {exp!r}', rp)
    if not single:
        mat = None if exp is None else ([exp] if kind == 'int' else exp)
        lines.append(f"getmulti 0 {','.join(map(str, idx)) or '-'} {','.join(lab(v) for v in cols) or '-'}")
        expect.append('err' if mat is None else f'ok {len(mat)}x{len(cols)} ' + ('|'.join(','.join(rat(x) for x in row) or '-' for row in mat) or '-'))
        meta.append(('getmulti', [hist_src + '\n' + code], None))
    return True


# ------------------------------------------------------------------ as_samples

def as_samples_cases(ctx, r, lines, expect, meta, ncases):
    for _ in range(ncases):
        pool = r.choice(POOLS)
        n = r.choice([0, 1, 2, 3, 3, 4]); n = min(n, len(pool))
        m = r.choice([0, 1, 1, 2, 3, 4])
        labels = r.sample(pool, n)
        vt = r.choice(['SPIN', 'BINARY', 'INTEGER', 'REAL'])
        rows = [gen_values(r, vt, n, boundary=r.random() < .5) for _ in range(m)]
        pyrows = [[float(x) if vt == 'REAL' else int(x) for x in row] for row in rows]
        forms = []
        orders = [r.sample(range(n), n) for _ in range(m)]
        dicts = '[' + ', '.join('{' + ', '.join(f'{labels[j]!r}: {pyrows[i][j]!r}' for j in orders[i]) + '}' for i in range(m)) + ']'
        forms.append(('list of dicts', dicts, labels))
        forms.append(('iterator of dicts', f'iter({dicts})', labels))
        forms.append(('(array, labels)', f'(np.array({pyrows!r}).reshape({m}, {n}), {labels!r})', labels))
        forms.append(('(list, labels)', f'({pyrows!r}, {labels!r})', labels) if m else ('(list, labels)', f'([], {labels!r})', labels))
        forms.append(('(array, Variables)', f'(np.array({pyrows!r}).reshape({m}, {n}), dimod.variables.Variables({labels!r}))', labels))
        if m:
            forms.append(('SampleSet', f'dimod.SampleSet.from_samples(({pyrows!r}, {labels!r}), {vt!r}, energy=[0]*{m}, sort_labels=False)', labels))
        rng = list(range(n))
        forms.append(('ndarray', f'np.array({pyrows!r}).reshape({m}, {n})', rng))
        if m and n:
            forms.append(('list of lists', repr(pyrows), rng))
        if m == 1:
            forms.append(('dict', dicts[1:-1], labels))
            if n:
                forms.append(('1-d list', repr(pyrows[0]), rng))
                forms.append(('1-d array', f'np.array({pyrows[0]!r})', rng))
        kw = r.choice(['', '', ', dtype=float', ', copy=True', ', labels_type=dimod.variables.Variables', ", order='F'"])
        for name, expr, labs in forms:
            code = f'arr, labs = dimod.as_samples({expr}{kw})'
            env = {}
            try:
                with warnings.catch_warnings():
                    warnings.simplefilter('ignore')
                    exec(PRE + code, env)
                arr, got_labs = env['arr'], list(env['labs'])
                ok = True
            except Exception as e:  # noqa
                ok = False; err = e
            ctx.tick('as_samples ' + name + ('' if ok else ':raises'))
            ctx.case(('as_samples', code), nontrivial=m > 0 and n > 0, sample=dict(source=code) if name == 'list of dicts' and m > 1 else None)
            bad = None
            if not ok:
                bad = f'as_samples raised {type(err).__name__}: {err}'
            else:
                if m and n:
                    if arr.shape != (m, n) or set(map(lab, got_labs)) != set(map(lab, labs)) or len(got_labs) != n:
                        bad = f'shape {arr.shape} labels {got_labs!r}; expected {(m, n)} and labels {labs!r}'
                    else:
                        for i in range(m):
                            for j, v in enumerate(labs):
                                if F(float(arr[i, got_labs.index(v)])) != F(rows[i][j]):
                                    bad = (f'row {i}: value of {v!r} is {arr[i, got_labs.index(v)]!r}, the input says {pyrows[i][j]!r}')
                                    break
                            if bad:
                                break
                else:
                    if arr.size != 0 or (m and n == 0 and (arr.shape != (m, 0) or got_labs)):
                        bad = f'degenerate input gave shape {arr.shape} labels {got_labs!r}'
            if bad:
                ctx.fail('property', 'dimod.as_samples', name, bad, repro=PRE + code + f'\nprint(arr, labs)\nassert False, {bad!r}', detail=dict(source=code))
                continue
            # correspondence for the stacked forms
            if name in ('list of dicts', 'iterator of dicts') and m:
                form = '|'.join('d:' + (','.join(f'{lab(labels[j])}={rat(F(rows[i][j]))}' for j in orders[i]) or '-') for i in range(m))
                lines.append(f'assamples 1 {form}')
                expect.append('ok ' + (','.join(lab(v) for v in got_labs) or '-') + ';' + ('|'.join(','.join(rat(x) for x in row) or '-' for row in arr) or '-'))
                meta.append(('as_samples', [code], None))
            elif name in ('(array, labels)', '(list, labels)') and m and n:
                lines.append('astuple ' + ','.join(lab(v) for v in labels) + ' ' + '|'.join(','.join(rat(F(x)) for x in row) for row in rows))
                expect.append('ok ' + ','.join(lab(v) for v in got_labs) + ';' + '|'.join(','.join(rat(x) for x in row) for row in arr))
                meta.append(('as_samples', [code], None))
        # a malformed stream: rows over different variable sets must be rejected
        if m >= 2 and n >= 1:
            code = f"arr, labs = dimod.as_samples([{{{labels[0]!r}: 1}}, {{'other': 1}}])"
            try:
                exec(PRE + code, {})
                ctx.fail('property', 'dimod.as_samples', 'different variable sets', 'accepted rows over different variables',
                         repro=PRE + code + '\nassert False', detail=dict(source=code))
            except ValueError:
                ctx.tick('as_samples mismatched:raises')
            lines.append(f'assamples 1 d:{lab(labels[0])}=1|d:s:{"other".encode().hex()}=1'); expect.append('err'); meta.append(('as_samples', [code], None))


# ------------------------------------------------------------------ as_samples: every dispatch overload (DimodModel/AsSamplesDispatch.lean)
# A form is a nested tuple; `fpy` writes it as Python source, `fwire` in the prefix notation of `samplesetdriver asform`, `fdenote`
# reads off what the input SAYS (one {label: value} per row), independently of dimod and of the model.

DTN = {'b': 'bool', 'i8': 'int8', 'i16': 'int16', 'i32': 'int32', 'i64': 'int64', 'f32': 'float32', 'f64': 'float64'}
DTW = {v: k for k, v in DTN.items()}
DT_EDGE = {'i8': [127, -128, -127], 'i16': [128, 32767, -32768, 129], 'i32': [32768, 2 ** 31 - 1, -2 ** 31], 'i64': [2 ** 31, -2 ** 31 - 1, 2 ** 40, -2 ** 63]}


def fval(r, dt, edge):
    if dt == 'b':
        return r.randint(0, 1)
    if dt.startswith('i'):
        if edge and r.random() < .3:
            ok = [x for k in ('i8', 'i16', 'i32', 'i64') for x in DT_EDGE[k] if ('i8', 'i16', 'i32', 'i64').index(k) <= ('i8', 'i16', 'i32', 'i64').index(dt)]
            return r.choice(ok)
        return r.choice([-3, 0, 1, 2, 7, -1])
    return r.choice([-3.0, 0.0, 1.0, 2.5, -0.125, 7.0, 0.75])


def pynum(x, flt):
    return repr(float(x)) if flt else repr(int(x))


def farr_py(src, shape):
    kind, dt = src
    flt = dt.startswith('f')
    if shape[0] == '0':
        body = pynum(shape[1], flt) if dt != 'b' else repr(bool(shape[1]))
        return body if kind == 'p' else f"np.array({body}, dtype='{DTN[dt]}')"
    if shape[0] == '3':
        return '[[[1]]]' if kind == 'p' else f"np.zeros((1, 2, 1), dtype='{DTN[dt]}')"
    num = (lambda x: repr(bool(x))) if dt == 'b' else (lambda x: pynum(x, flt))
    if shape[0] == '1':
        body = '[' + ', '.join(num(x) for x in shape[1]) + ']'
        return body if kind == 'p' else f"np.array({body}, dtype='{DTN[dt]}')"
    w, rows = shape[1], shape[2]
    body = '[' + ', '.join('[' + ', '.join(num(x) for x in row) + ']' for row in rows) + ']'
    return body if kind == 'p' else f"np.array({body}, dtype='{DTN[dt]}').reshape({len(rows)}, {w})"


def fpy(f):
    t = f[0]
    if t == 'M':
        return '{' + ', '.join(f'{k!r}: {pynum(v, f[2])}' for k, v in f[1]) + '}'
    if t == 'A':
        return farr_py(f[1], f[2])
    if t == 'T':
        return f'({farr_py(f[1], f[2])}, {f[3]!r})'
    if t == 'TM':
        return '({' + ', '.join(f'{k!r}: {pynum(v, f[2])}' for k, v in f[1]) + '}, ' + repr(f[3]) + ')'
    if t == 'TI':
        return f'(iter([[0] * {len(f[1])}]), {f[1]!r})'
    if t == 'TL':
        return '(' + ''.join('[0, 1], ' for _ in range(f[1])) + ')'
    if t == 'S':
        labels, rows, dt = f[1], f[2], f[3]
        return (f"dimod.SampleSet.from_samples((np.array({[[(float(x) if dt.startswith('f') else int(x)) for x in row] for row in rows]!r}, dtype='{DTN[dt]}').reshape({len(rows)}, {len(labels)}), "
                f"{labels!r}), {'REAL' if dt.startswith('f') else 'INTEGER'!r}, energy=[0] * {len(rows)}, sort_labels=False)")
    if t == 'I':
        return 'iter([' + ', '.join(fpy(g) for g in f[1]) + '])'
    if t == 'Q':
        return '[' + ', '.join(fpy(g) for g in f[1]) + ']'
    raise ValueError(t)


def fshape_w(shape):
    if shape[0] == '0':
        return '0:' + rat(F(shape[1]))
    if shape[0] == '1':
        return '1:' + (','.join(rat(F(x)) for x in shape[1]) or '-')
    if shape[0] == '2':
        return f'2:{shape[1]}:' + ('|'.join(','.join(rat(F(x)) for x in row) or '-' for row in shape[2]) or '~')
    return '3'


def fitems_w(items):
    return ','.join(f'{lab(k)}={rat(F(v))}' for k, v in items) or '-'


def flabs_w(labels):
    return ','.join(lab(v) for v in labels) or '-'


def fwire(f):
    t = f[0]
    if t == 'M':
        return f'M!{fitems_w(f[1])}!{int(f[2])}'
    if t == 'A':
        return f'A!{f[1][0]}{f[1][1]}!{fshape_w(f[2])}'
    if t == 'T':
        return f'T!{f[1][0]}{f[1][1]}!{fshape_w(f[2])}!{flabs_w(f[3])}'
    if t == 'TM':
        return f'TM!{fitems_w(f[1])}!{int(f[2])}!{flabs_w(f[3])}'
    if t == 'TI':
        return f'TI!{flabs_w(f[1])}'
    if t == 'TL':
        return f'TL!{f[1]}'
    if t == 'S':
        return f"S!{flabs_w(f[1])}!{'|'.join(','.join(rat(F(x)) for x in row) or '-' for row in f[2]) or '~'}!{f[3]}"
    return f"{t}!{len(f[1])}" + ''.join('!' + fwire(g) for g in f[1])


def frows(shape):
    if shape[0] == '0':
        return [[shape[1]]], 1
    if shape[0] == '1':
        return ([list(shape[1])], len(shape[1])) if shape[1] else ([], 0)
    if shape[0] == '2':
        return [list(x) for x in shape[2]], shape[1]
    return None, 0


def fdenote(f):
    """one list of (label, value) per row the input denotes; None where the input is malformed (no meaning)"""
    t = f[0]
    if t == 'M':
        return [list(f[1])]
    if t in ('A', 'T'):
        rows, w = frows(f[2])
        labels = list(range(w)) if t == 'A' else list(f[3])
        if rows is None or any(len(row) != len(labels) for row in rows) or len(set(map(lab, labels))) != len(labels):
            return None
        return [list(zip(labels, row)) for row in rows]
    if t == 'TM':
        d = dict(f[1])
        if any(v not in d for v in f[3]) or len(set(map(lab, f[3]))) != len(f[3]):
            return None
        return [[(v, d[v]) for v in f[3]]]
    if t == 'S':
        return [list(zip(f[1], row)) for row in f[2]]
    if t == 'Q' and not any(g[0] == 'M' for g in f[1]):
        if not all(g[0] == 'A' and g[2][0] == '1' and len(g[2][1]) == len(f[1][0][2][1]) for g in f[1]):
            return None
        return [list(zip(range(len(g[2][1])), g[2][1])) for g in f[1]] if f[1] and f[1][0][2][1] else []
    if t in ('I', 'Q'):
        out = []
        for g in f[1]:
            d = fdenote(g)
            if d is None or not d:
                return None       # an element without rows has no labels: the stacking loop has nothing to align it by (refused as coded)
            out += d
        if any({lab(k) for k, _ in row} != {lab(k) for k, _ in out[0]} for row in out):
            return None
        return out
    return None


def fvalues(f):
    t = f[0]
    if t in ('M', 'TM'):
        return [v for _, v in f[1]]
    if t in ('A', 'T'):
        rows, _ = frows(f[2])
        return [x for row in (rows or []) for x in row]
    if t == 'S':
        return [x for row in f[2] for x in row]
    if t in ('I', 'Q'):
        return [x for g in f[1] for x in fvalues(g)]
    return []


def gen_arr(r, labels_n, m, edge):
    kind = r.choice(['p', 'n'])
    dt = r.choice(['i64', 'i64', 'f64']) if kind == 'p' else r.choice(['b', 'i8', 'i16', 'i32', 'i64', 'f32', 'f64'])
    return (kind, dt), [[fval(r, dt, edge) for _ in range(labels_n)] for _ in range(m)]


def gen_elem(r, labels, edge, depth=0):
    """one samples-like over `labels` (possibly in another order): any overload"""
    n = len(labels)
    k = r.random()
    perm = r.sample(labels, n) if r.random() < .6 else list(labels)
    if k < .3:
        flt = r.random() < .3
        return ('M', [(v, fval(r, 'f64' if flt else 'i64', edge)) for v in perm], flt)
    if k < .55:
        m = r.choice([1, 1, 2, 3, 0])
        src, rows = gen_arr(r, n, m, edge)
        if m == 0 and src[0] == 'p':
            return ('T', ('p', 'f64'), ('1', []), perm)          # `[]`: NumPy reads a 1-d float64 array of size 0
        if n == 0 and src[0] == 'p':
            src = ('p', 'f64')                                    # `[[], []]`: float64
        if m == 1 and r.random() < .5 and n:
            return ('T', src, ('1', rows[0]), perm)
        return ('T', src, ('2', n, rows), perm)
    if k < .7:
        m = r.choice([1, 2, 3])
        dt = r.choice(['i8', 'i32', 'i64', 'f32', 'f64'])
        return ('S', perm, [[fval(r, dt, edge) for _ in range(n)] for _ in range(m)], dt)
    if k < .78:
        flt = r.random() < .3
        extra = [('zz', 1)] if r.random() < .3 else []
        items = [(v, fval(r, 'f64' if flt else 'i64', edge)) for v in r.sample(labels, n)] + extra
        return ('TM', items, flt, perm)
    if k < .9 and depth < 2:
        g = [gen_elem(r, labels, edge, depth + 1) for _ in range(r.choice([0, 1, 2, 2, 3]))]
        return (r.choice(['I', 'I', 'Q']), g)
    # unlabelled rows only make sense when the labels are range(n)
    if labels == list(range(n)):
        m = r.choice([1, 2])
        src, rows = gen_arr(r, n, m, edge)
        if n == 0 and src[0] == 'p':
            src = ('p', 'f64')
        return ('A', src, ('2', n, rows) if (m > 1 or r.random() < .5 or not n) else ('1', rows[0]))
    flt = r.random() < .3
    return ('M', [(v, fval(r, 'f64' if flt else 'i64', edge)) for v in perm], flt)


def fix_list(r, f, labels, edge):
    """a list is dispatched to the iterator overload only if it holds a mapping; otherwise NumPy reads it as an array: then only
    rows are generated (what NumPy makes of lists of tuples / sample sets is not dimod's business)"""
    if f[0] == 'Q' and not any(g[0] == 'M' for g in f[1]):
        n = len(labels)
        if labels == list(range(n)) and n and r.random() < .6:
            kinds = [r.choice([('p', 'i64'), ('p', 'f64'), ('n', 'i8'), ('n', 'i16'), ('n', 'f32')]) for _ in range(r.choice([1, 2, 3]))]
            return ('Q', [('A', k, ('1', [fval(r, k[1], edge) for _ in range(n)])) for k in kinds])
        flt = r.random() < .3
        g = [fix_list(r, x, labels, edge) for x in f[1]]
        g.insert(r.randrange(len(g) + 1), ('M', [(v, fval(r, 'f64' if flt else 'i64', edge)) for v in r.sample(labels, n)], flt))
        return ('Q', g)
    if f[0] in ('I', 'Q'):
        return (f[0], [fix_list(r, g, labels, edge) for g in f[1]])
    return f


def gen_malformed(r, labels, edge):
    n = len(labels)
    k = r.randrange(12)
    src, rows = gen_arr(r, n, 2, edge)
    if k == 0:
        return ('TL', r.choice([0, 1, 3])), 'tuple of the wrong length'
    if k == 1:
        return ('TI', list(labels)), '(iterator, labels)'
    if k == 2:
        return ('T', src, ('2', n, rows), list(labels) + ['extra']), 'more labels than columns'
    if k == 3 and n:
        return ('T', src, ('2', n, rows), list(labels)[:-1]), 'fewer labels than columns'
    if k == 4 and n:
        return ('T', src, ('2', n, rows), [labels[0]] * n), 'repeated labels'
    if k == 5:
        return ('A', src, ('3',)), 'three dimensions'
    if k == 6 and n >= 1:
        return ('A', ('p', 'i64'), ('2', n, [[1] * n, [1] * (n + 1)])), 'ragged rows'
    if k == 7 and n:
        return ('I', [fix_list(r, gen_elem(r, labels, edge, 2), labels, edge), ('M', [(v, 1) for v in labels[:-1]] + [('other', 1)], False), ('TI', [])]), 'rows over different variables'
    if k == 8:
        return ('T', ('n', 'f64'), ('2', 0, [[], []]), list(labels)), 'empty rows with labels'
    if k == 9:
        return ('T', ('n', 'i8'), ('2', n, []), list(labels) + (['more'] if r.random() < .5 else [])), 'no rows with labels'
    if k == 10 and n:
        return ('TM', [(v, 1) for v in labels[:-1]], False, list(labels)), '(mapping, labels) lacking a label'
    return ('I', [fix_list(r, gen_elem(r, labels, edge, 2), labels, edge), ('TL', 1)]), 'failing element after a good one'


def cast_ok(vals, dt):
    if dt is None:
        return True
    if dt.startswith('f'):
        return all(abs(v) <= 2 ** 20 for v in vals)
    if dt == 'b':
        return False
    bits = int(dt[1:])
    return all(float(v).is_integer() and -2 ** (bits - 1) <= v < 2 ** (bits - 1) for v in vals)


def as_forms_cases(ctx, r, lines, expect, meta, ncases):
    for _ in range(ncases):
        pool = r.choice(POOLS + [list(range(6))] * 3)
        n = min(r.choice([0, 1, 2, 2, 3, 3, 4]), len(pool))
        labels = list(range(n)) if pool == list(range(6)) else r.sample(pool, n)
        edge = r.random() < .4
        if r.random() < .25:
            form, icls = gen_malformed(r, labels, edge)
        else:
            form = gen_elem(r, labels, edge) if r.random() < .4 else (r.choice(['I', 'Q']), [gen_elem(r, labels, edge, 1) for _ in range(r.choice([1, 2, 2, 3, 4]))])
            form = fix_list(r, form, labels, edge)
            icls = {'M': 'dict', 'A': 'array-like', 'T': '(array, labels)', 'TM': '(dict, labels)', 'S': 'SampleSet', 'I': 'iterator', 'Q': 'list'}[form[0]]
        vals = fvalues(form)
        dt = r.choice([None, None, None, 'f64', 'f32', 'i64', 'i32', 'i16', 'i8'])
        if not cast_ok(vals, dt):
            dt = None
        cp, order, lv = r.random() < .3, r.random() < .2, r.random() < .35
        kw = (f", dtype='{DTN[dt]}'" if dt else '') + (', copy=True' if cp else '') + (", order='F'" if order else '') + (', labels_type=dimod.variables.Variables' if lv else '')
        code = f'arr, labs = dimod.as_samples({fpy(form)}{kw})'
        env = {}
        try:
            with warnings.catch_warnings():
                warnings.simplefilter('ignore')
                exec(PRE + code, env)
            arr, labs = env['arr'], env['labs']
            got = (f"ok {int(isinstance(labs, Variables))};{DTW.get(arr.dtype.name, arr.dtype.name)};{arr.shape[0]}x{arr.shape[1]};{flabs_w(list(labs))};"
                   + ('|'.join(','.join(rat(x) for x in row) or '-' for row in arr.tolist()) or '-'))
            ok = True
        except ValueError as e:
            got, ok, err = 'err value', False, e
        except TypeError as e:
            got, ok, err = 'err type', False, e
        except Exception as e:  # noqa
            got, ok, err = f'err {type(e).__name__}', False, e
        ctx.tick('as_samples dispatch ' + icls + ('' if ok else ':raises'))
        for t in {g[0] for g in ([form] + (list(form[1]) if form[0] in 'IQ' else []))}:
            ctx.tick('as_samples overload ' + {'M': '_as_samples_dict', 'A': 'as_samples (array-like)', 'T': '_as_samples_tuple', 'TM': '_as_samples_tuple (mapping, labels)',
                                                'TI': '_as_samples_tuple (iterator)', 'TL': '_as_samples_tuple (length)', 'S': '_as_samples_sampleset',
                                                'I': '_as_samples_iterator', 'Q': 'as_samples (sequence with mappings / of rows)'}[t])
        for a in (['dtype'] if dt else []) + (['copy'] if cp else []) + (['order'] if order else []) + (['labels_type'] if lv else []):
            ctx.tick('as_samples argument ' + a)
        ctx.case(('as_samples dispatch', code), nontrivial=bool(vals))
        # property, independent of the model: every value of the result is the value the input gives that label in that row,
        # nothing is lost or invented; a well-formed input is accepted
        den = fdenote(form)
        bad = None
        if den is not None and not ok and not any(v == -2 ** 63 for v in vals):
            bad = f'well-formed input refused: {type(err).__name__}: {err}'
        elif den is not None and ok:
            gl = list(labs)
            if arr.shape[0] != len(den) or (den and {lab(v) for v in gl} != {lab(k) for k, _ in den[0]}) or len(gl) != arr.shape[1]:
                bad = f'shape {arr.shape}, labels {gl!r}: the input has {len(den)} rows over {[k for k, _ in den[0]] if den else []!r}'
            else:
                for i, row in enumerate(den):
                    for k, v in row:
                        if F(arr[i, gl.index(k)].item()) != F(v):
                            bad = f'row {i}: value of {k!r} is {arr[i, gl.index(k)]!r}, the input says {v!r}'
        if bad:
            ctx.fail('property', 'dimod.as_samples', icls, bad, repro=PRE + code + f'\nprint(arr, labs)\nassert False, {bad!r}', detail=dict(source=code))
            continue
        lines.append(f"asform {dt or '-'} {int(cp)} {int(order)} {int(lv)} {fwire(form)}")
        expect.append(got)
        meta.append(('as_samples', [code], None))
        # the same input without the keyword arguments that must not matter
        if ok and (cp or order) and den is not None:
            kw2 = (f", dtype='{DTN[dt]}'" if dt else '') + (', labels_type=dimod.variables.Variables' if lv else '')
            env2 = {}
            exec(PRE + f'arr, labs = dimod.as_samples({fpy(form)}{kw2})', env2)
            if env2['arr'].tolist() != arr.tolist() or list(env2['labs']) != list(labs) or env2['arr'].dtype != arr.dtype:
                ctx.fail('property', 'dimod.as_samples', 'copy / order arguments', f'copy={cp}, order={"F" if order else "C"} changed the result of {code}',
                         repro=PRE + code + f'\na2, l2 = dimod.as_samples({fpy(form)}{kw2})\nassert a2.tolist() == arr.tolist() and list(l2) == list(labs)', detail=dict(source=code))


# ------------------------------------------------------------------ deferred (future-backed) sample sets

def lazy_cases(ctx, r, lines, expect, meta, ncases):
    for _ in range(ncases):
        src0, ref = gen_ss(r, vt=r.choice(['SPIN', 'BINARY', 'SPIN', 'BINARY', 'INTEGER']))
        env = build(src0)
        base = env['ss']
        t0 = ss_text(base)
        lines.append(f'set 0 {t0}'); expect.append('ok ' + t0); meta.append(('set', [src0], None))
        early = r.random() < .3          # the future completes before the operations are applied
        code = [src0, 'fut = concurrent.futures.Future()', 'lazy = dimod.SampleSet.from_future(fut)']
        if early:
            code.append('fut.set_result(ss.copy())')
        lines.append(f'future 0 1 {int(early)}'); expect.append(f'ok done={int(early)} {t0}'); meta.append(('future', ['\n'.join(code)], None))
        cur_ref = ref
        nops = r.randint(1, 4)
        reg = 1
        set_done = early
        chain = []
        for k in range(nops):
            kind = r.choice(['relabel', 'relabel', 'change', 'change'])
            inplace = r.random() < .5
            if kind == 'change' and not set_done and not inplace:
                # inplace=False copies the receiver first, which waits for the future: let it complete from another thread
                if r.random() < .25:
                    code.append('import threading; threading.Timer(0.004, lambda: fut.set_result(ss.copy())).start()')
                    set_done = True
                    ctx.tick('lazy change_vartype inplace=False waits for the pending future')
                else:
                    inplace = True
            if not set_done:
                ctx.tick(f'lazy pending {kind} inplace={inplace}')
            if kind == 'relabel':
                cur = cur_ref.labels if cur_ref else ref.labels
                ks = r.sample(cur, r.randint(0, len(cur))) if cur else []
                m = dict(zip(ks, r.sample(NEWLABELS, len(ks)))) if r.random() < .7 else {k_: r.choice(NEWLABELS + cur) for k_ in ks}
                code.append(f'lazy = lazy.relabel_variables({m!r}, inplace={inplace})')
                lines.append(f'lrelabel {reg} {reg + 1} {int(inplace)} ' + (','.join(f'{lab(a)}={lab(b)}' for a, b in m.items()) or '-'))
                chain.append(f'R@{int(inplace)}@' + (','.join(f'{lab(a)}={lab(b)}' for a, b in m.items()) or '-'))
                cur_ref = cur_ref.relabel(m) if cur_ref else None
            else:
                vt = r.choice(['SPIN', 'BINARY'])
                off = r.choice([F(0), F(1, 2), F(-3, 4)])
                code.append(f'lazy = lazy.change_vartype({vt!r}, energy_offset={float(off)!r}, inplace={inplace})')
                lines.append(f'lchangevt {reg} {reg + 1} {int(inplace)} {vt} {rat(off)}')
                chain.append(f'C@{int(inplace)}@{vt}@{rat(off)}')
                if off and not set_done:
                    ctx.tick('lazy pending change_vartype with energy_offset')
                cur_ref = cur_ref.change_vartype(vt, off) if cur_ref else None
            reg += 1
            expect.append('LAZY'); meta.append((kind + '-lazy', None, None))
        # the whole chain at once through the model's `chainObject` (the function `lazy_chain_eq_eager` is about)
        lines.append('lchain 1 9 ' + ';'.join(chain)); expect.append('LAZY'); meta.append(('chain-lazy', None, None))
        if not early:
            ctx.tick(f'lazy pending chain of {nops}')
        # run the script on the real objects
        genv = {}
        full = '\n'.join(code)
        try:
            with warnings.catch_warnings():
                warnings.simplefilter('ignore')
                exec(PRE + full, genv)
            lazy = genv['lazy']
            raised_early = False
        except ValueError:
            raised_early = True
        done_flag = None
        got = None
        if not raised_early:
            done_flag = lazy.done()
            if not set_done:
                genv['fut'].set_result(genv['ss'].copy())
                full += '\nfut.set_result(ss.copy())'
            try:
                got = ss_text(lazy)
            except ValueError:
                got = None
        ctx.tick('lazy chain' + (' early' if early else '') + ('' if got else ':raises'))
        ctx.case(('lazy', full), nontrivial=True, sample=dict(source=code[1:]) if nops == 2 else None)
        # (ii) the property: equals the eager result
        exp = cur_ref.text() if cur_ref else None
        if got != exp:
            bad = f'deferred result `{got}` but the same calls on the resolved sample set give `{exp}`'
            ctx.fail('property', 'SampleSet.from_future', 'relabel/change_vartype chain', bad,
                     repro=PRE + full + f'\nprint(table(lazy))\nassert False, {bad!r}', detail=dict(source=full))
        if genv.get('ss') is not None and not raised_early and ss_text(genv['ss']) != t0:
            ctx.fail('property', 'SampleSet.from_future', 'source changed', 'the sample set the future delivered was modified',
                     repro=PRE + full + '\nassert False', detail=dict(source=full))
        # (i) fill in the expected model lines of the chain: the last one carries the resolved value
        idx = [i for i in range(len(expect)) if expect[i] == 'LAZY']
        for j, i in enumerate(idx):
            if j >= len(idx) - 2 and not raised_early:
                expect[i] = f'ok done={int(done_flag)} ' + (got if got else 'err')
            else:
                expect[i] = None      # intermediate objects are not observable without resolving them
        if raised_early:
            # the call itself raised (only possible once the future is done): the model answers `err` on that line
            for i in idx:
                expect[i] = None


def slice_cases(ctx, r, lines, expect, meta):
    """`sliceIndices` of the model against CPython's `slice.indices`, small scope exhaustively"""
    vals = [None] + list(range(-6, 7))
    steps = [None, -3, -2, -1, 0, 1, 2, 3]
    ns = range(0, 5) if ctx.quick else range(0, 8)
    for n in ns:
        for a in vals:
            for b in vals:
                for c in steps:
                    sl = lambda x: '-' if x is None else str(x)
                    lines.append(f'sliceidx {n} {sl(a)} {sl(b)} {sl(c)}')
                    if c == 0:
                        expect.append('err')
                    else:
                        idx = list(range(*slice(a, b, c).indices(n)))
                        expect.append('ok ' + (','.join(map(str, idx)) or '-'))
                    meta.append(('slice.indices', [f'slice({a}, {b}, {c}).indices({n})'], None))
    ctx.tick('slice.indices table', len(ns) * len(vals) ** 2 * len(steps))


# ------------------------------------------------------------------ entry

def run(ctx):
    r = ctx.rng
    ctx.rule = ('random sample sets (4 vartypes, 6 sample dtypes, 7 label pools incl. unsortable mixes, duplicate rows, 0 rows, 0 columns, '
                'scalar and 2-d extra vectors) x random histories of 1-6 operations; as_samples over 11 input forms of one logical table; '
                'future-backed chains of relabel/change_vartype resolved late or early.  A case = one operation; non-trivial = the result '
                'differs from the receiver or the call raises; distinct by (operation line, receiver)')
    lines, expect, meta = [], [], []
    for _ in range(ctx.scale(2500, 30000)):
        history(ctx, r, lines, expect, meta)
        if len([f for f in ctx.failures if f['kind'] == 'property']) >= 6:
            break
    as_samples_cases(ctx, r, lines, expect, meta, ctx.scale(400, 6000))
    as_forms_cases(ctx, r, lines, expect, meta, ctx.scale(1500, 20000))
    lazy_cases(ctx, r, lines, expect, meta, ctx.scale(600, 8000))
    slice_cases(ctx, r, lines, expect, meta)
    got = run_driver('samplesetdriver', lines)
    ctx.corr_lines += len(lines)
    prop_sites = {f['site'] for f in ctx.failures if f['kind'] == 'property'}
    for i, ln in enumerate(lines):
        if expect[i] is None:
            continue
        g = got[i] if i < len(got) else 'MISSING'
        if g != expect[i]:
            src = (meta[i][1] or [''])[0]
            # the model follows the repaired code: where the property already failed on the real code the
            # disagreement is explained by that failure
            if meta[i][0] == 'as_samples' and 'dimod.as_samples' in prop_sites:
                continue
            ctx.fail('correspondence', 'SampleSet vs SSM', meta[i][0], f'line {i} `{ln}`: impl `{expect[i]}` model `{g}`', detail=dict(source=src))
            break
