"""C20 part (iv): VALID call sequences on the Python objects whose methods are Cython code working directly on the native
adjacency (cyQM / cyBQM): two cooperating models (`update`, `+=`, `+`, `-`, `-=`, symbolic sums, `from_bqm`,
`QuadraticModel.update(BinaryQuadraticModel)`) followed by single edits of the result.  Receiver classes: empty /
linear-only / with interactions / with an integer self-loop; classes of the other model relative to the receiver: disjoint /
shared variables in the SAME relative order / shared variables in a PERMUTED order / subset / superset; float64 / float32 in
every combination.  Plus, every run, a small-scope exhaustive sweep: every ordered subset of three variables as receiver
(linear-only and with one interaction) x every graph of the other model on three variables x two orders of the other model x
update / + .

Also: constrained models (new model by fix_variables(inplace=False) / deepcopy / from_file(to_file()) / spin_to_binary(inplace=False),
then edits of its objective and constraints), new QM / BQM models built from a result (copy, deepcopy, file round trip,
constructor from another model, relabelled copy), and discrete models (case-level edits; new model by copy / file round trip /
numpy-vectors round trip / relabelled copy; audit = symmetric case adjacency, both lookup orders, variable adjacency, counts).

Property predicate (real code only, after EVERY line, on EVERY live model): the native adjacency read through the public API
is well-formed - label list, `num_variables` and the native size agree; every neighbourhood is strictly increasing in
variable index (the binary searches of the native code rely on it), without a self-loop on a SPIN / BINARY variable,
`degree` agrees; the adjacency is symmetric with equal biases; `get_quadratic` finds every stored interaction from BOTH
sides; `iter_quadratic` lists every interaction once; `num_interactions` / `is_linear` agree with the double count - and
the polynomial equals the one computed independently with exact fractions (sum / difference of the two polynomials, the
single edit applied), and the model passed as argument is unchanged.  Runs in a child process: a crash is reported with the
history that was running.
"""
import json
import os
import subprocess

PY = '/venv/bin/python'

CHILD = r'''
import itertools, json, random, sys
from fractions import Fraction as F
import numpy as np, dimod

AUDIT_SRC = r"""
def audit(m):
    L = list(m.variables)
    idx = {v: i for i, v in enumerate(L)}
    if not (len(L) == len(idx) == m.num_variables == len(m.variables)):
        return 'labels %r vs num_variables %r' % (L, m.num_variables)
    nat = getattr(getattr(m, 'data', None), 'num_variables', None)
    if callable(nat) and nat() != len(L):
        return 'native size %r vs %d labels' % (nat(), len(L))
    nb = {}
    for v in L:
        row = list(m.iter_neighborhood(v))
        try:
            ids = [idx[u] for u, _ in row]
        except KeyError as e:
            return 'neighbourhood of %r names an unknown variable %r' % (v, e)
        if any(x >= y for x, y in zip(ids, ids[1:])):
            return 'neighbourhood of %r is not strictly sorted: %r' % (v, ids)
        if m.degree(v) != len(row):
            return 'degree(%r) = %r but %d neighbours' % (v, m.degree(v), len(row))
        nb[v] = dict(row)
    loops = 0
    for v in L:
        for u, b in nb[v].items():
            if u == v:
                loops += 1
                vt = m.vartype if isinstance(m, dimod.BinaryQuadraticModel) else m.vartype(v)
                if vt in (dimod.SPIN, dimod.BINARY):
                    return 'self-loop on the %s variable %r' % (vt.name, v)
            if v not in nb[u] or nb[u][v] != b:
                return 'asymmetric adjacency: %r-%r is %r from one side and %r from the other' % (v, u, b, nb[u].get(v))
            for x, y in ((v, u), (u, v)):
                try:
                    g = m.get_quadratic(x, y)
                except ValueError as e:
                    return 'get_quadratic(%r, %r) raised %s although the interaction is stored' % (x, y, e)
                if g != b:
                    return 'get_quadratic(%r, %r) = %r, stored %r' % (x, y, g, b)
    tot = sum(len(r) for r in nb.values())
    pairs = (tot - loops) // 2 + loops
    seen = {}
    for u, v, b in m.iter_quadratic():
        k = frozenset((u, v))
        if k in seen:
            return 'iter_quadratic lists %r-%r twice' % (u, v)
        seen[k] = b
        if v not in nb.get(u, {}) or nb[u][v] != b:
            return 'iter_quadratic yields %r-%r = %r, the neighbourhood has %r' % (u, v, b, nb.get(u, {}).get(v))
    if (tot - loops) % 2 or len(seen) != pairs or m.num_interactions != pairs:
        return 'num_interactions %r, iter_quadratic %d, double count %d (+%d self-loops)' % (m.num_interactions, len(seen), tot, loops)
    if m.is_linear() != (pairs == 0):
        return 'is_linear() = %r with %d interactions' % (m.is_linear(), pairs)
    return None


def audit_dqm(d):
    L = list(d.variables)
    if len(L) != d.num_variables():
        return 'labels %r vs num_variables %r' % (L, d.num_variables())
    npairs = ncase = 0
    for i, u in enumerate(L):
        nb = set(d.adj[u])
        if d.degree(u) != len(nb):
            return 'degree(%r) = %r but %d neighbours' % (u, d.degree(u), len(nb))
        for v in L:
            if v == u:
                continue
            def gq(x, y):
                try:
                    return d.get_quadratic(x, y)
                except ValueError:          # "there is no interaction between given variables"
                    return {}
            q = gq(u, v)
            qt = gq(v, u)
            if {(b, a): x for (a, b), x in q.items()} != dict(qt):
                return 'asymmetric: get_quadratic(%r, %r) = %r but get_quadratic(%r, %r) = %r' % (u, v, q, v, u, qt)
            if (len(q) > 0) != (v in nb):
                return 'adj[%r] %s %r but get_quadratic has %d entries' % (u, 'lists' if v in nb else 'does not list', v, len(q))
            for (a, b), x in q.items():
                if d.get_quadratic_case(u, a, v, b) != x or d.get_quadratic_case(v, b, u, a) != x:
                    return 'get_quadratic_case(%r, %d, %r, %d) disagrees with get_quadratic: %r' % (u, a, v, b, x)
            if L.index(v) > i and q:
                npairs += 1; ncase += len(q)
    if d.num_variable_interactions() != npairs or d.num_case_interactions() != ncase:
        return 'num_variable_interactions %r / num_case_interactions %r, counted %d / %d' % (
            d.num_variable_interactions(), d.num_case_interactions(), npairs, ncase)
    # the variable adjacency recomputed from the case-level vectors alone
    vec = d.to_numpy_vectors()
    starts, irow, icol = [int(x) for x in vec[0]], vec[2][0], vec[2][1]
    import bisect
    want = {u: set() for u in L}
    for rr, cc in zip(irow, icol):
        u, v = L[bisect.bisect_right(starts, int(rr)) - 1], L[bisect.bisect_right(starts, int(cc)) - 1]
        if u == v:
            return 'case-level interaction inside variable %r' % (u,)
        want[u].add(v); want[v].add(u)
    for u in L:
        if set(d.adj[u]) != want[u]:
            return 'adj[%r] = %r but its cases interact with the cases of %r (to_numpy_vectors)' % (u, sorted(d.adj[u], key=repr), sorted(want[u], key=repr))
    return None
"""
exec(AUDIT_SRC)

DECL = {'a': ('INTEGER', 0, 5), 'b': ('BINARY', None, None), 'c': ('SPIN', None, None), 'd': ('REAL', -1, 3),
        'e': ('INTEGER', -2, 4), 'f': ('BINARY', None, None), 'g': ('SPIN', None, None), 0: ('INTEGER', 0, 7),
        1: ('BINARY', None, None), ('t', 1): ('INTEGER', 0, 5)}
QL = list(DECL)
BIN = [v for v in QL if DECL[v][0] == 'BINARY']
SPN = [v for v in QL if DECL[v][0] == 'SPIN']
DT = ['np.float64', 'np.float32']
TRACE = len(sys.argv) > 3       # every line is announced before it runs (second run after a crash)


class R:
    """exact polynomial + list order"""
    def __init__(s, kind, vt=None):
        s.kind, s.vt, s.labels, s.lin, s.quad, s.off = kind, vt, [], {}, {}, F(0)
    def copy(s):
        c = R(s.kind, s.vt); c.labels, c.lin, c.quad, c.off = list(s.labels), dict(s.lin), dict(s.quad), s.off
        return c
    def ensure(s, v):
        if v not in s.lin:
            s.labels.append(v); s.lin[v] = F(0)
    def addq(s, u, v, b):
        s.ensure(u); s.ensure(v)
        k = frozenset((u, v)); s.quad[k] = s.quad.get(k, F(0)) + b
    def merge(s, o, sign=1):
        for v in o.labels:
            s.ensure(v)
        for v in o.labels:
            s.lin[v] += sign * o.lin[v]
        for k, b in o.quad.items():
            s.quad[k] = s.quad.get(k, F(0)) + sign * b
        s.off += sign * o.off
    def remove(s, v):
        s.labels.remove(v); del s.lin[v]
        s.quad = {k: b for k, b in s.quad.items() if v not in k}


def got(m):
    L = list(m.variables)
    return (L, {v: F(float(m.get_linear(v))) for v in L}, {frozenset((u, v)): F(float(b)) for u, v, b in m.iter_quadratic()}, F(float(m.offset)))


def num(x):
    return repr(float(x))


def flt(g):
    L, lin, quad, off = g
    return repr((L, {v: float(x) for v, x in lin.items()}, {(tuple(sorted(k, key=repr)) * 2)[:2]: float(x) for k, x in quad.items()}, float(off)))


class Hist:
    def __init__(s, r):
        s.r, s.lines, s.ns, s.refs, s.bad, s.cls, s.site, s.expect = r, [], {'dimod': dimod, 'np': np}, {}, None, '', 'construction', None
    def do(s, line, site=None):
        if s.bad:
            return
        s.lines.append(line)
        if site:
            s.site = site
        if TRACE:
            if len(s.lines) == 1:
                print('@@', flush=True)
            print('#' + json.dumps(line), flush=True)
        try:
            exec(line, s.ns)
        except Exception as e:
            s.bad = ('valid call raised', '`%s` raised %s: %s' % (line, type(e).__name__, e)); return
        for name in list(s.refs):
            try:
                m = eval(name, s.ns)
                a = audit(m)
            except Exception as e:
                a = 'reading the model raised %s: %s' % (type(e).__name__, e)
            if a:
                s.bad = ('native adjacency malformed', 'after `%s`: %s: %s' % (line, name, a)); return
            ref = s.refs[name]
            g = got(m)
            if ref.kind == 'expr':
                # an expression of a CQM lists its variables in its own order and may keep or drop a variable without terms:
                # the polynomial is compared up to order and zero linear biases of variables without interaction
                used = {v for k in g[2] for v in k} | {v for k in ref.quad for v in k}
                nz = lambda lin: {v: x for v, x in lin.items() if x != 0 or v in used}
                if (nz(g[1]), g[2], g[3]) != (nz(ref.lin), ref.quad, ref.off):
                    s.bad = ('wrong polynomial', 'after `%s`: %s holds %s, the polynomial is %s' % (line, name, flt(g), flt((ref.labels, ref.lin, ref.quad, ref.off))))
                    s.expect = None; return
                continue
            if g != (ref.labels, ref.lin, ref.quad, ref.off):
                s.bad = ('wrong polynomial', 'after `%s`: %s holds %s, the polynomial is %s' % (line, name, flt(g), flt((ref.labels, ref.lin, ref.quad, ref.off))))
                s.expect = (name, flt((ref.labels, ref.lin, ref.quad, ref.off))); return
    # ---- construction
    def new(s, name, kind, dt, vt=None):
        s.refs[name] = R(kind, vt)
        if kind == 'qm':
            s.do('%s = dimod.QuadraticModel(dtype=%s)' % (name, dt))
        else:
            s.do('%s = dimod.BinaryQuadraticModel(%r, dtype=%s)' % (name, vt, dt))
    def addvar(s, name, v):
        ref = s.refs[name]
        if v in ref.lin:
            return
        ref.ensure(v)
        if ref.kind == 'qm':
            vt, lb, ub = DECL[v]
            s.do('%s.add_variable(%r, %r, lower_bound=%r, upper_bound=%r)' % (name, vt, v, lb, ub))
        else:
            s.do('%s.add_variable(%r)' % (name, v))
    def al(s, name, v, b):
        s.refs[name].lin[v] += b
        s.do('%s.add_linear(%r, %s)' % (name, v, num(b)), 'add_linear')
    def aq(s, name, u, v, b, how='add_quadratic'):
        ref = s.refs[name]
        k = frozenset((u, v))
        ref.quad[k] = (ref.quad.get(k, F(0)) + b) if how == 'add_quadratic' else b
        s.do('%s.%s(%r, %r, %s)' % (name, how, u, v, num(b)), how)
    def can_interact(s, name, u, v):
        return ok_pair(s.refs[name].kind, u, v)


def ok_pair(kind, u, v):
    """a REAL variable of a quadratic model takes no interaction; a self-loop needs an INTEGER variable"""
    if kind != 'qm':
        return u != v
    if DECL[u][0] == 'REAL' or DECL[v][0] == 'REAL':
        return False
    return u != v or DECL[u][0] == 'INTEGER'


def q4(r):
    return F(r.choice([-6, -3, -2, -1, 1, 2, 3, 5, 8]), 4)


def universe(r, kind, vt):
    if kind == 'qm':
        return list(QL)
    return list(QL)        # a BQM gives every label its own vartype


def build_receiver(h, r, name, kind, dt, vt, rcls, labels):
    h.new(name, kind, dt, vt)
    for v in labels:
        h.addvar(name, v)
    for v in labels:
        if r.random() < .6:
            h.al(name, v, q4(r))
    if rcls in ('interactions', 'self-loop') and len(labels) >= 2:
        for _ in range(r.randint(1, 3)):
            u, v = r.sample(labels, 2)
            if ok_pair(kind, u, v):
                h.aq(name, u, v, q4(r))
    if rcls == 'self-loop':
        for v in labels:
            if h.can_interact(name, v, v):
                h.aq(name, v, v, q4(r)); break


def build_other(h, r, name, kind, dt, vt, labels, edges):
    h.new(name, kind, dt, vt)
    for v in labels:
        h.addvar(name, v)
    for v in labels:
        if r.random() < .5:
            h.al(name, v, q4(r))
    for u, v in edges:
        h.aq(name, u, v, q4(r))
    if r.random() < .5:
        h.refs[name].off += F(3, 4)
        h.do('%s.offset += 0.75' % name)


def pair_op(h, r, op, a, b):
    """a <op> b ; returns the name of the model holding the result"""
    ra, rb = h.refs[a], h.refs[b]
    T = 'QuadraticModel' if ra.kind == 'qm' else 'BinaryQuadraticModel'
    if op == 'update':
        ra.merge(rb); h.do('%s.update(%s)' % (a, b), T + '.update'); return a
    if op == 'iadd':
        ra.merge(rb); h.do('%s += %s' % (a, b), T + '.__iadd__'); return a
    if op == 'isub':
        ra.merge(rb, -1); h.do('%s -= %s' % (a, b), T + '.__isub__'); return a
    if op in ('add', 'sub'):
        n = ra.copy(); n.merge(rb, 1 if op == 'add' else -1)
        h.refs['n'] = n
        h.do('n = %s %s %s' % (a, '+' if op == 'add' else '-', b), T + ('.__add__' if op == 'add' else '.__sub__')); return 'n'
    raise AssertionError(op)


def follow_ups(h, r, name, k):
    for _ in range(k):
        if h.bad:
            return
        ref = h.refs[name]
        L = ref.labels
        c = r.choice(['ri', 'ri', 'sq', 'aq', 'aq', 'rv', 'rvl', 'sq0', 'al', 'newq'])
        keys = sorted(ref.quad, key=repr)
        if c == 'ri' and keys:
            t = tuple(r.choice(keys)); u, v = t[0], t[-1]
            if r.random() < .5:
                u, v = v, u
            del ref.quad[frozenset((u, v))]
            h.do('%s.remove_interaction(%r, %r)' % (name, u, v), 'remove_interaction')
        elif c in ('sq', 'sq0') and keys:
            t = tuple(r.choice(keys)); u, v = t[0], t[-1]
            if r.random() < .5:
                u, v = v, u
            h.aq(name, u, v, F(0) if c == 'sq0' else q4(r), 'set_quadratic')
        elif c in ('aq', 'newq') and len(L) >= 2:
            u, v = r.sample(L, 2)
            if not ok_pair(ref.kind, u, v):
                continue
            h.aq(name, u, v, q4(r), r.choice(['add_quadratic', 'set_quadratic']))
        elif c == 'rv' and L:
            v = r.choice(L); ref.remove(v)
            h.do('%s.remove_variable(%r)' % (name, v), 'remove_variable')
        elif c == 'rvl' and L:
            ref.remove(L[-1])
            h.do('%s.remove_variable()' % name, 'remove_variable')
        elif c == 'al' and L:
            h.al(name, r.choice(L), q4(r))


def one_history(r, kind, rcls, ocls, op, dta, dtb, rlabels=None, olabels=None, edges=None, nfollow=None):
    h = Hist(r)
    vt = r.choice(['SPIN', 'BINARY']) if kind == 'bqm' else None
    U = universe(r, kind, vt)
    if rlabels is None:
        rlabels = [] if rcls == 'empty' else r.sample(U, r.randint(2, 5))
    if olabels is None:
        shared = list(rlabels)
        fresh = [v for v in U if v not in rlabels]
        if ocls == 'disjoint':
            olabels = r.sample(fresh, r.randint(1, min(4, len(fresh))))
        elif ocls == 'same-order':
            keep = [v for v in shared if r.random() < .8]
            olabels = keep + r.sample(fresh, r.randint(0, 2))
            if r.random() < .5:      # new variables interleaved, the shared ones still in the receiver's order
                olabels = keep[:1] + r.sample(fresh, min(1, len(fresh))) + keep[1:]
                olabels = list(dict.fromkeys(olabels))
        elif ocls == 'permuted':
            keep = r.sample(shared, max(2, len(shared) - r.randint(0, 1))) if len(shared) >= 2 else list(shared)
            if keep == [v for v in shared if v in keep] and len(keep) >= 2:
                keep.reverse()
            olabels = keep + r.sample(fresh, r.randint(0, 2))
            if r.random() < .5:
                r.shuffle(olabels)
        elif ocls == 'subset':
            olabels = r.sample(shared, r.randint(1, len(shared))) if shared else r.sample(fresh, 2)
        else:  # superset
            olabels = list(reversed(shared)) + r.sample(fresh, r.randint(1, min(3, len(fresh))))
    if edges is None:
        edges = []
        for i, u in enumerate(olabels):
            for v in olabels[i + 1:]:
                if r.random() < .6 and ok_pair(kind, u, v):
                    edges.append((u, v) if r.random() < .5 else (v, u))
        if kind == 'qm':
            for v in olabels:
                if ok_pair(kind, v, v) and r.random() < .2:
                    edges.append((v, v))
        r.shuffle(edges)
    h.cls = 'receiver %s, other %s' % (rcls, ocls)
    build_receiver(h, r, 'm', kind, dta, vt, rcls, rlabels)
    if op == 'qm-update-bqm':
        # QuadraticModel.update(BinaryQuadraticModel): the variables of a binary model are BINARY / SPIN throughout
        bvt = r.choice(['BINARY', 'SPIN'])
        pool = BIN if bvt == 'BINARY' else SPN
        ol = [v for v in olabels if v in pool] or pool[:2]
        ol = ol + [v for v in pool if v not in ol][:1]
        if len([v for v in ol if v in rlabels]) >= 2:
            ol.sort(key=lambda v: -rlabels.index(v) if v in rlabels else 1)
        ed = [(u, v) for i, u in enumerate(ol) for v in ol[i + 1:] if r.random() < .7]
        h.new('o', 'bqm', dtb, bvt)
        h.refs['o'].kind = 'bqm'
        for v in ol:
            h.addvar('o', v)
        for u, v in ed:
            h.aq('o', u, v, q4(r))
        h.refs['m'].merge(h.refs['o'])
        h.do('m.update(o)', 'QuadraticModel.update(BinaryQuadraticModel)')
        res = 'm'
    elif op == 'from_bqm':
        bvt = r.choice(['BINARY', 'SPIN'])
        pool = BIN if bvt == 'BINARY' else SPN
        ol = list(pool); r.shuffle(ol)
        h.new('o', 'bqm', dtb, bvt)
        for v in ol:
            h.addvar('o', v)
        for i, u in enumerate(ol):
            for v in ol[i + 1:]:
                if r.random() < .7:
                    h.aq('o', v, u, q4(r))
        n = h.refs['o'].copy(); n.kind = 'qm'
        h.refs['n'] = n
        h.do('n = dimod.QuadraticModel.from_bqm(o)', 'QuadraticModel.from_bqm')
        res = 'n'
    else:
        build_other(h, r, 'o', kind, dtb, vt, olabels, edges)
        res = pair_op(h, r, op, 'm', 'o')
    site = h.site
    follow_ups(h, r, res, r.randint(2, 6) if nfollow is None else nfollow)
    if not h.bad and nfollow is None and r.random() < .4:
        # a NEW native model built from the result: copy / deepcopy / file round trip / constructor from another model /
        # relabelled copy; the new model is audited like every live model and then edited
        h.ns['copy'] = __import__('copy')
        rr = h.refs[res]
        T = 'QuadraticModel' if rr.kind == 'qm' else 'BinaryQuadraticModel'
        how = r.choice(['copy', 'deepcopy', 'file', 'ctor' if rr.kind == 'bqm' else 'copy', 'from_bqm' if rr.kind == 'bqm' else 'file', 'relabel'])
        n2 = rr.copy()
        if how == 'copy':
            h.refs['n2'] = n2; h.do('n2 = %s.copy()' % res, T + '.copy')
        elif how == 'deepcopy':
            h.refs['n2'] = n2; h.do('n2 = copy.deepcopy(%s)' % res, 'copy.deepcopy(%s)' % T)
        elif how == 'file':
            h.refs['n2'] = n2; h.do('n2 = dimod.%s.from_file(%s.to_file())' % (T, res), T + '.from_file')
        elif how == 'ctor':
            h.refs['n2'] = n2; h.do('n2 = dimod.BinaryQuadraticModel(%s)' % res, 'BinaryQuadraticModel(BinaryQuadraticModel)')
        elif how == 'from_bqm':
            n2.kind = 'qm'; h.refs['n2'] = n2; h.do('n2 = dimod.QuadraticModel.from_bqm(%s)' % res, 'QuadraticModel.from_bqm')
        else:
            perm = list(rr.labels); r.shuffle(perm)
            mp = dict(zip(rr.labels, perm))
            n2.labels = [mp[v] for v in rr.labels]
            n2.lin = {mp[v]: x for v, x in rr.lin.items()}
            n2.quad = {frozenset(mp[v] for v in k): x for k, x in rr.quad.items()}
            if rr.kind == 'qm' and any(DECL[v] != DECL[mp[v]] for v in rr.labels):
                n2 = None      # a quadratic model keeps vartype and bounds per position: only type-preserving renamings
            if n2 is not None:
                h.refs['n2'] = n2; h.do('n2 = %s.relabel_variables(%r, inplace=False)' % (res, mp), T + '.relabel_variables(inplace=False)')
        if 'n2' in h.refs:
            site = h.site
            h.cls += ', then a new model built from the result'
            follow_ups(h, r, 'n2', r.randint(2, 4))
    if not h.bad and r.random() < .3 and op not in ('from_bqm', 'qm-update-bqm'):
        # a second pair operation with the same argument (now every variable is shared)
        pair_op(h, r, r.choice(['update', 'iadd', 'isub']), res, 'o')
        follow_ups(h, r, res, 2)
    return h, site


def symbolic_history(r):
    """the same through the symbolic interface: (linear part) + (product terms), the receiver of `+` is a copy of a
    linear-only model that lists the shared variables in its own order"""
    h = Hist(r)
    h.cls = 'receiver linear-only, other permuted'
    vs = r.sample(['a', 'e', 0, ('t', 1), 'b', 'f', 'c'], r.randint(2, 4))
    def sym(v):
        vt, lb, ub = DECL[v]
        if vt == 'INTEGER':
            return 'dimod.Integer(%r, lower_bound=%r, upper_bound=%r)' % (v, lb, ub)
        return 'dimod.%s(%r)' % ('Binary' if vt == 'BINARY' else 'Spin', v)
    lin_order = list(vs); r.shuffle(lin_order)
    extra = r.choice([v for v in ['a', 'e', 0, 'b', 'c', 'g'] if v not in vs])
    q_order = sorted(vs + [extra], key=repr)
    if r.random() < .5:
        q_order.reverse()
    left = R('qm'); right = R('qm')
    lt, rt = [], []
    for v in lin_order:
        c = q4(r); left.ensure(v); left.lin[v] += c; lt.append('%s * %s' % (num(c), sym(v)))
    first = True
    for i, u in enumerate(q_order):
        for v in q_order[i + 1:]:
            if r.random() < .7 or (first and v == q_order[-1]):
                first = False
                c = q4(r); right.addq(u, v, c); rt.append('%s * %s * %s' % (num(c), sym(u), sym(v)))
    if not rt:
        u, v = q_order[0], q_order[-1]
        c = q4(r); right.addq(u, v, c); rt.append('%s * %s * %s' % (num(c), sym(u), sym(v)))
    tot = left.copy(); tot.merge(right)
    h.refs['n'] = tot
    h.do('n = (%s) + (%s)' % (' + '.join(lt), ' + '.join(rt)), 'symbolic sum')
    site = h.site
    follow_ups(h, r, 'n', r.randint(1, 4))
    return h, site


def cqm_history(r):
    """operations that BUILD A NEW native model from a constrained model: `fix_variables(..., inplace=False)`, `copy.deepcopy`,
    `from_file(to_file())`, `spin_to_binary(inplace=False)`, `relabel_variables(inplace=False)`; the objective and every
    constraint of the RESULT (and of the source, which must be unchanged) are audited, then the result is edited"""
    h = Hist(r)
    h.ns['copy'] = __import__('copy')
    pool = [v for v in QL if DECL[v][0] != 'REAL']
    allv = r.sample(pool, r.randint(4, 6))
    h.do('c = dimod.ConstrainedQuadraticModel()')
    exprs = []
    nexpr = r.randint(1, 3)
    for k in range(nexpr):
        name = 'q%d' % k
        vs = r.sample(allv, r.randint(3, min(5, len(allv))))
        h.new(name, 'qm', r.choice(DT))
        order = list(vs); r.shuffle(order)
        for v in order:
            h.addvar(name, v)
        pairs = [(u, v) for i, u in enumerate(vs) for v in vs[i + 1:]]
        r.shuffle(pairs)
        steps = [('q', p if r.random() < .5 else p[::-1]) for p in pairs[:max(3, r.randint(2, len(pairs)))]]
        steps += [('l', v) for v in r.sample(vs, r.randint(1, len(vs) - 1))]      # some variables keep a zero linear bias
        r.shuffle(steps)
        for kind, x in steps:
            if kind == 'q':
                h.aq(name, x[0], x[1], q4(r))
            else:
                h.al(name, x, q4(r))
        if r.random() < .5:
            h.refs[name].off += F(1, 2); h.do('%s.offset += 0.5' % name)
        exprs.append(name)
    # the CQM holds copies of the models
    h.do('c.set_objective(%s)' % exprs[0], 'ConstrainedQuadraticModel.set_objective')
    views = {'c.objective': h.refs[exprs[0]].copy()}
    for k, name in enumerate(exprs[1:]):
        h.do("c.add_constraint_from_model(%s, %r, 1.0, label='k%d', copy=True)" % (name, r.choice(['<=', '>=', '==']), k), 'ConstrainedQuadraticModel.add_constraint_from_model')
        views["c.constraints['k%d'].lhs" % k] = h.refs[name].copy()
    for nm, ref in views.items():
        ref.kind = 'expr'; h.refs[nm] = ref
    h.do('pass')
    if h.bad:
        return h, h.site
    builder = r.choice(['fix', 'fix', 'fix', 'deepcopy', 'file', 'stb', 'fix1'])
    h.cls = 'new constrained model by ' + {'fix': 'fix_variables(inplace=False)', 'fix1': 'fix_variables(inplace=False)', 'deepcopy': 'copy.deepcopy',
                                           'file': 'from_file(to_file())', 'stb': 'spin_to_binary(inplace=False)'}[builder]
    def fixed_ref(ref, fixed):
        n = R('expr')
        n.off = ref.off
        for v in ref.labels:
            if v in fixed:
                n.off += ref.lin[v] * fixed[v]
            else:
                n.ensure(v); n.lin[v] += ref.lin[v]
        for kk, b in ref.quad.items():
            t = tuple(kk); u, v = t[0], t[-1]
            if u in fixed and v in fixed:
                n.off += b * fixed[u] * fixed[v]
            elif u in fixed:
                n.ensure(v); n.lin[v] += b * fixed[u]
            elif v in fixed:
                n.ensure(u); n.lin[u] += b * fixed[v]
            else:
                n.ensure(u); n.ensure(v); n.quad[kk] = n.quad.get(kk, F(0)) + b
        return n
    if builder in ('fix', 'fix1'):
        cand = [v for v in allv if any(v in ref.lin for ref in views.values())]      # only variables the model has
        fv = r.sample(cand, 1 if builder == 'fix1' else r.randint(0, max(0, len(cand) - 3)))
        fixed = {}
        for v in fv:
            vt = DECL[v][0]
            fixed[v] = F(r.choice([0, 1])) if vt == 'BINARY' else F(r.choice([-1, 1])) if vt == 'SPIN' else F(r.choice([0, 1, 2]))
        new = {nm.replace('c.', 'n.', 1): fixed_ref(ref, fixed) for nm, ref in views.items()}
        for nm, ref in new.items():
            h.refs[nm] = ref
        h.do('n = c.fix_variables(%r, inplace=False)' % ({v: float(x) for v, x in fixed.items()},), 'ConstrainedQuadraticModel.fix_variables(inplace=False)')
    elif builder == 'deepcopy':
        for nm, ref in views.items():
            h.refs[nm.replace('c.', 'n.', 1)] = ref.copy()
        h.do('n = copy.deepcopy(c)', 'copy.deepcopy(ConstrainedQuadraticModel)')
    elif builder == 'file':
        for nm, ref in views.items():
            h.refs[nm.replace('c.', 'n.', 1)] = ref.copy()
        h.do('n = dimod.ConstrainedQuadraticModel.from_file(c.to_file())', 'ConstrainedQuadraticModel.from_file')
    else:
        # s = 2x - 1 for every SPIN variable
        def stb(ref):
            n = ref.copy()
            for v in list(n.labels):
                if DECL[v][0] != 'SPIN':
                    continue
                n.off -= n.lin[v]
                for kk in list(n.quad):
                    if v in kk and len(kk) == 2:
                        w = next(iter(kk - {v})); b = n.quad[kk]
                        n.lin[w] -= b; n.quad[kk] = 2 * b
                n.lin[v] *= 2
            return n
        for nm, ref in views.items():
            h.refs[nm.replace('c.', 'n.', 1)] = stb(ref)
        h.do('n = c.spin_to_binary(inplace=False)', 'ConstrainedQuadraticModel.spin_to_binary(inplace=False)')
    site = h.site
    # edit the result
    names = [nm for nm in h.refs if nm.startswith('n.')]
    for _ in range(r.randint(2, 5)):
        if h.bad or not names:
            break
        nm = r.choice(names); ref = h.refs[nm]
        keys = sorted(ref.quad, key=repr)
        c = r.choice(['ri', 'aq', 'aq', 'al'])      # (an expression view has no set_quadratic: NotImplementedError)
        if c == 'al' and ref.labels:
            h.al(nm, r.choice(ref.labels), q4(r))
        elif c == 'ri' and keys:
            t = tuple(r.choice(keys)); u, v = (t[0], t[-1]) if r.random() < .5 else (t[-1], t[0])
            del ref.quad[frozenset((u, v))]
            h.do('%s.remove_interaction(%r, %r)' % (nm, u, v), 'remove_interaction')
        elif len(ref.labels) >= 2:
            u, v = r.sample(ref.labels, 2)
            if u != v and DECL[u][0] != 'REAL' and DECL[v][0] != 'REAL':
                h.aq(nm, u, v, q4(r), 'add_quadratic')
    return h, site


def dqm_history(r):
    """discrete models: case-level edits, then a NEW native model built from the model (copy, file round trip, vectors round
    trip, relabelled copy), then edits of the new model; every live model is audited after every line (symmetric case
    adjacency, both lookup orders, variable adjacency, counts) and compared with an independent dict of exact fractions"""
    lines, ns, refs = [], {'dimod': dimod, 'np': np}, {}
    state = {'bad': None, 'site': 'DiscreteQuadraticModel construction'}
    def do(line, site=None, post=None):
        if state['bad']:
            return
        lines.append(line)
        if site:
            state['site'] = site
        if TRACE:
            if len(lines) == 1:
                print('@@', flush=True)
            print('#' + json.dumps(line), flush=True)
        try:
            exec(line, ns)
        except Exception as e:
            state['bad'] = ('valid call raised', '`%s` raised %s: %s' % (line, type(e).__name__, e)); return
        if post:
            post()
        for name, ref in refs.items():
            d = ns[name]
            try:
                a = audit_dqm(d)
            except Exception as e:
                a = 'reading the model raised %s: %s' % (type(e).__name__, e)
            if a:
                state['bad'] = ('native adjacency malformed', 'after `%s`: %s: %s' % (line, name, a)); return
            L = list(d.variables)
            if L != ref['labels']:
                state['bad'] = ('wrong polynomial', 'after `%s`: %s has variables %r, expected %r' % (line, name, L, ref['labels'])); return
            for v in L:
                if [F(float(x)) for x in d.get_linear(v)] != ref['lin'][v]:
                    state['bad'] = ('wrong polynomial', 'after `%s`: %s.get_linear(%r) = %r, expected %r' % (line, name, v, list(d.get_linear(v)), [float(x) for x in ref['lin'][v]])); return
            for i, u in enumerate(L):
                for v in L[i + 1:]:
                    want = {(a, b): x for (uu, a, vv, b), x in ref['quad'].items() if (uu, vv) == (u, v)}
                    want.update({(b, a): x for (uu, a, vv, b), x in ref['quad'].items() if (uu, vv) == (v, u)})
                    try:
                        got_q = {k: F(float(x)) for k, x in d.get_quadratic(u, v).items()}
                    except ValueError:
                        got_q = {}
                    if got_q != want:
                        state['bad'] = ('wrong polynomial', 'after `%s`: %s.get_quadratic(%r, %r) = %r, expected %r' % (line, name, u, v, got_q, want)); return
    def setq(name, u, a, v, b, x):
        ref = refs[name]
        if (v, b, u, a) in ref['quad']:
            ref['quad'][(v, b, u, a)] = x
        else:
            ref['quad'][(u, a, v, b)] = x
        do('%s.set_quadratic_case(%r, %d, %r, %d, %s)' % (name, u, a, v, b, num(x)), 'DiscreteQuadraticModel.set_quadratic_case')
    def eqref(ref, terms, lag, const):
        # lag * (sum_i a_i x_i + const)**2 expanded by hand; two cases of one variable never interact
        for i, (u, a, x) in enumerate(terms):
            ref['lin'][u][a] += lag * x * (2 * const + x)
            for v, b, y in terms[i + 1:]:
                if v != u:
                    k = (v, b, u, a) if (v, b, u, a) in ref['quad'] else (u, a, v, b)
                    ref['quad'][k] = ref['quad'].get(k, F(0)) + 2 * lag * x * y
    def constraint(name, ineq):
        # over a random SUBSET of the variables, so that a member can already have enough neighbours outside the constraint
        ref = refs[name]
        L = [v for v in ref['labels'] if not str(v).startswith('slack_')]
        vs = r.sample(L, r.randint(2, len(L)))
        cells = [(v, c) for v in vs for c in range(len(ref['lin'][v]))]
        extra = [t for t in cells if r.random() < .3]
        pick = [(v, r.randrange(len(ref['lin'][v]))) for v in vs]
        pick += [t for t in extra if t not in pick]
        lag = r.choice([F(1), F(2), F(1, 2)])
        nbr = {v: set() for v in ref['labels']}
        for (u, _a, v, _b) in ref['quad']:
            nbr[u].add(v); nbr[v].add(u)
        if any(len(nbr[v]) >= len(vs) - 1 and not (set(vs) - {v}) <= nbr[v] for v in vs):
            state['crowded'] = state.get('crowded', 0) + 1      # a member with many neighbours, not all of them members
        if not ineq:
            terms = [(v, c, q4(r)) for v, c in pick]
            const = q4(r)
            eqref(ref, terms, lag, const)
            do('%s.add_linear_equality_constraint([%s], %s, %s)' % (name, ', '.join('(%r, %d, %s)' % (v, c, num(x)) for v, c, x in terms), num(lag), num(const)),
               'DiscreteQuadraticModel.add_linear_equality_constraint')
            return
        terms = [(v, c, F(r.randint(1, 3))) for v, c in pick]
        ub = r.randint(1, int(sum(x for _, _, x in terms)) - 1)     # below the largest value: never trivially feasible, slack >= 1
        state['nineq'] = state.get('nineq', 0) + 1
        label = 'q%d' % state['nineq']
        def post():
            d = ns[name]
            slack = [(v, int(c), F(int(x))) for v, c, x in ns['sl']]
            for v in d.variables:
                if v not in ref['lin']:
                    ref['labels'].append(v); ref['lin'][v] = [F(0)] * d.num_cases(v)
            eqref(ref, terms + slack, lag, F(-ub))
        do('sl = %s.add_linear_inequality_constraint([%s], %s, %r, ub=%d)' % (name, ', '.join('(%r, %d, %d)' % (v, c, int(x)) for v, c, x in terms), num(lag), label, ub),
           'DiscreteQuadraticModel.add_linear_inequality_constraint', post=post)
    labels = r.sample(['a', 'b', 'c', 0, 1, ('t', 1)], r.randint(2, 5))
    ncases = {v: r.randint(1, 3) for v in labels}
    refs['d'] = dict(labels=[], lin={}, quad={})
    do('d = dimod.DiscreteQuadraticModel()')
    for v in labels:
        refs['d']['labels'].append(v); refs['d']['lin'][v] = [F(0)] * ncases[v]
        do('d.add_variable(%d, %r)' % (ncases[v], v), 'DiscreteQuadraticModel.add_variable')
    def edits(name, k):
        for _ in range(k):
            if state['bad']:
                return
            ref = refs[name]
            L = ref['labels']
            if r.random() < .3:
                v = r.choice(L); c = r.randrange(len(ref['lin'][v])); x = q4(r)
                ref['lin'][v][c] = x
                do('%s.set_linear_case(%r, %d, %s)' % (name, v, c, num(x)), 'DiscreteQuadraticModel.set_linear_case')
            else:
                u, v = r.sample(L, 2)
                setq(name, u, r.randrange(len(ref['lin'][u])), v, r.randrange(len(ref['lin'][v])), q4(r))
    edits('d', r.randint(3, 9))
    ncon = r.choice([0, 1, 1, 2])
    for _ in range(ncon):
        if not state['bad']:
            constraint('d', r.random() < .3)
    if ncon and not state['bad']:
        state['cls'] = 'pair edits, then a penalty constraint over a subset of the variables'
        edits('d', r.randint(0, 2))
    if state['bad']:
        return lines, state
    how = r.choice(['copy', 'file', 'vectors', 'relabel'])
    src = refs['d']
    new = dict(labels=list(src['labels']), lin={v: list(x) for v, x in src['lin'].items()}, quad=dict(src['quad']))
    if how == 'copy':
        refs['n'] = new; do('n = d.copy()', 'DiscreteQuadraticModel.copy')
    elif how == 'file':
        refs['n'] = new; do('n = dimod.DiscreteQuadraticModel.from_file(d.to_file())', 'DiscreteQuadraticModel.from_file')
    elif how == 'vectors':
        refs['n'] = new; do('n = dimod.DiscreteQuadraticModel.from_numpy_vectors(*d.to_numpy_vectors())', 'DiscreteQuadraticModel.from_numpy_vectors')
    else:
        perm = list(src['labels']); r.shuffle(perm)
        mp = dict(zip(src['labels'], perm))
        new = dict(labels=[mp[v] for v in src['labels']], lin={mp[v]: list(x) for v, x in src['lin'].items()},
                   quad={(mp[u], a, mp[v], b): x for (u, a, v, b), x in src['quad'].items()})
        refs['n'] = new; do('n = d.relabel_variables(%r, inplace=False)' % (mp,), 'DiscreteQuadraticModel.relabel_variables(inplace=False)')
    state['cls'] = 'new discrete model by ' + how + (' after a penalty constraint' if ncon else '')
    site = state['site']
    edits('n', r.randint(2, 5))
    if r.random() < .3 and not state['bad']:
        constraint('n', r.random() < .3)
    state['site'] = site
    return lines, state


def graphs3(labels):
    prs = list(itertools.combinations(labels, 2))
    for bits in range(1, 1 << len(prs)):
        yield [p for i, p in enumerate(prs) if bits >> i & 1]


def main():
    seed, nrand = int(sys.argv[1]), int(sys.argv[2])
    r = random.Random(seed)
    out, ticks, n = [], {}, 0
    def tick(k):
        ticks[k] = ticks.get(k, 0) + 1
    def finish(h, site, tag):
        nonlocal n
        n += 1
        tick('pyseq:' + tag)
        ticks['pyseq-lines'] = ticks.get('pyseq-lines', 0) + len(h.lines)
        if h.bad:
            out.append(dict(site=site if site != 'construction' else h.site, cls=h.cls + ' (' + h.bad[0] + ')', what=h.bad[1], lines=h.lines, expect=h.expect, names=list(h.refs)))
    RC = ['empty', 'linear-only', 'linear-only', 'interactions', 'self-loop']
    OC = ['disjoint', 'same-order', 'permuted', 'permuted', 'subset', 'superset']
    OPS = ['update', 'update', 'iadd', 'add', 'sub', 'isub']
    for i in range(nrand):
        kind = r.choice(['qm', 'qm', 'bqm'])
        rcls = r.choice(RC if kind == 'qm' else RC[:-1])
        ocls = r.choice(OC)
        if rcls == 'empty' and ocls in ('same-order', 'permuted', 'subset'):
            ocls = 'disjoint'
        x = r.random()
        if kind == 'qm' and x < .08:
            op = 'qm-update-bqm'
        elif kind == 'qm' and x < .12:
            op = 'from_bqm'
        elif kind == 'qm' and x < .2:
            print('@' + json.dumps(['symbolic']), flush=True)
            h, site = symbolic_history(r)
            print('@' + json.dumps(h.lines), flush=True)
            finish(h, site, 'symbolic:' + h.cls); continue
        else:
            op = r.choice(OPS)
        dta, dtb = r.choice(DT), r.choice(DT)
        print('@' + json.dumps([kind, rcls, ocls, op]), flush=True)
        h, site = one_history(r, kind, rcls, ocls, op, dta, dtb)
        print('@' + json.dumps(h.lines), flush=True)
        finish(h, site, '%s:%s:%s/%s' % (kind, op, rcls, ocls))
    for i in range(nrand // 3):
        print('@' + json.dumps(['cqm']), flush=True)
        h, site = cqm_history(r)
        finish(h, site, 'cqm:' + h.cls)
    for i in range(nrand // 5):
        print('@' + json.dumps(['dqm']), flush=True)
        lines, state = dqm_history(r)
        n += 1
        tick('pyseq:dqm:' + state.get('cls', 'construction'))
        if state.get('crowded'):
            tick('pyseq:dqm:constraint on a member that already has as many outside neighbours as the constraint has other members')
        ticks['pyseq-lines'] = ticks.get('pyseq-lines', 0) + len(lines)
        if state['bad']:
            out.append(dict(site=state['site'], cls=state.get('cls', 'discrete model') + ' (' + state['bad'][0] + ')', what=state['bad'][1],
                            lines=lines, expect=None, names=['d', 'n'], dqm=True))
    # small scope, exhaustive
    V3 = ['a', 'e', 0]      # three INTEGER variables (a QM) / three labels (a BQM)
    for kind in ('qm', 'bqm'):
        for k in range(0, 4):
            for rl in itertools.permutations(V3, k):
                for rcls in (('linear-only',) if k < 2 else ('linear-only', 'interactions')):
                    for ol in (V3, V3[::-1]):
                        for edges in graphs3(ol):
                            for op in ('update', 'add'):
                                shared = [v for v in ol if v in rl]
                                ocls = ('disjoint' if not shared else 'same-order' if shared == [v for v in rl if v in ol] else 'permuted')
                                h, site = one_history(r, kind, rcls if k else 'empty', ocls, op, DT[0], DT[0], rlabels=list(rl), olabels=list(ol),
                                                      edges=list(edges), nfollow=1)
                                finish(h, site, 'exhaustive:%s:%s' % (kind, op))
    print('RESULT ' + json.dumps(dict(failures=out[:40], nfail=len(out), ticks=ticks, histories=n)))


main()
'''

REPRO = '''import copy
import numpy as np, dimod
%(audit)s
lines = %(lines)r
names = %(names)r
ns = {'dimod': dimod, 'np': np, 'copy': copy}
for ln in lines:
    exec(ln, ns)
    for name in names:
        try:
            obj = eval(name, ns)
        except (NameError, KeyError, AttributeError):
            continue
        bad = audit_dqm(obj) if isinstance(obj, dimod.DiscreteQuadraticModel) else audit(obj)
        assert not bad, 'after `%%s`: %%s: %%s' %% (ln, name, bad)
'''

REPRO_POLY = REPRO + '''
def state(m):
    L = list(m.variables)
    return (L, {v: float(m.get_linear(v)) for v in L}, {tuple(sorted((u, v), key=repr)): float(b) for u, v, b in m.iter_quadratic()}, float(m.offset))
expected = %(expect)s
assert state(ns[%(name)r]) == expected, (state(ns[%(name)r]), expected)
'''


def audit_src():
    return CHILD.split('AUDIT_SRC = r"""', 1)[1].split('"""', 1)[0]


def pyseq_part(ctx):
    import time
    t0 = time.time()
    nrand = ctx.scale(700, 12000)
    seed = ctx.rng.randrange(1 << 30)
    try:
        p = subprocess.run([PY, '-c', CHILD, str(seed), str(nrand)], capture_output=True, text=True, timeout=ctx.scale(600, 3000),
                           env=dict(os.environ))
        rc, outp, err = p.returncode, p.stdout, p.stderr
    except subprocess.TimeoutExpired as e:
        rc, outp, err = 'timeout', (e.stdout or b'').decode() if isinstance(e.stdout, bytes) else (e.stdout or ''), ''
    lines = outp.strip().splitlines()
    if rc == 0 and lines and lines[-1].startswith('RESULT '):
        res = json.loads(lines[-1][7:])
    else:
        # the interpreter died: run the same sequences again, every line announced before it is executed
        try:
            p2 = subprocess.run([PY, '-c', CHILD, str(seed), str(nrand), 'trace'], capture_output=True, text=True,
                                timeout=ctx.scale(900, 4000), env=dict(os.environ))
            out2, err2 = p2.stdout, p2.stderr
        except subprocess.TimeoutExpired:
            out2, err2 = '', ''
        hist = []
        for x in out2.splitlines():
            if x == '@@':
                hist = []
            elif x.startswith('#'):
                hist.append(json.loads(x[1:]))
        call = hist[-1] if hist else '?'
        site = 'Python call sequence (cyQM / cyBQM)'
        for name in ('update', '__iadd__', '__isub__', 'from_bqm'):
            if ('.' + name + '(') in call:
                site = name
        if ' += ' in call: site = '__iadd__'
        if ' -= ' in call: site = '__isub__'
        if call.startswith('n = ') and (' + ' in call or ' - ' in call): site = 'sum / difference of two models'
        import re as _re
        mm = _re.search(r'\.(fix_variables|from_file|spin_to_binary|deepcopy|set_objective|add_constraint_from_model|from_bqm)\(', call)
        if mm: site = mm.group(1)
        ctx.fail('crash', site, 'interpreter died during a valid call sequence',
                 f'child exited {rc} while running `{call}`; stderr: {(err2 or err)[-400:]}',
                 repro=("import subprocess, sys\nsrc = %r\np = subprocess.run([sys.executable, '-c', src], capture_output=True, text=True)\n"
                        "print(p.stdout[-800:], p.stderr[-800:]); assert p.returncode == 0\n" % (REPRO % dict(audit=audit_src(), lines=hist, names=['m', 'o', 'n', 'c.objective', 'n.objective'] + ["%s.constraints['k%d'].lhs" % (x, k) for x in 'cn' for k in range(3)]),)) if hist else None,
                 detail=dict(seed=seed, nrand=nrand, history=hist[-14:]))
        return
    for k, v in res['ticks'].items():
        ctx.tick(k if k == 'pyseq-lines' else k, v)
    ctx.extra['pyseq_histories'] = res['histories']
    ctx.extra['pyseq_seconds'] = round(time.time() - t0, 1)
    ctx.case(('pyseq', seed, nrand), nontrivial=True,
             sample=dict(kind='valid Python call sequences on two cooperating models', histories=res['histories'], failures=res['nfail']))
    for f in res['failures']:
        if f.get('expect'):
            rp = REPRO_POLY % dict(audit=audit_src(), lines=f['lines'], names=f.get('names', ['m', 'o', 'n']), name=f['expect'][0], expect=f['expect'][1])
        else:       # malformed adjacency (the audit asserts) or a valid call that raised (the replay raises)
            rp = REPRO % dict(audit=audit_src(), lines=f['lines'], names=f.get('names', ['m', 'o', 'n']))
        ctx.fail('property', f['site'], f['cls'], f['what'], repro=rp, detail=dict(history=f['lines'][-14:]))
