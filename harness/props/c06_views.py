"""C06, round 8 — expression VIEWS of a CQM as operands, with histories; `sum` / `quicksum` with start values.

One scenario = one CQM (objective + 1..3 constraints built from small operand trees; in 2/3 of the scenarios the parent's
variables are registered first in DESCENDING or shuffled order, so the views' variable order differs from the parent's) and a
history of steps executed as *source lines* (the repro of a failure is exactly the lines that ran):

  view (+|-) x, x (+|-) view, t = view; t (+=|-=) x, t = x; t (+=|-=) view      x: number, 0, BQM, variable-free BQM with an
      offset (4 constructions), QM, variable-free QM with an offset, a view of the same or of another CQM, the view itself
  (view op x) (<=|>=|==) c, c (<=|>=|==) (view op x), bare `view <= c`; cqm.add_constraint(comparison) on the view's OWN parent
  cqm.set_objective(view op x) on the view's own parent (the held view object must read the new objective)
  in-place mutation of the parent (view.add_linear / set_linear / add_quadratic / offset, cqm.set_objective, remove_constraint
      of ANOTHER constraint, cqm.add_variable) followed by the same operators on the OLD view object
  sum(items) / sum(items, start) / dimod.quicksum(items) over lists, tuples, generators, iter(), map objects, empty iterables

Predicate (independent of the Lean model): the reference of every object is a polynomial in exact Fractions computed from
the construction trees and the steps; after every step every read accessor of the result and of every live view
(variables, vartype, bounds, get_linear, linear[v], iter_linear, quadratic, get_quadratic both orders, iter_quadratic, adj,
iter_neighborhood, degree, num_interactions, num_variables, shape, is_linear, offset, energies on the full grid of small
samples) must agree with each other and with the reference; operands must read the same before and after.
Correspondence: the same step as a `symdriver` line (views after a mutation enter as a canonical tree of their reference).
"""
import inspect
import itertools
from fractions import Fraction as F

import numpy as np

import dimod
from dimod import BinaryQuadraticModel as BQM
from harness.common import lab, rat

VTN = {'SPIN': 'S', 'BINARY': 'B', 'INTEGER': 'I', 'REAL': 'R'}
VTNAME = {'S': 'SPIN', 'B': 'BINARY', 'I': 'INTEGER', 'R': 'REAL'}


# ---------------------------------------------------------------- readers (self-contained: their source goes into repros)

def read_all(o):
    """every read accessor of a model / view, cross-checked; -> (variables, info, linear, quadratic, offset) in exact Fractions"""
    from fractions import Fraction as F
    import numpy as np
    import dimod
    if not hasattr(o, 'variables'):
        return ('num', F(float(o)))
    isb = isinstance(o, dimod.BinaryQuadraticModel)
    vs = list(o.variables)

    def chk(name, a, b):
        if a != b:
            raise AssertionError(f'read accessors disagree: {name}: {a!r} != {b!r}')
    chk('num_variables', o.num_variables, len(vs))
    info = {}
    for v in vs:
        if isb:
            info[v] = (o.vartype.name, F(-1 if o.vartype is dimod.SPIN else 0), F(1))
        else:
            info[v] = (o.vartype(v).name, F(float(o.lower_bound(v))), F(float(o.upper_bound(v))))
    lin = {v: F(float(o.get_linear(v))) for v in vs}
    chk('linear[v]', {v: F(float(o.linear[v])) for v in vs}, lin)
    chk('linear keys', list(o.linear), vs)
    chk('iter_linear', [(v, F(float(b))) for v, b in o.iter_linear()], [(v, lin[v]) for v in vs])
    key = lambda u, v: tuple(sorted((u, v), key=repr))      # noqa: E731
    quad = {}
    for u, v, b in o.iter_quadratic():
        chk('iter_quadratic repeats an interaction', key(u, v) in quad, False)
        quad[key(u, v)] = F(float(b))
    chk('quadratic', {key(u, v): F(float(b)) for (u, v), b in o.quadratic.items()}, quad)
    chk('num_interactions', o.num_interactions, len(quad))
    chk('shape', tuple(o.shape), (len(vs), len(quad)))
    chk('is_linear', bool(o.is_linear()), not quad)
    for (u, v), b in quad.items():
        chk(f'get_quadratic({u!r},{v!r})', F(float(o.get_quadratic(u, v))), b)
        chk(f'get_quadratic({v!r},{u!r})', F(float(o.get_quadratic(v, u))), b)
    for v in vs:
        nb = {key(v, w): F(float(b)) for w, b in o.iter_neighborhood(v)}
        chk(f'iter_neighborhood({v!r})', nb, {k: b for k, b in quad.items() if v in k})
        chk(f'adj[{v!r}]', {key(v, w): F(float(b)) for w, b in o.adj[v].items()}, nb)
        chk(f'degree({v!r})', o.degree(v), len(nb))
    return (tuple(vs), info, lin, quad, F(float(o.offset)))


def grid_energies(o, vs, grid):
    """`energies` of the real object on every sample of the grid, as exact Fractions"""
    if not hasattr(o, 'variables'):
        return [F(float(o))] * len(grid)
    if not vs:
        return [F(float(o.offset))] * len(grid)
    arr = np.array([[float(x[v]) for v in vs] for x in grid])
    return [F(float(e)) for e in o.energies((arr, list(vs)))]


READSRC = inspect.getsource(read_all)


# ---------------------------------------------------------------- reference polynomials

def pkey(u, v):
    return tuple(sorted((u, v), key=repr))


class Ref:
    """polynomial reference of one object: monomial -> coefficient, plus the set of variables it must list"""

    def __init__(self, mono=None, vs=()):
        self.mono = {k: v for k, v in (mono or {}).items()}
        self.vs = set(vs)

    def copy(self):
        return Ref(self.mono, self.vs)

    def comb(self, o, sign):
        r = self.copy()
        for k, c in o.mono.items():
            r.mono[k] = r.mono.get(k, F(0)) + sign * c
        r.vs |= o.vs
        return r

    def energy(self, x):
        return sum(c * (F(1) if not k else x[k[0]] if len(k) == 1 else x[k[0]] * x[k[1]]) for k, c in self.mono.items())


def ref_of(t, ty):
    """the polynomial a construction tree (V C E Q0 ADD SUB MUL NEG VIEWO VIEWC) denotes, x*x reduced by the label's kind"""
    op = t[0]
    if op == 'V':
        return Ref({(t[2],): t[3]}, [t[2]])
    if op == 'C':
        return Ref({(): t[1]})
    if op == 'E':
        return Ref({(): t[2]})
    if op == 'Q0':
        return Ref({})
    if op in ('VIEWO', 'VIEWC'):
        return ref_of(t[1], ty)
    a, b = ref_of(t[1], ty), ref_of(t[2], ty)
    if op == 'ADD':
        return a.comb(b, 1)
    if op == 'SUB':
        return a.comb(b, -1)
    assert op == 'MUL'
    r = Ref({}, a.vs | b.vs)
    for ka, ca in a.mono.items():
        for kb, cb in b.mono.items():
            assert len(ka) + len(kb) <= 2
            k = ka + kb
            if len(k) == 2:
                if k[0] == k[1]:
                    kind = ty[k[0]][0]
                    k = (k[0],) if kind == 'B' else () if kind == 'S' else k
                else:
                    k = pkey(*k)
            r.mono[k] = r.mono.get(k, F(0)) + ca * cb
    return r


def info_of(ty, l):
    k, lb, ub = ty[l]
    if k == 'S':
        return ('SPIN', F(-1), F(1))
    if k == 'B':
        return ('BINARY', F(0), F(1))
    return (VTNAME[k], F(0) if lb is None else lb, (F(2 ** 53 - 1) if k == 'I' else F(1e30)) if ub is None else ub)


def mismatch(rd, ref, ty):
    """first difference between what the real object reports and the reference, or None"""
    if rd[0] == 'num':
        if ref.vs or any(c for k, c in ref.mono.items() if k):
            return 'a number where a model is expected'
        return None if rd[1] == ref.mono.get((), F(0)) else f'number {rd[1]} != {ref.mono.get((), F(0))}'
    vs, info, lin, quad, off = rd
    if set(vs) != ref.vs:
        return f'variables {sorted(vs, key=repr)} != {sorted(ref.vs, key=repr)}'
    if len(set(vs)) != len(vs):
        return f'repeated variable in {vs}'
    for v in vs:
        if v in ty and info[v] != info_of(ty, v):
            return f'vartype/bounds of {v!r}: {info[v]} != {info_of(ty, v)}'
        if lin[v] != ref.mono.get((v,), F(0)):
            return f'linear bias of {v!r}: {lin[v]} != {ref.mono.get((v,), F(0))}'
    for k, b in quad.items():
        if b != ref.mono.get(k, F(0)):
            return f'quadratic bias of {k}: {b} != {ref.mono.get(k, F(0))}'
    for k, c in ref.mono.items():
        if len(k) == 2 and c != 0 and k not in quad:
            return f'interaction {k} with bias {c} is missing'
    if off != ref.mono.get((), F(0)):
        return f'offset {off} != {ref.mono.get((), F(0))}'
    return None


def dom(ty, l):
    k, lb, ub = ty[l]
    if k == 'S':
        return [F(-1), F(1)]
    if k == 'B':
        return [F(0), F(1)]
    lb = F(0) if lb is None else lb
    ub = F(10 ** 9) if ub is None else ub
    cand = [F(-2), F(0), F(1), F(3)] if k == 'I' else [F(-3, 2), F(0), F(1, 2), F(2)]
    return [c for c in cand if lb <= c <= ub][:3] or [lb]


def canon_tree(vs, ref, ty, obj):
    """a tree whose modelled value is a view with exactly this content: variables in this order (also zero-bias ones)"""
    t = ('E', 'B', ref.mono.get((), F(0)), 1)
    for v in vs:
        k, lb, ub = ty[v]
        t = ('ADD', t, ('V', k, v, ref.mono.get((v,), F(0)), lb, ub, None))
    for kk in obj:      # present interactions (also with bias 0)
        u, w = kk
        c = ref.mono.get(kk, F(0))
        t = ('ADD', t, ('MUL', ('V', ty[u][0], u, F(1), ty[u][1], ty[u][2], None), ('V', ty[w][0], w, c, ty[w][1], ty[w][2], None)))
    return t


class Stop(Exception):
    pass


# ---------------------------------------------------------------- one scenario

class Scenario:
    def __init__(self, ctx, c06, r, lines, expect, meta):
        self.ctx, self.c06, self.r = ctx, c06, r
        self.lines, self.expect, self.meta = lines, expect, meta
        self.ns = {}
        exec(c06.PRE, self.ns)
        self.script = []
        self.ty = c06.dispatch_typing(r)
        self.ty['__mixed__'] = False
        self.n = 0
        self.views = {}        # name -> dict(tree=, ref=, kind='O'|'C')   (live views of self.cqm, read through the held objects)
        self.nfail = 0

    # -- plumbing
    def do(self, line):
        self.script.append(line)
        exec(line, self.ns)

    def attempt(self, line):
        """run a source line that may raise a Python-level operator error: -> None | 'type' | 'value'"""
        self.script.append(f'try:\n    {line}\nexcept (TypeError, ValueError) as _e:\n    pass')
        try:
            exec(line, self.ns)
        except TypeError:
            return 'type'
        except ValueError:
            return 'value'
        return None

    def name(self, p='o'):
        self.n += 1
        return f'{p}{self.n}'

    def fail(self, site, cls, what, check, watch=None):
        """`check` = source lines that raise AssertionError iff the violation is present; `watch` = names whose readout
        before and after the LAST script line must agree (operand-modified failures)"""
        self.nfail += 1
        script = list(self.script)
        if watch is not None:
            names = '[' + ', '.join(watch) + ']'
            script.insert(len(script) - 1, f'_before = [read_all(o_) for o_ in {names}]')
            check = f'assert _before == [read_all(o_) for o_ in {names}], "an operand or a live view reads differently"'
        self.ctx.fail('property', site, cls, what, repro=self.c06.PRE + READSRC + '\n'.join(script) + '\n' + check + '\n',
                      detail=dict(steps=self.script[-6:]))
        raise Stop()

    def grid(self, vs):
        vs = sorted(vs, key=repr)
        return vs, [dict(zip(vs, vals)) for vals in itertools.islice(itertools.product(*(dom(self.ty, v) for v in vs)), 300)]

    def check(self, nm, ref, site, cls='energy'):
        """every reader of ns[nm] against the reference"""
        o = self.ns[nm]
        try:
            rd = read_all(o)
        except AssertionError as e:
            self.fail(site, 'read accessors disagree', f'{nm}: {e}', f'read_all({nm})')
        except Exception as e:      # noqa: BLE001
            self.fail(site, 'result unreadable', f'{nm}: readers raise {e!r}',
                      f'try:\n    read_all({nm})\nexcept AssertionError:\n    raise\nexcept Exception as e:\n    raise AssertionError(repr(e))')
        bad = mismatch(rd, ref, self.ty)
        vs, grid = self.grid(ref.vs if rd[0] != 'num' else [])
        ebad = None
        if bad is None and rd[0] != 'num':
            want = [ref.energy(x) for x in grid]
            got = grid_energies(o, vs, grid)
            for x, w, g in zip(grid, want, got):
                if w != g:
                    ebad = (x, w)
                    bad = f'energies(...) at {({k: float(v) for k, v in x.items()})} is {g}, arithmetic on the operands gives {w}'
                    break
        if bad is not None:
            # a sample at which the coefficient-level energy differs, for the repro
            xs, want = None, None
            for x in grid:
                if rd[0] != 'num' and set(rd[0]) <= set(x):
                    e = rd[4] + sum(b * x[v] for v, b in rd[2].items()) + sum(b * x[k[0]] * x[k[1]] for k, b in rd[3].items())
                    if e != ref.energy(x):
                        xs, want = x, ref.energy(x)
                        break
            if xs is not None:
                chk = (f'x = {({k: str(v) for k, v in xs.items()})!r}\nx = {{k: F(v) for k, v in x.items()}}\n'
                       f'assert energy({nm}, x) == F({str(want)!r}), (energy({nm}, x), {str(want)!r})')
                self.fail(site, 'energy', f'{nm}: result energy != arithmetic on the operands ({want}) at {({k: float(v) for k, v in xs.items()})}; {bad}', chk)
            if rd[0] != 'num' and set(rd[0]) != ref.vs:
                self.fail(site, 'variables', f'{nm}: {bad}', f'assert set({nm}.variables) == set({sorted(ref.vs, key=repr)!r}), list({nm}.variables)')
            if ebad is not None:
                x, w = ebad
                self.fail(site, 'energy', f'{nm}: {bad}', f'import numpy as np\n_e = {nm}.energies((np.array([{[float(x[v]) for v in vs]!r}]), {vs!r}))[0]\n'
                                                          f'assert F(float(_e)) == F({str(w)!r}), _e')
            self.fail(site, cls if cls != 'energy' else 'read accessor', f'{nm}: {bad}', f'assert False, {bad!r}')
        return rd

    def line(self, ln, exp, site, src):
        self.lines.append(ln)
        self.expect.append(exp)
        self.meta.append((site, src))
        self.ctx.case(ln, nontrivial=True)

    # -- construction
    def operand(self, kind):
        """(name, tree, ref): a fresh operand of the class, built from its source text"""
        c06, r = self.c06, self.r
        if kind == 'zero':
            t = ('C', F(0))
        elif kind == 'qm0':
            t = ('ADD', ('Q0',), ('C', c06.dy(r, True)))
        else:
            t = c06.d_operand(r, self.ty, kind)
        nm = self.name()
        self.do(f'{nm} = {c06.pyexpr(t)}')
        return nm, t, ref_of(t, self.ty)

    def build_cqm(self):
        r, c06 = self.r, self.c06
        om, ot, oref = self.operand(r.choice(['bqmS', 'bqmB', 'qm', 'qm']))
        cons = []
        for _ in range(r.choice([1, 2, 2, 3])):
            cm, ct, cref = self.operand(r.choice(['bqmS', 'bqmB', 'qm', 'qm']))
            cons.append((cm, ct, cref, r.choice(['<=', '>=', '==']), c06.dy(r, True)))
        self.do('cqm = dimod.ConstrainedQuadraticModel()')
        order = r.choice(['desc', 'desc', 'shuffled', 'none'])
        used = []
        for m in [om] + [c[0] for c in cons]:
            for v in self.ns[m].variables:
                if v not in used:
                    used.append(v)
        if order != 'none':
            pre = list(reversed(used))
            if order == 'shuffled':
                r.shuffle(pre)
            for v in pre:
                vt, lb, ub = info_of(self.ty, v)
                kw = f', lower_bound={float(lb)!r}, upper_bound={float(ub)!r}' if vt in ('INTEGER', 'REAL') else ''
                self.do(f'cqm.add_variable({vt!r}, {v!r}{kw})')
        self.ctx.tick(f'views: parent variables registered {order}')
        self.do(f'cqm.set_objective({om})')
        self.do('vO = cqm.objective')
        self.views['vO'] = dict(tree=('VIEWO', ot), ref=oref, kind='O')
        for j, (cm, ct, cref, sense, rhs) in enumerate(cons):
            self.do(f'cqm.add_constraint_from_model({cm}, {sense!r}, {float(rhs)!r}, label="c{j}")')
            self.do(f'vC{j} = cqm.constraints["c{j}"].lhs')
            self.views[f'vC{j}'] = dict(tree=('VIEWC', ct), ref=cref, kind='C', label=f'c{j}')
        self.check_views('CQM construction')
        if order != 'none' and list(self.ns['cqm'].variables) != list(self.ns['vO'].variables):
            self.ctx.tick('views: objective view order differs from the parent order')

    def check_views(self, site, lines=True):
        for nm, d in self.views.items():
            self.check(nm, d['ref'], site, cls='view read accessor')
            if lines:
                self.line(self.c06.line_of(d['tree']), 'ok ' + self.c06.snap(self.ns[nm]), site, nm)

    def snap_all(self, names):
        out = {}
        for nm in names:
            o = self.ns[nm]
            out[nm] = read_all(o)
        return out

    # -- steps
    def pick_view(self):
        return self.r.choice(sorted(self.views))

    def pick_other(self, v):
        kind = self.r.choice(['num', 'zero', 'bqmS', 'bqmB', 'bqm0S', 'bqm0B', 'bqm0S', 'bqm0B', 'qm', 'qm0', 'viewO', 'viewC', 'sibling', 'self'])
        if kind == 'self':
            return v, self.views[v]['tree'], self.views[v]['ref'], 'view(self)'
        if kind == 'sibling':
            w = self.pick_view()
            return w, self.views[w]['tree'], self.views[w]['ref'], 'view(same cqm)'
        nm, t, ref = self.operand(kind)
        return nm, t, ref, kind

    def binop(self):
        """one `+ - += -=` with a view on one side; -> (result name, tree, ref) or None when refused"""
        r, c06 = self.r, self.c06
        v = self.pick_view()
        x, xt, xref, xkind = self.pick_other(v)
        op = r.choice(['ADD', 'SUB', 'ADD', 'SUB', 'IADD', 'ISUB'])
        left = r.random() < .5
        a, at, aref = (v, self.views[v]['tree'], self.views[v]['ref']) if left else (x, xt, xref)
        b, bt, bref = (x, xt, xref) if left else (v, self.views[v]['tree'], self.views[v]['ref'])
        sym = {'ADD': '+', 'SUB': '-', 'IADD': '+=', 'ISUB': '-='}[op]
        res = self.name('r')
        watch = sorted(set([a, b]) | set(self.views))
        before = self.snap_all(watch)
        if op in ('ADD', 'SUB'):
            err = self.attempt(f'{res} = {a} {sym} {b}')
        else:
            err = self.attempt(f'{res} = {a}; {res} {sym} {b}')
        site = f'view operator {op}'
        self.ctx.tick(f"views: path {op}: {'view' if left else xkind} , {xkind if left else 'view'} -> {'raises ' + err if err else c06.kind_of(self.ns[res])}")
        tree = (op, at, bt)
        ln = c06.line_of(tree)
        inplace_ok = op in ('IADD', 'ISUB') and not err and self.ns[res] is self.ns[a]
        after = self.snap_all(watch)
        for nm in watch:
            if before[nm] != after[nm] and not (inplace_ok and nm == a):
                if err and op in ('IADD', 'ISUB') and nm == a and a not in self.views:
                    continue
                self.fail(site, 'operand modified', f'{nm} reads differently after `{self.script[-1]}`: {before[nm]} -> {after[nm]}',
                          '', watch=[w for w in watch if w != res and not (inplace_ok and w == a)])
        if err:
            self.line(ln, 'err ' + err, site, self.script[-1])
            return None
        ref = aref.comb(bref, 1 if op in ('ADD', 'IADD') else -1)
        self.check(res, ref, site)
        if not inplace_ok and any(self.ns[res] is self.ns[nm] for nm in watch):
            self.fail(site, 'result aliases operand', f'{res} is one of the operands', f'assert all({res} is not o for o in [{a}, {b}])')
        self.line(ln, 'ok ' + c06.snap(self.ns[res]), site, self.script[-1])
        if inplace_ok:          # the left operand (a plain model) now IS the result
            return res, tree, ref
        return res, tree, ref

    def refused(self):
        """forms the views do not define (as coded: TypeError); a value, if one comes out, must still be the arithmetic"""
        c06, r = self.c06, self.r
        v = self.pick_view()
        vt = self.views[v]['tree']
        form = r.choice(['MULq', 'qMUL', 'NEG', 'DIV', 'POW', 'LE', 'GE', 'EQ', 'RLE'])
        res = self.name('r')
        q = r.choice([2, -1, 4])
        src = {'MULq': f'{v} * {q}', 'qMUL': f'{q} * {v}', 'NEG': f'-{v}', 'DIV': f'{v} / {q}', 'POW': f'{v} ** 2',
               'LE': f'{v} <= {q}', 'GE': f'{v} >= {q}', 'EQ': f'{v} == {q}', 'RLE': f'{q} <= {v}'}[form]
        before = self.snap_all(sorted(self.views))
        err = self.attempt(f'{res} = {src}')
        self.ctx.tick(f'views: {form} on a view -> ' + ('raises ' + err if err else type(self.ns[res]).__name__))
        if self.snap_all(sorted(self.views)) != before:
            self.fail(f'view operator {form}', 'operand modified', f'a view reads differently after `{src}`', '', watch=sorted(self.views))
        qt = ('C', F(q))
        ln = {'MULq': lambda: c06.line_of(('MUL', vt, qt)), 'qMUL': lambda: c06.line_of(('MUL', qt, vt)), 'NEG': lambda: c06.line_of(('NEG', vt)),
              'DIV': lambda: c06.line_of(('DIV', F(q), vt)), 'POW': lambda: c06.line_of(('POW', 2, vt)),
              'LE': lambda: f'CMP2 LE {c06.line_of(vt)} {c06.line_of(qt)}', 'GE': lambda: f'CMP2 GE {c06.line_of(vt)} {c06.line_of(qt)}',
              'EQ': lambda: f'CMP2 EQ {c06.line_of(vt)} {c06.line_of(qt)}', 'RLE': lambda: f'CMP2 LE {c06.line_of(qt)} {c06.line_of(vt)}'}[form]()
        if err:
            self.line(ln, 'err ' + err, f'view operator {form}', src)
            return
        o = self.ns[res]
        if isinstance(o, bool):
            self.line(ln, 'ok bool', f'view operator {form}', src)
            return
        ref = self.views[v]['ref']
        if isinstance(o, dimod.sym.Comparison):      # not in this version of the code: judge it by the definition anyway
            self.ns[res + 'l'] = o.lhs
            self.check(res + 'l', ref, f'view operator {form}')
            return
        want = {'MULq': lambda e: e * q, 'qMUL': lambda e: e * q, 'NEG': lambda e: -e, 'DIV': lambda e: e / q, 'POW': lambda e: e * e}[form]
        vs, grid = self.grid(ref.vs)
        for x, g in zip(grid, grid_energies(o, vs, grid)):
            if g != want(ref.energy(x)):
                self.fail(f'view operator {form}', 'energy', f'`{src}` has energy {g} at {x}, the arithmetic gives {want(ref.energy(x))}', 'assert False')

    def pos(self):
        """unary `+`: `BinaryQuadraticModel.__pos__` is a copy; QuadraticModel and the views define none (TypeError).  Whatever
        comes out must have the operand's energies and the operand must be unchanged (no model node: predicate only)."""
        kind = self.r.choice(['bqmS', 'bqmB', 'bqm0S', 'bqm0B', 'qm', 'view'])
        if kind == 'view':
            v = self.pick_view()
            nm, ref = v, self.views[v]['ref']
        else:
            nm, _t, ref = self.operand(kind)
        res = self.name('p')
        before = self.snap_all([nm] + sorted(self.views))
        err = self.attempt(f'{res} = +{nm}')
        self.ctx.tick(f'views: unary + on {kind} -> ' + ('raises ' + err if err else type(self.ns[res]).__name__))
        self.ctx.case(f'POS {kind} {self.n} {len(self.script)}', nontrivial=True)
        if self.snap_all([nm] + sorted(self.views)) != before:
            self.fail('unary +', 'operand modified', f'{nm} reads differently after `+{nm}`', '', watch=[nm] + sorted(self.views))
        if not err:
            self.check(res, ref, 'unary +')

    def compare(self, res, tree, ref):
        """(view op x) ⋈ c, then the constraint the view's own parent stores for it"""
        c06, r = self.c06, self.r
        kind = r.choice(['LE', 'GE', 'EQ'])
        sym = {'LE': '<=', 'GE': '>=', 'EQ': '=='}[kind]
        c = c06.dy(r, True)
        cs = repr(int(c) if c.denominator == 1 and r.random() < .5 else float(c))
        refl = r.random() < .35
        cm = self.name('k')
        before = self.snap_all([res] + sorted(self.views))
        err = self.attempt(f'{cm} = {cs} {sym} {res}' if refl else f'{cm} = {res} {sym} {cs}')
        site = 'comparison of a view expression'
        ln = f"CMP2 {kind} {c06.line_of(('C', c))} {c06.line_of(tree)}" if refl else f"CMP2 {kind} {c06.line_of(tree)} {c06.line_of(('C', c))}"
        if self.snap_all([res] + sorted(self.views)) != before:
            self.fail(site, 'operand modified', f'an operand reads differently after `{self.script[-1]}`', '', watch=[res] + sorted(self.views))
        if err:
            self.line(ln, 'err ' + err, site, self.script[-1])
            return
        k = self.ns[cm]
        if not isinstance(k, dimod.sym.Comparison):
            self.line(ln, 'ok bool', site, self.script[-1])
            return
        want_sense = sym if not refl else {'<=': '>=', '>=': '<=', '==': '=='}[sym]
        self.do(f'{cm}l = {cm}.lhs')
        self.check(cm + 'l', ref, site)
        if k.sense.value != want_sense or F(float(k.rhs)) != c:
            self.fail(site, 'sense', f'`{self.script[-2]}` gives sense {k.sense.value} rhs {k.rhs}; written: {want_sense} {c}',
                      f'assert {cm}.sense.value == {want_sense!r} and {cm}.rhs == {float(c)!r}')
        self.line(ln, f"ok cmp {dict([('<=', 'le'), ('>=', 'ge'), ('==', 'eq')])[k.sense.value]} {rat(k.rhs)} " + c06.snap(k.lhs), site, self.script[-2])
        self.ctx.tick(f'views: comparison {kind}{" reflected" if refl else ""} -> Comparison')
        if self.r.random() < .7:
            lbl = self.name('n')
            own = self.r.random() < .7
            if not own:
                self.do('cqm2 = dimod.ConstrainedQuadraticModel()')
            target = 'cqm' if own else 'cqm2'
            nocopy = self.r.random() < .2       # copy=False: the documented opt-out, the comparison's model is consumed
            keep = ([] if nocopy else [res, cm + 'l']) + sorted(self.views)
            before = self.snap_all(keep)
            pvars = list(self.ns[target].variables)
            self.do(f'{target}.add_constraint({cm}, label={lbl!r}{", copy=False" if nocopy else ""})')
            site2 = 'CQM.add_constraint(comparison of a view expression)' + (' copy=False' if nocopy else '')
            if self.snap_all(keep) != before:
                self.fail(site2, 'operand modified', 'the comparison\'s model or a live view reads differently after add_constraint', '',
                          watch=keep)
            if nocopy:
                self.ctx.tick('views: add_constraint(comparison, copy=False)')
            self.do(f'v{lbl} = {target}.constraints[{lbl!r}].lhs')
            if list(self.ns[target].variables)[:len(pvars)] != pvars:
                self.fail(site2, 'parent variables', 'add_constraint reordered the variables of the CQM', 'assert False')
            self.check('v' + lbl, ref, site2)
            con = self.ns[target].constraints[lbl]
            if con.sense.value != want_sense or F(float(con.rhs)) != c:
                self.fail(site2, 'sense/rhs', f'stored sense {con.sense.value} rhs {con.rhs}; written: {want_sense} {c}',
                          f'assert {target}.constraints[{lbl!r}].sense.value == {want_sense!r} and {target}.constraints[{lbl!r}].rhs == {float(c)!r}')
            self.line('CON' + ln[4:], f"ok con {dict([('<=', 'le'), ('>=', 'ge'), ('==', 'eq')])[con.sense.value]} {rat(con.rhs)} qm " + c06.snap(con.lhs)[len('view '):],
                      site2, self.script[-2])
            self.ctx.tick('views: constraint stored in the view\'s own parent' if own else 'views: constraint stored in a fresh CQM')
            if own:
                self.views['v' + lbl] = dict(tree=('VIEWC', tree), ref=ref, kind='C', label=lbl)

    def set_objective(self, res, tree, ref):
        before = self.snap_all([res] + sorted(n for n, d in self.views.items() if d['kind'] == 'C'))
        self.do(f'cqm.set_objective({res})')
        site = 'CQM.set_objective(view expression)'
        self.views['vO'] = dict(tree=('VIEWO', tree), ref=ref, kind='O')
        if self.snap_all(sorted(before)) != before:
            self.fail(site, 'operand modified', 'the new objective\'s model or a constraint view reads differently after set_objective', '',
                      watch=sorted(before))
        self.check('vO', ref, site, cls='stale view')         # the view object held since the construction
        self.do('vOfresh = cqm.objective')
        self.check('vOfresh', ref, site)
        self.line(self.c06.line_of(('VIEWO', tree)), 'ok ' + self.c06.snap(self.ns['vO']), site, self.script[-2])
        self.ctx.tick('views: set_objective(view expression) on the own parent')

    def mutate(self):
        """in-place mutation of the parent through a view or the CQM; the reference follows"""
        r, c06 = self.r, self.c06
        v = self.pick_view()
        d = self.views[v]
        o = self.ns[v]
        vs = list(o.variables)
        how = r.choice(['add_linear', 'set_linear', 'add_quadratic', 'offset', 'offset+=', 'set_objective', 'remove_constraint', 'add_variable',
                        'remove_interaction', 'add_linear_new'])
        b = c06.dy(r)
        ref = d['ref'].copy()
        if how in ('add_linear', 'set_linear') and vs:
            l = r.choice(vs)
            self.do(f'{v}.{how}({l!r}, {float(b)!r})')
            ref.mono[(l,)] = (ref.mono.get((l,), F(0)) if how == 'add_linear' else F(0)) + b
        elif how == 'add_quadratic' and len([l for l in vs if self.ty[l][0] != 'R']) >= 2:
            u, w = r.sample([l for l in vs if self.ty[l][0] != 'R'], 2)
            self.do(f'{v}.add_quadratic({u!r}, {w!r}, {float(b)!r})')
            ref.mono[pkey(u, w)] = ref.mono.get(pkey(u, w), F(0)) + b
        elif how == 'remove_interaction' and o.num_interactions:
            u, w = r.choice(sorted(o.quadratic, key=repr))
            if r.random() < .5:
                u, w = w, u
            self.do(f'{v}.remove_interaction({u!r}, {w!r})')
            ref.mono.pop(pkey(u, w), None)
        elif how == 'add_linear_new' and [l for l in self.ns['cqm'].variables if l in self.ty and l not in vs]:
            # a variable of the parent the view does not have yet: the view gains it
            l = r.choice([l for l in self.ns['cqm'].variables if l in self.ty and l not in vs])
            self.do(f'{v}.add_linear({l!r}, {float(b)!r})')
            ref.mono[(l,)] = b
            ref.vs.add(l)
        elif how == 'offset':
            self.do(f'{v}.offset = {float(b)!r}')
            ref.mono[()] = b
        elif how == 'offset+=':
            self.do(f'{v}.offset += {float(b)!r}')
            ref.mono[()] = ref.mono.get((), F(0)) + b
        elif how == 'set_objective':
            nm, t, nref = self.operand(r.choice(['bqmS', 'bqmB', 'qm']))
            self.do(f'cqm.set_objective({nm})')
            v, ref = 'vO', nref
            d = self.views['vO']
        elif how == 'remove_constraint':
            cs = [n for n, dd in self.views.items() if dd['kind'] == 'C']
            if len(cs) < 2:
                return
            gone = r.choice(cs[:-1])          # a constraint stored BEFORE another one: the later ones shift
            self.do(f'cqm.remove_constraint({self.views[gone]["label"]!r})')
            del self.views[gone]
            self.ctx.tick('views: mutation remove_constraint')
            self.check_views('after cqm.remove_constraint', lines=False)
            return
        elif how == 'add_variable':
            self.do(f'cqm.add_variable("BINARY", "zz{self.n}")')
            self.ctx.tick('views: mutation add_variable')
            self.check_views('after cqm.add_variable', lines=False)
            return
        else:
            return
        self.ctx.tick(f'views: mutation {how}')
        d['ref'] = ref
        # every live view is read again: the mutated one must follow, the others must not move
        for nm, dd in self.views.items():
            self.check(nm, dd['ref'], f'after {how} on a view', cls='stale view')
        o = self.ns[v]
        rd = read_all(o)
        d['tree'] = ('VIEWO' if d['kind'] == 'O' else 'VIEWC', canon_tree(list(rd[0]), ref, self.ty, rd[3]))
        self.line(c06.line_of(d['tree']), 'ok ' + c06.snap(o), f'view after {how}', self.script[-1])

    def sums(self):
        """sum(items[, start]) / quicksum(items) over several iterable kinds"""
        r, c06 = self.r, self.c06
        n = r.choice([0, 1, 2, 2, 3, 3, 4])
        items = []
        for _ in range(n):
            k = r.choice(['view', 'view', 'num', 'bqmS', 'bqmB', 'bqm0S', 'bqm0B', 'qm', 'qm0', 'viewO'])
            if k == 'view':
                v = self.pick_view()
                items.append((v, self.views[v]['tree'], self.views[v]['ref'], 'view'))
            else:
                items.append(self.operand(k) + (k,))
        fn = r.choice(['sum', 'sum', 'sum_start', 'sum_start', 'sum_start', 'quicksum', 'quicksum'])
        names = ', '.join(i[0] for i in items)
        it = r.choice(['[{}]', '({}{})', 'iter([{}])', '(i_ for i_ in [{}])', 'map(lambda i_: i_, [{}])'])
        itsrc = it.format(names, ',' if n == 1 else '') if it == '({}{})' else it.format(names)
        if n == 0 and it == '({}{})':
            itsrc = '()'
        start = None
        if fn == 'sum_start':
            sk = r.choice(['zero', 'num', 'bqmS', 'bqm0S', 'bqm0B', 'bqm0B', 'qm', 'qm0', 'view'])
            if sk == 'view':
                v = self.pick_view()
                start = (v, self.views[v]['tree'], self.views[v]['ref'], 'view')
            else:
                start = self.operand(sk) + (sk,)
        res = self.name('s')
        watch = sorted(set(i[0] for i in items) | ({start[0]} if start else set()) | set(self.views))
        before = self.snap_all(watch)
        src = {'sum': f'sum({itsrc})', 'sum_start': f'sum({itsrc}, {start[0] if start else 0})', 'quicksum': f'dimod.quicksum({itsrc})'}[fn]
        err = self.attempt(f'{res} = {src}')
        site = {'sum': 'sum(items)', 'sum_start': 'sum(items, start)', 'quicksum': 'quicksum(items)'}[fn]
        self.ctx.tick(f"views: {site} n={n} {it.format('…', '') if it == '({}{})' else it.format('…')}"
                      + (f' start={start[3]}' if start else '') + (' raises ' + err if err else ''))
        if self.snap_all(watch) != before:
            self.fail(site, 'operand modified', f'an item, the start value or a live view reads differently after `{src}`', '', watch=watch)
        if fn == 'quicksum':
            tree = ('Q0',) if not items else ('Q1', items[0][1])
            for i in items[1:]:
                tree = ('IADD', tree, i[1])
            ref = Ref({})
        else:
            tree = start[1] if start else ('C', F(0))
            for i in items:
                tree = ('ADD', tree, i[1])
            ref = start[2].copy() if start else Ref({})
        for i in items:
            ref = ref.comb(i[2], 1)
        if err:
            self.line(c06.line_of(tree), 'err ' + err, site, src)
            return
        self.check(res, ref, site)
        self.line(c06.line_of(tree), 'ok ' + c06.snap(self.ns[res]), site, src)

    def run(self):
        r = self.r
        try:
            self.build_cqm()
            for _ in range(r.choice([3, 4, 5, 6])):
                m = r.random()
                if m < .45:
                    out = self.binop()
                    if out is not None and not isinstance(self.ns[out[0]], (int, float)):
                        m2 = r.random()
                        if m2 < .45:
                            self.compare(*out)
                        elif m2 < .7:
                            self.set_objective(*out)
                elif m < .55:
                    self.refused() if r.random() < .8 else self.pos()
                elif m < .8:
                    self.mutate()
                else:
                    self.sums()
            self.check_views('end of history', lines=False)
        except Stop:
            pass
        return self.nfail


def run_views(ctx, c06, lines, expect, meta):
    n = ctx.scale(260, 4000)
    bad = 0
    for _ in range(n):
        ctx.tick('tree: view history scenario')
        bad += Scenario(ctx, c06, ctx.rng, lines, expect, meta).run()
        if bad >= 4:
            break
    return bad
