"""C10 -- a truncated model file never loads as a different model.

For every serialized model of the run, EVERY prefix length `k` is loaded by the real `from_file`
in a forked child (alarm per load; a child that dies or hangs is a violation by itself) and

(i)  correspondence: the outcome class (exception class | equal | different) is compared with the
     Lean reader program run on the same prefix (`filedriver … all`: BQM v1/v2, QM, expression files
     byte by byte; CQM/DQM inside the header and the framing, the zip / npz body only as "raises");
(ii) property predicate on the real code: the outcome is an ordinary exception, or a model equal to
     the original field by field (`filefmt.diff_models`) -- never a different model, never a crash
     or hang.

The model's third outcome `ub` (a raw loader indexing past a short buffer) has no Python-visible
counterpart.  Wherever the *unguarded* loader model predicts it, the prefix is loaded once more
through `GuardedBuffer` (file bytes end at an unreadable page): an out-of-bounds read is then a
deterministic SIGSEGV in the child.  The five raw loaders are also called directly on random
(buffer, n) pairs placed against the guard page.  Thorough tier: valgrind on a sample.
"""
import io
import json
import os
import subprocess
import sys
import zipfile

import numpy as np

import dimod

from harness.common import run_driver
from harness import filefmt as F
from harness.props import c09 as C9


def loader_of(kind):
    cls = F.cls_of(kind)
    return cls.from_file


def judge_for(kind, model, relabelled=False, f64=False):
    def judge(got):
        d = F.diff_models(kind, model, got, relabelled=relabelled, float64_copy=f64)
        return '=' if d is None else '!' + d.replace('\n', ' ')[:200]
    return judge


def repro_prefix(spec, kind, dump_kw, k, relabelled=False, f64=False):
    return (F.PRELUDE + F.SAME_SRC + F.emit(spec) +
            f"data = m.to_file({dump_kw}).read()\n"
            f"try:\n    new = {F.CLS[kind]}.from_file(data[:{k}])\n"
            f"except Exception as e:\n    print('raised', type(e).__name__)\n"
            f"else:\n    d = diff_models({kind!r}, m, new, relabelled={relabelled}, float64_copy={f64})\n"
            f"    assert d is None, 'prefix of length {k} of {{}} bytes loads as a different model: {{}}'.format(len(data), d)\n")


def repro_crash(spec, kind, dump_kw, k, guarded):
    src = (F.PRELUDE + (F.GUARD_SRC if guarded else '') + F.emit(spec) + f"data = m.to_file({dump_kw}).read()[:{k}]\n"
           f"try:\n    {F.CLS[kind]}.from_file({'GuardedBuffer(data)' if guarded else 'data'})\nexcept Exception as e:\n    pass\n")
    return ("import subprocess, sys\n"
            f"src = {src!r}\n"
            "p = subprocess.run([sys.executable, '-c', src])\n"
            "assert p.returncode == 0, 'interpreter died with status %d while loading a truncated file' % p.returncode\n")


class Sweep:
    def __init__(self):
        self.lines, self.items = [], []


def add_sweep(ctx, S, spec, kind, model, data, dump_kw, line, relabelled=False, f64=False, exact_from=0, exact_to=None, tag=None):
    """queue one file: driver line + everything needed to evaluate it later"""
    S.lines.append(line)
    S.items.append(dict(spec=spec, kind=kind, model=model, data=data, kw=dump_kw, relabelled=relabelled, f64=f64,
                        exact_to=len(data) + 1 if exact_to is None else exact_to, tag=tag or kind))


def evaluate(ctx, S, guarded_budget):
    if not S.lines:
        return
    got = run_driver('filedriver', S.lines, timeout=3000)
    ctx.corr_lines += len(S.lines)
    for it, g in zip(S.items, got):
        spec, kind, model, data, kw = it['spec'], it['kind'], it['model'], it['data'], it['kw']
        cls_part, _, ub_part = g.partition(' U:')
        mcls = cls_part.split(';')
        ubs = [] if ub_part in ('-', '') else [int(x) for x in ub_part.split(',')]
        real = F.sweep_prefixes(loader_of(kind), judge_for(kind, model, it['relabelled'], it['f64']), data)
        n = len(data)
        ic0 = f"{it['tag']} {C9.label_class(spec['labels'])}"
        site = f'{F.cls_of(kind).__name__}.from_file'
        first_corr = None
        for k in range(n + 1):
            rc = real.get(k, 'MISSING')
            mc = mcls[k] if k < len(mcls) else 'MISSING'
            region = region_of(kind, data, k)
            ctx.case((kind, data[:k]), nontrivial=True,
                     sample=dict(kind=kind, options=kw, prefix=k, of=n, outcome=rc, source=F.emit(spec)) if (k * 7 + n) % 5003 == 0 else None)
            ctx.tick(f'{it["tag"]}:{region}:{rc if rc[0] != "!" else "DIFFERENT"}')
            # (ii) the property on the real code
            if rc.startswith('CRASH') or rc == 'HANG' or rc == 'MISSING':
                ctx.fail('crash', site, f'{it["tag"]} cut inside {region}',
                         f'loading the first {k} of {n} bytes killed the interpreter: {rc}',
                         repro=repro_crash(spec, kind, kw, k, False), detail=dict(source=F.emit(spec), options=kw, prefix=k))
                continue
            if rc.startswith('!'):
                ctx.fail('property', site, f'{it["tag"]} cut inside {region}',
                         f'the first {k} of {n} bytes load as a DIFFERENT model: {rc[1:]}',
                         repro=repro_prefix(spec, kind, kw, k, it['relabelled'], it['f64']), detail=dict(source=F.emit(spec), options=kw, prefix=k))
                continue
            if rc == '=' and k < n and data[k:].strip(b' '):
                ctx.tick('equal-with-non-padding-lost')
            # (i) correspondence
            if k < it['exact_to']:
                agree = (mc == rc)
            else:   # zip / npz body: contract only -- the model says "raises", any exception class agrees
                agree = (mc[:2] == rc[:2]) or (mc == rc)
            if not agree and first_corr is None:
                first_corr = (k, rc, mc, region)
        if first_corr:
            k, rc, mc, region = first_corr
            ctx.fail('correspondence', site + ' vs Lean reader', f'{it["tag"]} cut inside {region}',
                     f'prefix {k} of {n}: implementation `{rc}`, model `{mc}`',
                     detail=dict(source=F.emit(spec), options=kw, prefix=k))
        # model says `ub` without the guard: look at the implementation with the electric fence
        for k in ubs[:2]:
            if guarded_budget[0] <= 0:
                break
            guarded_budget[0] -= 1
            src = (F.PRELUDE + F.GUARD_SRC + f"data = bytes.fromhex('{data[:k].hex()}')\n"
                   f"try:\n    {F.CLS[kind]}.from_file(GuardedBuffer(data))\nexcept Exception as e:\n    pass\n")
            res = F.run_guarded(src)
            ctx.case(('guarded', kind, data[:k]), nontrivial=True)
            ctx.tick(f'guarded-buffer:{res.split(":")[0]}')
            if res.startswith('CRASH'):
                ctx.fail('crash', site, f'{it["tag"]} cut inside {region_of(kind, data, k)} at a record boundary',
                         f'a raw loader reads past the end of a short buffer: with the file bytes placed against an unreadable page, '
                         f'loading the first {k} of {n} bytes dies with {res}',
                         repro=repro_crash(spec, kind, kw, k, True), detail=dict(source=F.emit(spec), options=kw, prefix=k))


def region_of(kind, data, k):
    """which part of the file the cut falls in (by the magic strings, Python side)"""
    pre, ver, text, hend = F.split_header(data)
    if k < hend:
        return 'header'
    if kind in ('qm', 'expr'):
        last = 'body'
        pos = hend
        while pos + 8 <= len(data):
            mg = data[pos:pos + 4]
            nlb = 8 if mg == b'QUAD' else 4
            ln = int.from_bytes(data[pos + 4:pos + 4 + nlb], 'little')
            end = pos + 4 + nlb + ln
            if k < end:
                return mg.decode('ascii', 'replace')
            pos = end
            last = mg.decode('ascii', 'replace')
        return last
    if kind == 'bqm':
        i = data.rfind(b'VARS')
        if ver[0] >= 2 and i >= hend and json.loads(text)['variables'] and k >= i:
            return 'VARS'
        return 'body'
    if kind == 'cqm':
        return 'zip'
    if kind == 'dqm':
        ln = int.from_bytes(data[hend + 4:hend + 8], 'little')
        if k < hend + 8:
            return 'BIAS-frame'
        return 'npz' if k < hend + 8 + ln else 'VARS'
    return 'body'


# ------------------------------------------------------------------ per kind

def bqm_files(ctx, r, S, spec):
    m0 = F.build(spec)
    f64 = spec['dtype'] == 'object'
    m = dimod.BinaryQuadraticModel(m0, dtype=np.float64) if f64 else m0     # what an object-dtype BQM is written as
    n = m.num_variables
    dt = m.dtype
    for ver in (1, 2):
        ign = r.random() < .25
        kw = f'version={ver}, ignore_labels={ign}'
        data = m0.to_file(version=ver, ignore_labels=ign).read()
        pre, fver, text, hend = F.split_header(data)
        hv = json.loads(text)
        vf = f'L{n}' if ver == 1 else ('T' if hv['variables'] else 'F')
        H = F.wire_H(n, m.num_interactions, dt.itemsize, vf, vartype=0 if m.vartype is dimod.SPIN else 1)
        vt = F.hx(F.vars_text(m.variables))
        add_sweep(ctx, S, spec, 'bqm', m0, data, kw, f'decbqm all {F.hx(text)} {H} {vt} {n} {F.hx(data)}', relabelled=ign, f64=f64,
                  tag=f'bqm v{ver}')


def qm_files(ctx, r, S, spec):
    m = F.build(spec)
    n = m.num_variables
    data = m.to_file().read()
    pre, fver, text, hend = F.split_header(data)
    is_range = list(m.variables) == list(range(n))
    H = F.wire_H(n, m.num_interactions, m.dtype.itemsize, 'F' if is_range else 'T')
    vt = F.hx(F.vars_text(m.variables))
    add_sweep(ctx, S, spec, 'qm', m, data, '', f'decqm all {F.hx(text)} {H} {vt} {n} {F.hx(data)}', tag='qm')


EOCD = []      # (driver line, zipfile's answers, site, input class, source) of the end-record sweeps


def eocd_prefixes(ctx, data, site, tag, spec):
    """zipfile._EndRecData on EVERY prefix of `data` (what decides whether ZipFile opens a truncated file) vs `endRecData`;
    also the side condition of `zip_prefix_rejected`: the signature occurs only in the last 22 bytes"""
    hits = []
    for j in range(len(data) + 1):
        rec = zipfile._EndRecData(io.BytesIO(data[:j]))
        if rec is not None:
            hits.append(f'{j}:{rec[zipfile._ECD_LOCATION]}')
    sig_ok = data.find(C9.SIG) >= len(data) - 22
    ctx.tick(f'eocd sweep {tag}: ' + ('signature only in the end record' if sig_ok else 'signature also inside the payload'))
    if sig_ok and [h for h in hits if not h.startswith(f'{len(data)}:')]:
        ctx.fail('property', site, f'{tag}: end record found in a proper prefix',
                 f'zipfile._EndRecData finds an end record in proper prefixes {hits[:5]} of a {len(data)}-byte file whose only signature is the final one',
                 repro=F.PRELUDE + F.emit(spec) + "raise AssertionError('end record found in a proper prefix')\n")
    EOCD.append((f'eocdall {F.hx(data)}', ','.join(hits) or '-', site, tag, F.emit(spec)))


def eocd_evaluate(ctx):
    if not EOCD:
        return
    got = run_driver('filedriver', [e[0] for e in EOCD], timeout=3000)
    ctx.corr_lines += len(EOCD)
    for (line, want, site, tag, src), g in zip(EOCD, got):
        ctx.case(('eocd', line), nontrivial=True)
        if g != want:
            ctx.fail('correspondence', site if ' vs ' in site else 'zipfile._EndRecData vs endRecData', f'{tag}: every prefix',
                     f'{site}: prefixes at which it succeeds: implementation `{want[:120]}`, model `{g[:120]}`', detail=dict(source=src))
    del EOCD[:]



def zip_prefix_opens(ctx, data, oracle, site, tag, spec):
    """every prefix of a small file: does the archive OPEN (end record found, directory walked, every member read and
    CRC-checked)?  zipfile vs the byte-level model `zipOpen (readDirBytes …)`"""
    hits = []
    for j in range(len(data) + 1):
        try:
            zf = zipfile.ZipFile(io.BytesIO(data[:j]))
            for nm in zf.namelist():
                zf.read(nm)
            hits.append(j)
        except Exception:  # noqa
            pass
    EOCD.append((f'zipreadall {F.hx(data)} {oracle}', ranges_of(hits), site, tag + ' (archive opens and every member reads)', F.emit(spec)))


def ranges_of(hits):
    out, cur = [], None
    for j in hits:
        if cur is not None and j == cur[1] + 1:
            cur[1] = j
        else:
            if cur is not None:
                out.append(f'{cur[0]}..{cur[1]}')
            cur = [j, j]
    if cur is not None:
        out.append(f'{cur[0]}..{cur[1]}')
    return ','.join(out) or '-'


def npy_prefix_parses(ctx, blob, tag, spec):
    """every prefix of every .npy member of a blob: numpy.lib.format.read_array vs parseNpy"""
    from numpy.lib import format as npf
    zf = zipfile.ZipFile(io.BytesIO(blob))
    for name in zf.namelist():
        b = zf.read(name)
        hits = []
        for j in range(len(b) + 1):
            try:
                npf.read_array(io.BytesIO(b[:j]), allow_pickle=False)
                hits.append(j)
            except Exception:  # noqa
                pass
        ctx.tick('npy member truncated: parses only complete' if hits == [len(b)] else f'npy member truncated: parses at {ranges_of(hits)} of {len(b)}')
        if hits != [len(b)]:
            ctx.fail('property', 'numpy.lib.format.read_array', f'{tag}: truncated .npy member',
                     f'a proper prefix of member {name} parses as an array (prefix lengths {ranges_of(hits)} of {len(b)})',
                     repro=F.PRELUDE + F.emit(spec) + "raise AssertionError('truncated npy member parsed')\n")
        EOCD.append((f'npyparseall {F.hx(b)}', ranges_of(hits), 'numpy.lib.format.read_array vs parseNpy', f'{tag}: every prefix of member {name}', F.emit(spec)))



def tiled_prefix_opens(ctx, data, start, oracle, tag, spec_src):
    """every prefix: the repaired loader's opener `_open_archive` (tiling check) + reading every member, vs `openTiled`"""
    from dimod.constrained import constrained as cqm_mod
    if not hasattr(cqm_mod, '_open_archive'):
        ctx.tick('tiling check: _open_archive not in the source under test')
        return
    hits = []
    for j in range(len(data) + 1):
        f = io.BytesIO(data[:j])
        f.seek(min(start, j))
        try:
            if j < start:
                raise ValueError('header incomplete')
            with cqm_mod._open_archive(f) as zf:
                for nm in zf.namelist():
                    zf.read(nm)
            hits.append(j)
        except Exception:  # noqa
            pass
    ctx.tick(f'tiling check {tag}: opens at ' + ('the complete file only' if hits == [len(data)] else ranges_of(hits)))
    # which opener the source under test has: round 7 (tiling by the directory's sizes) or round 8 (local headers must agree)
    import inspect
    strict = 'info.compress_size' in inspect.getsource(cqm_mod._open_archive).replace('+ info.compress_size', '')
    ctx.tick('tiling check: opener compares local headers with the directory' if strict else 'tiling check: opener trusts the directory sizes (round 7)')
    EOCD.append((f'ziptiled{"strict" if strict else ""}all {start} {F.hx(data)} {oracle}', ranges_of(hits),
                 'constrained._open_archive vs ' + ('openTiledStrict' if strict else 'openTiled'), tag, spec_src))

def cqm_files(ctx, r, S, spec):
    m = F.build(spec)
    compress = r.random() < .4
    kw = f'compress={compress}'
    data = m.to_file(compress=compress).read()
    pre, fver, text, hend = F.split_header(data)
    # model: the header reader, then "the archive does not open" for every proper prefix (contract)
    add_sweep(ctx, S, spec, 'cqm', m, data, kw, f'deccqmhdr {F.hx(text)} {F.hx(data)}', exact_to=hend, tag='cqm' + (' compressed' if compress else ''))
    if len(data) <= 6000:
        eocd_prefixes(ctx, data, 'ConstrainedQuadraticModel.from_file', 'cqm whole file', spec)
    if len(data) <= 3000:
        zip_prefix_opens(ctx, data, C9.zip_entries(data)[1], 'zipfile.ZipFile vs zipOpen(readDirBytes)', 'cqm whole file', spec)
        tiled_prefix_opens(ctx, data, hend, C9.zip_entries(data)[1], 'cqm whole file', F.emit(spec))


def dqm_files(ctx, r, S, spec):
    m = F.build(spec)
    n = m.num_variables()
    compress = r.random() < .4
    ign = r.random() < .25
    kw = f'compress={compress}, ignore_labels={ign}'
    data = m.to_file(compress=compress, ignore_labels=ign).read()
    pre, fver, text, hend = F.split_header(data)
    hv = json.loads(text)
    ln = int.from_bytes(data[hend + 4:hend + 8], 'little')
    vt = F.hx(F.vars_text(m.variables))
    lab = '1' if hv['variables'] else '0'
    add_sweep(ctx, S, spec, 'dqm', m, data, kw, f'decdqm all {F.hx(text)} {lab} {vt} {n} {ln} {n} {F.hx(data)}', relabelled=ign,
              exact_to=hend + 8, tag='dqm' + (' compressed' if compress else ''))
    if len(data) <= 6000:
        eocd_prefixes(ctx, data[hend + 8:hend + 8 + ln], 'DiscreteQuadraticModel.from_file', 'dqm npz blob', spec)
    if ln <= 2500:
        blob = data[hend + 8:hend + 8 + ln]
        zip_prefix_opens(ctx, blob, C9.zip_entries(blob)[1], 'zipfile.ZipFile vs zipOpen(readDirBytes)', 'dqm npz blob', spec)
        npy_prefix_parses(ctx, blob, 'dqm npz blob', spec)


# ------------------------------------------------------------------ expression files and the raw loaders

EXPR_LOAD_SRC = '''
def load_expr(cqm_src_vars, data, guarded=False):
    """a fresh CQM with the given variables, then `objective._from_file(prefix)`"""
    c = dimod.ConstrainedQuadraticModel()
    for vt, lb, ub in cqm_src_vars:
        if lb is None:
            c.add_variable(vt)
        else:
            c.add_variable(vt, lower_bound=lb, upper_bound=ub)
    c.objective._from_file(GuardedBuffer(data) if guarded else data)
    return c
'''
exec(EXPR_LOAD_SRC)


def expr_sweeps(ctx, r, nfiles, guarded_budget):
    """objective members of random CQMs, truncated, loaded with `_from_file` on a fresh CQM"""
    lines, items = [], []
    for _ in range(nfiles):
        spec = F.spec_cqm(r)
        m = F.build(spec)
        if spec['discrete']:
            continue
        data = m.to_file().read()
        hend = F.split_header(data)[3]
        member = dict(C9.archive_of(data, hend))['objective']
        text = F.split_header(member)[2]
        hv, H = C9.expr_header_H(text)
        lines.append(f'decexpr all {F.hx(text)} {H} {F.hx(member)}')
        items.append((spec, m, member))
    if not lines:
        return
    got = run_driver('filedriver', lines, timeout=3000)
    ctx.corr_lines += len(lines)
    for (spec, m, member), g in zip(items, got):
        cls_part, _, ub_part = g.partition(' U:')
        mcls = cls_part.split(';')
        ubs = [] if ub_part in ('-', '') else [int(x) for x in ub_part.split(',')]
        vts = spec['vartypes']
        want = F.content_expr(m.objective, list(m.variables))

        def load(b):
            return load_expr(vts, b)

        def judge(c):
            return '=' if F.content_expr(c.objective, list(c.variables)) == want else '!'
        real = F.sweep_prefixes(load, judge, member)
        n = len(member)
        src0 = F.PRELUDE + F.GUARD_SRC + EXPR_LOAD_SRC + f"vts = {vts!r}\nmember = bytes.fromhex('{member.hex()}')\n"
        first = None
        for k in range(n + 1):
            rc, mc = real.get(k, 'MISSING'), (mcls[k] if k < len(mcls) else 'MISSING')
            region = region_of('expr', member, k)
            ctx.case(('expr', member[:k]), nontrivial=True)
            ctx.tick(f'expr:{region}:{rc if rc[0] != "!" else "DIFFERENT"}')
            if rc.startswith('CRASH') or rc in ('HANG', 'MISSING'):
                ctx.fail('crash', '_cyExpression._from_file', f'expression cut inside {region}',
                         f'loading the first {k} of {n} bytes killed the interpreter: {rc}',
                         repro=("import subprocess, sys\nsrc = " + repr(src0 + f"try:\n    load_expr(vts, member[:{k}])\nexcept Exception:\n    pass\n") +
                                "\np = subprocess.run([sys.executable, '-c', src])\nassert p.returncode == 0, p.returncode\n"))
            elif rc.startswith('!'):
                ctx.fail('property', '_cyExpression._from_file', f'expression cut inside {region}',
                         f'the first {k} of {n} bytes load as a different expression',
                         repro=src0 + f"try:\n    c = load_expr(vts, member[:{k}])\nexcept Exception:\n    pass\nelse:\n    assert False, 'loaded'\n")
            elif mc != rc and first is None:
                first = (k, rc, mc, region)
        if first:
            k, rc, mc, region = first
            ctx.fail('correspondence', '_cyExpression._from_file vs exprDecode', f'expression cut inside {region}',
                     f'prefix {k} of {n}: implementation `{rc}`, model `{mc}`', detail=dict(source=F.emit(spec), prefix=k))
        for k in ubs[:2]:
            if guarded_budget[0] <= 0:
                break
            guarded_budget[0] -= 1
            src = src0 + f"try:\n    load_expr(vts, member[:{k}], guarded=True)\nexcept Exception:\n    pass\n"
            res = F.run_guarded(src)
            ctx.case(('guarded-expr', member[:k]), nontrivial=True)
            ctx.tick(f'guarded-buffer:{res.split(":")[0]}')
            if res.startswith('CRASH'):
                ctx.fail('crash', '_cyExpression._from_file', f'expression cut inside {region_of("expr", member, k)} at a record boundary',
                         f'a raw loader reads past the end of a short buffer: with the bytes placed against an unreadable page, loading the '
                         f'first {k} of {n} bytes dies with {res}',
                         repro=("import subprocess, sys\nsrc = " + repr(src) +
                                "\np = subprocess.run([sys.executable, '-c', src])\nassert p.returncode == 0, p.returncode\n"))


RAW_SRC = '''
def guarded_view(buff):
    g = GuardedBuffer(buff)
    g.keep = g
    return g.view[g.start:g.end], g

def call_raw(which, buff, n, dsz=8):
    """call one of the five raw loaders with `buff` ending at an unreadable page; returns what it loaded"""
    mv, keep = guarded_view(buff)
    dt = np.dtype(np.float64 if dsz == 8 else np.float32)
    if which == '_ivartypes_load':
        qm = dimod.QuadraticModel(dtype=dt)
        qm.data._ivartypes_load(mv, n)
        return qm.num_variables
    c = dimod.ConstrainedQuadraticModel()
    if which == '_ivarinfo_load':
        c._ivarinfo_load(mv, n)
        return len(c.variables)
    c.add_variables('INTEGER', 40)
    if which == '_iindices_load':
        c.objective._iindices_load(mv, n, np.dtype(np.int32))
        return c.objective.num_variables
    if which == '_ilinear_load':
        c.objective._iindices_load(np.arange(n, dtype=np.int32).tobytes(), n, np.dtype(np.int32))
        c.objective._ilinear_load(np.frombuffer(mv[:8 * n], dtype=np.float64), n, np.dtype(np.float64))   # as LinearSection.loads_data slices
        return c.objective.num_variables
    if which == '_iquadratic_load':
        c.objective._iindices_load(np.arange(40, dtype=np.int32).tobytes(), 40, np.dtype(np.int32))
        c.objective._iquadratic_load(mv, n)
        return c.objective.num_interactions
    raise ValueError(which)
'''


def raw_loader_cases(ctx, r, ncases):
    """`no_ub_under_any_bytes`, implementation side: (buffer, n) pairs against the guard page"""
    lines, items = [], []
    for _ in range(ncases):
        which = r.choice(['_ivartypes_load', '_ivarinfo_load', '_iindices_load', '_ilinear_load', '_iquadratic_load'])
        n = r.choice([0, 1, 2, 3, 5, 8])
        dsz = 8
        if which in ('_ivartypes_load', '_ivarinfo_load'):
            rs = 1 + 2 * dsz
            rec = lambda i: bytes([2]) + np.float64(0).tobytes() + np.float64(7).tobytes()   # INTEGER in [0, 7]
        elif which == '_iindices_load':
            rs = 4
            rec = lambda i: np.int32(i).tobytes()
        elif which == '_ilinear_load':
            rs = 8
            rec = lambda i: np.float64(i / 8).tobytes()
        else:
            rs = 4 + 4 + 8
            rec = lambda i: np.int32(i + 1).tobytes() + np.int32(0).tobytes() + np.float64(0.5).tobytes()
        have = r.choice([n, n, max(0, n - 1), max(0, n - 2), 0, n + 1])
        extra = r.choice([0, 0, 0, 1, rs - 1]) if which != '_ilinear_load' else 0
        buff = b''.join(rec(i) for i in range(have)) + bytes(extra)
        if which == '_ilinear_load':
            lines.append(f'raw linear 1 8 {n} {n} {F.hx(buff)}')
        elif which in ('_ivartypes_load', '_ivarinfo_load'):
            lines.append(f'raw vartypes 1 8 0 {n} {F.hx(buff)}')
        else:
            lines.append(f'raw records 1 {rs} 0 {n} {F.hx(buff)}')
        items.append((which, n, buff))
    got = run_driver('filedriver', lines)
    ctx.corr_lines += len(lines)
    for (which, n, buff), g in zip(items, got):
        src = F.PRELUDE + F.GUARD_SRC + RAW_SRC + f"out = call_raw({which!r}, bytes.fromhex('{buff.hex()}'), {n})\n"
        res = F.run_guarded(src + "assert out == %d, out\n" % n)
        shape = 'complete' if g.startswith('ok') else 'short or ragged'
        ctx.case(('raw', which, n, buff), nontrivial=True)
        ctx.tick(f'raw {which}: model {g.split(" ")[0]} / impl {res.split(":")[0] if res.startswith("CRASH") else res}')
        rp = ("import subprocess, sys\nsrc = " + repr(src) + "\np = subprocess.run([sys.executable, '-c', src], capture_output=True)\n"
              "assert p.returncode >= 0, 'raw loader died with signal %d' % -p.returncode\n")
        if res.startswith('CRASH'):
            ctx.fail('crash', which, f'buffer shorter than num records ({shape})',
                     f'{which}(buffer of {len(buff)} bytes, n={n}) reads out of bounds: {res} with the buffer against an unreadable page',
                     repro=rp)
        else:
            want = 'ok' if g.startswith('ok') else 'exc:' + {'value': 'ValueError', 'runtime': 'RuntimeError'}.get(g.split(' ')[-1], '?')
            if res != want:
                ctx.fail('correspondence', which + ' vs raw loader model', f'buffer {shape}', f'n={n}, {len(buff)} bytes: implementation {res}, model {g}',
                         detail=dict(which=which, n=n, buff=buff.hex()))


# ------------------------------------------------------------------ valgrind (thorough tier)

def valgrind_sample(ctx, r, count):
    vg = '/usr/bin/valgrind'
    if not os.path.exists(vg):
        ctx.notes.append('valgrind not available')
        return
    for _ in range(count):
        spec = F.spec_qm(r)
        while not spec['labels']:
            spec = F.spec_qm(r)
        m = F.build(spec)
        data = m.to_file().read()
        i = data.index(b'VTYP') + 8
        rs = 1 + 2 * m.dtype.itemsize
        k = i + rs * r.randrange(0, len(spec['labels']))
        src = F.PRELUDE + F.emit(spec) + f"data = m.to_file().read()[:{k}]\ntry:\n    dimod.QM.from_file(data)\nexcept Exception:\n    pass\n"
        env = dict(os.environ, PYTHONMALLOC='malloc')
        p = subprocess.run([vg, '--error-exitcode=9', '-q', sys.executable, '-c', src], env=env, capture_output=True, text=True, timeout=600)
        ctx.case(('valgrind', data[:k]), nontrivial=True)
        ctx.tick(f'valgrind exit {p.returncode}')
        if p.returncode != 0:
            ctx.fail('crash', 'QuadraticModel.from_file', 'qm cut inside VTYP at a record boundary',
                     f'valgrind reports an invalid access (exit {p.returncode}) while loading the first {k} bytes: ' + p.stderr[-400:],
                     repro=("import subprocess, sys, os\nsrc = " + repr(src) +
                            "\np = subprocess.run(['valgrind', '--error-exitcode=9', '-q', sys.executable, '-c', src], env=dict(os.environ, PYTHONMALLOC='malloc'))\n"
                            "assert p.returncode == 0, p.returncode\n"))


# ------------------------------------------------------------------ corrupted (not truncated) files: robustness only

def field_positions(kind, data):
    """byte positions of the header (prefix, version, length, JSON text) and of every length / count field"""
    pre, ver, text, hend = F.split_header(data)
    pos = {p: 'header (prefix, version, length, dictionary text)' for p in range(len(pre) + 6 + len(text) + 1)}
    if kind == 'qm':
        p = hend
        while p + 8 <= len(data):
            mg = data[p:p + 4]
            for q in range(p, p + 8):
                pos[q] = 'section magic or length'
            ln = int.from_bytes(data[p + 4:p + 8], 'little')
            if mg == b'NEIG':
                for q in range(p + 8, min(p + 16, len(data))):
                    pos[q] = 'NEIG count'
            p += 8 + ln
    else:
        hv = json.loads(text)
        n, dsz = hv['shape'][0], np.dtype(hv['dtype']).itemsize
        for v in range(n):
            for q in range(hend + dsz + v * (4 + dsz), hend + dsz + v * (4 + dsz) + 4):
                pos[q] = 'neighbourhood start'
        i = data.rfind(b'VARS')
        if ver[0] >= 2 and hv['variables'] and i >= hend:
            for q in range(i, i + 8):
                pos[q] = 'section magic or length'
    return pos


def corrupt_sweep(ctx, r, budget_s):
    """single-byte corruptions of headers and length fields of BQM / QM files.  OUTSIDE the truncation theorem and
    outside the model: the only thing checked is that the interpreter survives (exception or some model)."""
    import time
    t0 = time.time()
    nfiles = 0
    while time.time() - t0 < budget_s:
        kind = r.choice(['qm', 'bqm'])
        spec = F.SPECS[kind](r, False)
        m = F.build(spec)
        kw = '' if kind == 'qm' else f'version={r.choice([1, 2])}'
        data = m.to_file(**(dict(version=int(kw[-1])) if kw else {})).read()
        pos = field_positions(kind, data)
        blobs, meta = [], []
        for p, region in pos.items():
            for name, f in (('zeroed', lambda b: 0), ('set to 0xff', lambda b: 255), ('low bit flipped', lambda b: b ^ 1),
                            ('high bit flipped', lambda b: b ^ 128)):
                nb = f(data[p])
                if nb != data[p]:
                    blobs.append(data[:p] + bytes([nb]) + data[p + 1:]); meta.append((p, region, name))
        res = F.sweep_blobs(F.cls_of(kind).from_file, blobs)
        nfiles += 1
        for (p, region, name), rc, blob in zip(meta, res, blobs):
            ctx.case(('corrupt', kind, blob), nontrivial=True)
            ctx.tick(f'corrupt {kind}:{region}:{rc.split(":")[0] if rc.startswith("CRASH") else rc}')
            if rc is None or rc.startswith('CRASH') or rc == 'HANG':
                src = (F.PRELUDE + F.emit(spec) + f"data = bytearray(m.to_file({kw}).read())\ndata[{p}] = {blob[p]}\n"
                       f"try:\n    {F.CLS[kind]}.from_file(bytes(data))\nexcept Exception:\n    pass\n")
                ctx.fail('crash', f'{F.cls_of(kind).__name__}.from_file (corrupted file, robustness)', f'{kind}: one byte changed in {region}',
                         f'byte {p} of {len(data)} ({region}) {name}: the interpreter did not survive the load: {rc}',
                         repro=("import subprocess, sys\nsrc = " + repr(src) +
                                "\np = subprocess.run([sys.executable, '-c', src])\nassert p.returncode == 0, p.returncode\n"),
                         detail=dict(source=F.emit(spec), options=kw, position=p, value=blob[p]))
    ctx.notes.append(f'corruption sweep (robustness, outside the truncation theorem): {nfiles} files in {time.time() - t0:.0f}s')


def member_field_positions(member):
    """positions inside one archive member (varinfo section, or an expression file): header bytes and section magic/length fields"""
    pos = {}
    p = 0
    if member.startswith(b'DIMODEXPR'):
        pre, ver, text, hend = F.split_header(member)
        pos.update({q: 'member header (prefix, version, length, dictionary text)' for q in range(len(pre) + 6 + len(text) + 1)})
        p = hend
    while p + 8 <= len(member):
        mg = member[p:p + 4]
        nlb = 8 if mg == b'QUAD' else 4
        for q in range(p, min(p + 4 + nlb, len(member))):
            pos[q] = 'member section magic or length'
        p += 4 + nlb + int.from_bytes(member[p + 4:p + 4 + nlb], 'little')
    return pos


def rebuild_cqm(header, members):
    buf = io.BytesIO()
    buf.write(header)
    with zipfile.ZipFile(buf, mode='a') as zf:
        for nm, b in members:
            zf.writestr(nm, b)
    return buf.getvalue()


def corrupt_sweep_cqm(ctx, r, budget_s):
    """single-byte corruptions of the CQM header and of the header / section length fields INSIDE archive members
    (`varinfo`, `objective`, every `lhs`); the archive is rebuilt around the corrupted member.  Robustness only."""
    import time
    t0 = time.time()
    nfiles = 0
    while time.time() - t0 < budget_s:
        spec = F.spec_cqm(r, False)
        m = F.build(spec)
        data = m.to_file().read()
        pre, ver, text, hend = F.split_header(data)
        members = C9.archive_of(data, hend)
        blobs, meta = [], []
        muts = (('zeroed', lambda b: 0), ('set to 0xff', lambda b: 255), ('low bit flipped', lambda b: b ^ 1), ('high bit flipped', lambda b: b ^ 128))
        for p in range(len(pre) + 6 + len(text) + 1):
            for name, f in muts:
                nb = f(data[p])
                if nb != data[p]:
                    blobs.append(data[:p] + bytes([nb]) + data[p + 1:]); meta.append(('(file header)', p, 'file header', name, nb))
        for i, (nm, b) in enumerate(members):
            if not (nm in ('varinfo', 'objective') or nm.endswith('/lhs')):
                continue
            for p, region in member_field_positions(b).items():
                for name, f in muts[:3] if r.random() < .5 else muts[1:]:
                    nb = f(b[p])
                    if nb != b[p]:
                        mm = list(members)
                        mm[i] = (nm, b[:p] + bytes([nb]) + b[p + 1:])
                        blobs.append(rebuild_cqm(data[:hend], mm)); meta.append((nm, p, region, name, nb))
        res = F.sweep_blobs(dimod.ConstrainedQuadraticModel.from_file, blobs)
        nfiles += 1
        for (nm, p, region, name, nb), rc, blob in zip(meta, res, blobs):
            ctx.case(('corrupt', 'cqm', blob), nontrivial=True)
            ctx.tick(f'corrupt cqm:{region}:{rc.split(":")[0] if rc is not None and rc.startswith("CRASH") else rc}')
            if rc is None or rc.startswith('CRASH') or rc == 'HANG':
                which = 'objective / lhs' if nm == 'objective' or nm.endswith('/lhs') else nm
                src = (F.PRELUDE + "import zipfile\n" + F.emit(spec) + f"blob = bytes.fromhex('{blob.hex()}')\n"
                       "try:\n    dimod.ConstrainedQuadraticModel.from_file(blob)\nexcept Exception:\n    pass\n")
                ctx.fail('crash', 'ConstrainedQuadraticModel.from_file (corrupted file, robustness)',
                         f'cqm: one byte changed in {region} of {which}',
                         f'member {nm!r}, byte {p} ({region}) {name}: the interpreter did not survive the load: {rc}',
                         repro=("import subprocess, sys\nsrc = " + repr(src) +
                                "\np = subprocess.run([sys.executable, '-c', src])\nassert p.returncode == 0, p.returncode\n"),
                         detail=dict(source=F.emit(spec), member=nm, position=p, value=nb))
    ctx.notes.append(f'corruption sweep of CQM files (robustness): {nfiles} files in {time.time() - t0:.0f}s')



# ------------------------------------------------------------------ round 7: every entry point, short reads, legacy files, adversarial payloads

SHORT_SRC = r"""
import io, sys, tempfile
class ShortAt(io.RawIOBase):
    '''a seekable binary file whose `at`-th read(n) call returns FEWER bytes than requested (n-1 | n//2 | 1), as a
    pipe or raw stream may; the bytes are not lost, the next read continues where this one stopped'''
    def __init__(self, data, at=-1, kind='one'):
        self.b = io.BytesIO(data); self.at = at; self.kind = kind; self.calls = 0; self.owners = []
    def readable(self): return True
    def seekable(self): return True
    def seek(self, *a): return self.b.seek(*a)
    def tell(self): return self.b.tell()
    def read(self, n=-1):
        if n is None or n < 0:
            return self.b.read()
        i = self.calls; self.calls += 1
        self.owners.append(sys._getframe(1).f_globals.get('__name__', ''))      # the module that issued this read
        if i == self.at and n > 1:
            return self.b.read({'minus1': n - 1, 'half': max(1, n // 2), 'one': 1}[self.kind])
        return self.b.read(n)
    def readinto(self, buf):
        d = self.read(len(buf)); buf[:len(d)] = d; return len(d)

def spooled(data, max_size):
    f = tempfile.SpooledTemporaryFile(max_size=max_size)
    f.write(data); f.seek(0)
    return f
"""
exec(SHORT_SRC)


class Keyed:
    """lets `sweep_prefixes` iterate over arbitrary work items: `self[:k]` is item k"""
    def __init__(self, items):
        self.items = items

    def __len__(self):
        return len(self.items)

    def __getitem__(self, s):
        return self.items[s.stop]


ENTRY = {
    'from_file(bytes)': ('{cls}.from_file(blob)', lambda cls, b: cls.from_file(b)),
    'from_file(bytearray)': ('{cls}.from_file(bytearray(blob))', lambda cls, b: cls.from_file(bytearray(b))),
    'from_file(BytesIO)': ('{cls}.from_file(io.BytesIO(blob))', lambda cls, b: cls.from_file(io.BytesIO(b))),
    'from_file(SpooledTemporaryFile in memory)': ('{cls}.from_file(spooled(blob, 10**9))', lambda cls, b: cls.from_file(spooled(b, 10 ** 9))),
    'from_file(SpooledTemporaryFile on disk)': ('{cls}.from_file(spooled(blob, 0))', lambda cls, b: cls.from_file(spooled(b, 0))),
    'fileview.load(bytes)': ('dimod.serialization.fileview.load(blob)', lambda cls, b: C9.fv_load(b)),
    'fileview.load(BytesIO)': ('dimod.serialization.fileview.load(io.BytesIO(blob))', lambda cls, b: C9.fv_load(io.BytesIO(b))),
    'fileview.load(SpooledTemporaryFile on disk)': ('dimod.serialization.fileview.load(spooled(blob, 0))', lambda cls, b: C9.fv_load(spooled(b, 0))),
}


def make_file(r, kind):
    """(spec, model, kind, bytes, option text, relabelled, f64, tag) of one random serialized model; every format variant"""
    spec = F.SPECS[kind](r, False)
    m0 = F.build(spec)
    if kind == 'bqm':
        ver, ign = r.choice([1, 2]), r.random() < .25
        kw = f'version={ver}, ignore_labels={ign}'
        return spec, m0, kind, m0.to_file(version=ver, ignore_labels=ign).read(), kw, ign, spec['dtype'] == 'object', f'bqm v{ver}'
    if kind == 'qm':
        return spec, m0, kind, m0.to_file().read(), '', False, False, 'qm'
    if kind == 'cqm':
        comp = r.random() < .4
        return spec, m0, kind, m0.to_file(compress=comp).read(), f'compress={comp}', False, False, 'cqm' + (' compressed' if comp else '')
    comp, ign = r.random() < .4, r.random() < .25
    return (spec, m0, kind, m0.to_file(compress=comp, ignore_labels=ign).read(), f'compress={comp}, ignore_labels={ign}', ign, False,
            'dqm' + (' compressed' if comp else ''))


def pick_prefixes(r, data, limit):
    n = len(data)
    if n + 1 <= limit:
        return list(range(n + 1))
    ks = set(r.sample(range(n + 1), limit - 40)) | set(range(0, 20)) | set(range(n - 19, n + 1))
    return sorted(ks)


def outcome_word(rc):
    return 'raises' if rc.startswith('e:') else 'equal' if rc == '=' else 'DIFFERENT' if rc.startswith('!') else rc


def judge_outcome(ctx, rc, site, ic, what, repro, detail=None):
    """(ii) on one outcome of the real code: an ordinary exception or the original model; nothing else"""
    if rc.startswith('CRASH') or rc in ('HANG', 'MISSING'):
        ctx.fail('crash', site, ic, f'{what}: the interpreter did not survive: {rc}', repro=repro, detail=detail)
    elif rc.startswith('!'):
        ctx.fail('property', site, ic, f'{what} loads as a DIFFERENT model: {rc[1:]}', repro=repro, detail=detail)


def entry_point_sweeps(ctx, r, nfiles, per_file):
    """truncated files through EVERY entry point the property names: from_file on bytes / bytearray / BytesIO /
    SpooledTemporaryFile (in memory and rolled over to disk) and the generic `fileview.load`"""
    for _ in range(nfiles):
        kind = r.choice(['bqm', 'qm', 'cqm', 'dqm'])
        spec, m, kind, data, kw, rel, f64, tag = make_file(r, kind)
        cls = F.cls_of(kind)
        names = ['from_file(bytes)'] + r.sample([n for n in ENTRY if n != 'from_file(bytes)'], 3)
        ks = pick_prefixes(r, data, per_file)
        items = [(nm, k) for nm in names for k in ks]

        def load(item):
            return ENTRY[item[0]][1](cls, data[:item[1]])
        real = F.sweep_prefixes(load, judge_for(kind, m, rel, f64), Keyed(items), ks=range(len(items)))
        base = {}
        for i, (nm, k) in enumerate(items):
            rc = real.get(i, 'MISSING')
            ctx.case(('entry', nm, kind, data[:k]), nontrivial=True)
            ctx.tick(f'entry {nm}: {tag}: {outcome_word(rc)}')
            if nm == 'from_file(bytes)':
                base[k] = rc
            elif rc[:1] != base.get(k, rc)[:1]:
                ctx.tick(f'entry {nm}: outcome class differs from from_file(bytes)')
            expr = ENTRY[nm][0].format(cls=F.CLS[kind])
            rp = (F.PRELUDE + F.SAME_SRC + SHORT_SRC + F.emit(spec) + f"blob = m.to_file({kw}).read()[:{k}]\n"
                  f"try:\n    new = {expr}\nexcept Exception as e:\n    print('raised', type(e).__name__)\n"
                  f"else:\n    d = diff_models({kind!r}, m, new, relabelled={rel}, float64_copy={f64})\n    assert d is None, d\n")
            judge_outcome(ctx, rc, f'{cls.__name__}.{nm}' if nm.startswith('from_file') else f'{nm} ({cls.__name__})',
                          f'{tag} cut inside {region_of(kind, data, k)}', f'the first {k} of {len(data)} bytes through {nm}', rp,
                          dict(source=F.emit(spec), options=kw, prefix=k))


def short_read_sweeps(ctx, r, nfiles, per_file):
    """a file object whose read(n) returns fewer bytes than requested at ONE call (each read call of the loader in turn x
    deficit n-1 / n//2 / 1), on complete files and on truncated ones: the loader must raise or return the original"""
    for _ in range(nfiles):
        kind = r.choice(['bqm', 'qm', 'qm', 'cqm', 'dqm'])
        spec, m, kind, data, kw, rel, f64, tag = make_file(r, kind)
        cls = F.cls_of(kind)
        cut = len(data) if r.random() < .6 else r.randrange(len(data))
        blob = data[:cut]
        use_load = r.random() < .3
        probe = ShortAt(blob)
        try:
            C9.fv_load(probe) if use_load else cls.from_file(probe)
        except Exception:  # noqa
            pass
        ncalls = probe.calls
        owners = probe.owners
        ats = list(range(ncalls)) if ncalls * 3 <= per_file else sorted(r.sample(range(ncalls), per_file // 3))
        items = [(at, kd) for at in ats for kd in ('minus1', 'half', 'one')]

        def load(item):
            f = ShortAt(blob, item[0], item[1])
            return C9.fv_load(f) if use_load else cls.from_file(f)
        real = F.sweep_prefixes(load, judge_for(kind, m, rel, f64), Keyed(items), ks=range(len(items)))
        entry = 'fileview.load' if use_load else 'from_file'
        for i, (at, kd) in enumerate(items):
            rc = real.get(i, 'MISSING')
            ctx.case(('short-read', entry, kind, blob, at, kd), nontrivial=True)
            lib = owners[at].split('.')[0] if at < len(owners) and owners[at].split('.')[0] in ('zipfile', 'numpy') else None
            if lib is not None and not (rc.startswith('CRASH') or rc in ('HANG', 'MISSING')):
                # the read was issued by zipfile / numpy, which require read(n) to return n bytes unless the file ends
                # (io.BufferedIOBase semantics): outside dimod's code and outside the property; robustness only
                ctx.tick(f'short read inside {lib} (robustness only, outside the property): {outcome_word(rc)}')
                continue
            ctx.tick(f'short read ({"complete" if cut == len(data) else "truncated"} {tag}): {outcome_word(rc)}')
            call = 'dimod.serialization.fileview.load' if use_load else F.CLS[kind] + '.from_file'
            rp = (F.PRELUDE + F.SAME_SRC + SHORT_SRC + F.emit(spec) + f"blob = m.to_file({kw}).read()[:{cut}]\n"
                  f"try:\n    new = {call}(ShortAt(blob, {at}, {kd!r}))\nexcept Exception as e:\n    print('raised', type(e).__name__)\n"
                  f"else:\n    d = diff_models({kind!r}, m, new, relabelled={rel}, float64_copy={f64})\n    assert d is None, d\n")
            judge_outcome(ctx, rc, f'{cls.__name__}.{entry} (file object with short reads)', f'{tag}: read call returns fewer bytes than requested',
                          f'read call {at} of {ncalls} returning {kd} of the requested bytes ({cut} of {len(data)} bytes available)', rp,
                          dict(source=F.emit(spec), options=kw, at=at, deficit=kd, available=cut))


def legacy_truncations(ctx, r, per_file):
    """the bundled CQM files of serialization versions 1.x (and 2.0) and DQM files with the minor version of the legacy
    format: every sampled prefix through from_file and fileview.load"""
    root = os.path.join(os.environ.get('VERIF_BUILD', ''), 'tests', 'data', 'cqm')
    files = []
    for fn in sorted(os.listdir(root)) if os.path.isdir(root) else []:
        data = open(os.path.join(root, fn), 'rb').read()
        files.append(('cqm', f'bundled {fn}', data, dimod.ConstrainedQuadraticModel.from_file(data),
                      "import os\nblob = open(os.path.join(os.path.dirname(os.path.dirname(dimod.__file__)), 'tests', 'data', 'cqm', " + repr(fn) + "), 'rb').read()\n"))
    for _ in range(2):
        spec = F.spec_dqm(r)
        m = F.build(spec)
        data = bytearray(m.to_file().read())
        data[9] = 0              # minor version of the format before `compress` / `ignore_labels` (1.0): same loader path
        files.append(('dqm', 'dqm version 1.0', bytes(data), m, F.emit(spec) + "blob = bytearray(m.to_file().read()); blob[9] = 0; blob = bytes(blob)\n"))
    for kind, tag, data, full, src in files:
        cls = F.cls_of(kind)
        ks = pick_prefixes(r, data, per_file)
        items = [(nm, k) for nm in ('from_file(bytes)', 'fileview.load(BytesIO)') for k in ks]

        def load(item):
            return ENTRY[item[0]][1](cls, data[:item[1]])
        real = F.sweep_prefixes(load, judge_for(kind, full), Keyed(items), ks=range(len(items)))
        for i, (nm, k) in enumerate(items):
            rc = real.get(i, 'MISSING')
            ctx.case(('legacy', tag, nm, k), nontrivial=True)
            ctx.tick(f'legacy {tag}: {outcome_word(rc)}')
            expr = ENTRY[nm][0].format(cls=F.CLS[kind])
            rp = (F.PRELUDE + F.SAME_SRC + src + f"full = {F.CLS[kind]}.from_file(blob)\nblob = blob[:{k}]\n"
                  f"try:\n    new = {expr}\nexcept Exception as e:\n    print('raised', type(e).__name__)\n"
                  f"else:\n    d = diff_models({kind!r}, full, new)\n    assert d is None, d\n")
            judge_outcome(ctx, rc, f'{cls.__name__}.{nm}' if nm.startswith('from_file') else f'{nm} ({cls.__name__})',
                          f'{tag}: truncated', f'the first {k} of {len(data)} bytes of {tag} through {nm}', rp, dict(prefix=k))


ADV_SRC = r"""
import io
def embed(z):
    '''the bytes `z`, zero-padded in FRONT to a multiple of 8, as float64 biases (so that `z` ends on a bias boundary)'''
    z = b'\0' * (-len(z) % 8) + z
    return z, np.frombuffer(z, dtype=np.float64).copy()

def adv_dqm(inner_cases=2, bias=42.0):
    '''a DQM whose linear biases spell the complete npz archive of ANOTHER (one-variable) DQM'''
    inner = dimod.DiscreteQuadraticModel(); inner.add_variable(inner_cases); inner.set_linear_case(0, inner_cases - 1, bias)
    v = inner.to_numpy_vectors(return_offset=True)
    buf = io.BytesIO()
    np.savez(buf, case_starts=v.case_starts, linear_biases=v.linear_biases, quadratic_row_indices=v.quadratic.row_indices,
             quadratic_col_indices=v.quadratic.col_indices, quadratic_biases=v.quadratic.biases, offset=v.offset)
    z, biases = embed(buf.getvalue())
    n = len(biases)
    outer = dimod.DiscreteQuadraticModel.from_numpy_vectors(
        case_starts=np.arange(n, dtype=np.uint32), linear_biases=biases,
        quadratic=(np.array([], dtype=np.uint32), np.array([], dtype=np.uint32), np.array([], dtype=np.float64)))
    return outer, z

def adv_cqm(N=200, inner_bias=1.0, compress_inner=True):
    '''a CQM whose objective's linear biases spell the complete zip archive of ANOTHER CQM with the same header counts'''
    inner = dimod.ConstrainedQuadraticModel(); inner.add_variables('BINARY', N)
    inner.set_objective([(v, inner_bias) for v in range(N)])
    idata = inner.to_file(compress=compress_inner).read()
    z, b = embed(idata[14 + int.from_bytes(idata[10:14], 'little'):])
    assert len(b) <= N
    biases = list(b) + [1.0] * (N - len(b))
    outer = dimod.ConstrainedQuadraticModel(); outer.add_variables('BINARY', N); outer.set_objective(zip(range(N), biases))
    return outer, z

def adv_cqm_cover(N=220, inner_bias=1.0, dup=False, cover_name='cover'):
    '''round 8: a CQM whose objective's linear biases spell the members, the directory and the end record of ANOTHER CQM (same
    header counts), written for the file position they occupy, and whose directory lists one more member FIRST: a "cover" at
    the position where the header ends whose compress_size spans all real members up to the embedded ones (the members then
    tile the file between header and embedded directory; the loader never opens the cover).  `dup`: the cover carries the
    NAME of the real first member (the embedded member of the same name, listed later, shadows it in zipfile's name table).'''
    import zipfile
    inner = dimod.ConstrainedQuadraticModel(); inner.add_variables('BINARY', N)
    inner.set_objective([(v, inner_bias) for v in range(N)])
    idata = inner.to_file(compress=True).read()
    izf = zipfile.ZipFile(io.BytesIO(idata[14 + int.from_bytes(idata[10:14], 'little'):]))
    members = [(i.filename, izf.read(i.filename)) for i in izf.infolist()]
    def outer_of(biases):
        outer = dimod.ConstrainedQuadraticModel(); outer.add_variables('BINARY', N); outer.set_objective(zip(range(N), biases))
        return outer
    data0 = outer_of(list(np.frombuffer(b'\xa5' * (8 * N), dtype=np.float64))).to_file().read()
    hend = 14 + int.from_bytes(data0[10:14], 'little')
    nlen1, elen1 = int.from_bytes(data0[hend + 26:hend + 28], 'little'), int.from_bytes(data0[hend + 28:hend + 30], 'little')
    q = data0.index(b'\xa5' * (8 * N))
    buf = io.BytesIO(b'\0' * q)
    zf = zipfile.ZipFile(buf, 'a', compression=zipfile.ZIP_DEFLATED)
    for name, content in members:
        zf.writestr(name, content)
    cover = zipfile.ZipInfo(data0[hend + 30:hend + 30 + nlen1].decode() if dup else cover_name)
    cover.header_offset = hend
    cover.compress_size = cover.file_size = q - (hend + 30 + nlen1 + elen1)
    cover.CRC = 0
    zf.filelist.insert(0, cover)
    zf.close()
    z = buf.getvalue()[q:]
    zp = z + b'\0' * (-len(z) % 8)
    assert len(zp) <= 8 * N
    return outer_of(list(np.frombuffer(zp, dtype=np.float64)) + [1.0] * (N - len(zp) // 8)), z

def adv_record(kind, count=0, size=0, offset=0):
    '''a model whose float64 biases spell the end record of an archive: PK\x05\x06, disk numbers, counts, size, offset, no comment'''
    rec = b'PK\x05\x06' + bytes(4) + count.to_bytes(2, 'little') * 2 + size.to_bytes(4, 'little') + offset.to_bytes(4, 'little') + bytes(2)
    z, biases = embed(rec)
    if kind == 'cqm':
        m = dimod.ConstrainedQuadraticModel(); m.add_variables('BINARY', len(biases) + 1)
        m.set_objective(list(zip(range(len(biases)), biases)) + [(len(biases), 2.5)])
        m.add_constraint_from_iterable([(0, 1.0), (1, 1.0)], '<=', 1.0, label='c')
    else:
        m = dimod.DiscreteQuadraticModel.from_numpy_vectors(
            case_starts=np.arange(len(biases), dtype=np.uint32), linear_biases=biases,
            quadratic=(np.array([1], dtype=np.uint32), np.array([0], dtype=np.uint32), np.array([3.5], dtype=np.float64)))
    return m, z
"""
exec(ADV_SRC)


def same_bits(kind, a, b):
    """field-by-field equality on the BIT patterns of the biases (the adversarial payloads contain NaN patterns)"""
    if kind == 'dqm':
        va, vb = a.to_numpy_vectors(return_offset=True), b.to_numpy_vectors(return_offset=True)
        return (list(a.variables) == list(b.variables) and va.case_starts.tolist() == vb.case_starts.tolist() and
                va.linear_biases.tobytes() == vb.linear_biases.tobytes() and
                all(x.tolist() == y.tolist() for x, y in zip(va.quadratic[:2], vb.quadratic[:2])) and
                va.quadratic[2].tobytes() == vb.quadratic[2].tobytes() and va.offset == vb.offset)

    def expr(e):
        return (list(e.variables), np.array([e.get_linear(v) for v in e.variables]).tobytes(),
                sorted((str(u), str(v), float(bb)) for u, v, bb in e.iter_quadratic()), e.offset)
    return (list(a.variables) == list(b.variables) and expr(a.objective) == expr(b.objective) and list(a.constraints) == list(b.constraints) and
            all(expr(a.constraints[c].lhs) == expr(b.constraints[c].lhs) and a.constraints[c].rhs == b.constraints[c].rhs and
                a.constraints[c].sense is b.constraints[c].sense for c in a.constraints))


def adversarial_payloads(ctx, r):
    """models whose float biases spell zip structures: a bare end record (of an empty archive, and with random counts /
    sizes / offsets) and a COMPLETE archive of another model.  The truncation theorems exclude such payloads (the signature
    occurs before the end record); the real loaders must still never return a different model for any prefix."""
    cases = []
    for kind in ('cqm', 'dqm'):
        cases.append((kind, 'payload spells the end record of an empty archive', f"m, z = adv_record({kind!r})\n", adv_record(kind)))
        cnt, size, off = r.randrange(3), r.choice([0, 46, 100]), r.randrange(0, 400)
        cases.append((kind, 'payload spells an end record with arbitrary counts', f"m, z = adv_record({kind!r}, {cnt}, {size}, {off})\n",
                      adv_record(kind, cnt, size, off)))
    ic_, b_ = r.choice([2, 3]), r.choice([42.0, -1.5])
    cases.append(('dqm', 'payload spells a complete archive of another model', f"m, z = adv_dqm({ic_}, {b_})\n", adv_dqm(ic_, b_)))
    N, ib = r.choice([150, 200]), r.choice([1.0, 0.5])
    cases.append(('cqm', 'payload spells a complete archive of another model', f"m, z = adv_cqm({N}, {ib}, True)\n", adv_cqm(N, ib, True)))
    N, ib, dup = r.choice([220, 240]), r.choice([1.0, 0.5]), r.random() < .5
    cases.append(('cqm', 'payload spells an archive whose directory lists a cover member over the real members',
                  f"m, z = adv_cqm_cover({N}, {ib}, {dup})\n", adv_cqm_cover(N, ib, dup)))
    for kind, icls, src, (m, z) in cases:
        cls = F.cls_of(kind)
        data = m.to_file().read()
        pos = data.find(z)
        if pos < 0:
            ctx.notes.append(f'adversarial payload not found verbatim in the {kind} file ({icls})')
            continue
        end = pos + len(z)
        ks = sorted(set(range(max(0, end - 30), min(len(data), end + 60))) | set(r.sample(range(len(data)), min(len(data), 150))) |
                    set(range(max(0, len(data) - 30), len(data))))
        entry = r.choice(['from_file(bytes)', 'fileview.load(BytesIO)', 'from_file(SpooledTemporaryFile on disk)'])

        def load(b):
            return ENTRY[entry][1](cls, b)

        def judge(got):
            return '=' if same_bits(kind, m, got) else '!' + (f'{type(got).__name__} with {len(got.variables)} variables instead of {len(m.variables)}' if len(got.variables) != len(m.variables) else f'{type(got).__name__} whose biases are not the written ones (the model spelled by the payload)')
        full = F.sweep_prefixes(load, judge, data, ks=[len(data)])[len(data)]
        if full != '=':
            ctx.fail('property', f'{cls.__name__}.to_file/from_file', f'{kind}: {icls}', f'the complete file does not load back: {full}',
                     repro=F.PRELUDE + ADV_SRC + src + f"{F.CLS[kind]}.from_file(m.to_file())\n")
            continue
        real = F.sweep_prefixes(load, judge, data, ks=ks)
        ctx.tick(f'adversarial {kind}: {icls}')
        if kind == 'cqm' and (len(data) <= 2500 or 'cover member' in icls and ctx.quick is False):
            hend = F.split_header(data)[3]
            tiled_prefix_opens(ctx, data, hend, C9.zip_entries(data)[1], f'adversarial cqm: {icls}', F.PRELUDE + ADV_SRC + src)
        bad = [k for k in ks if real.get(k, 'MISSING')[:1] not in ('e', '=')]
        for k in ks:
            rc = real.get(k, 'MISSING')
            ctx.case(('adversarial', kind, icls, k, data[:k][-40:]), nontrivial=True)
            ctx.tick(f'adversarial {kind}: {outcome_word(rc)}')
        if bad:
            k = bad[0]
            expr = ENTRY[entry][0].format(cls=F.CLS[kind])
            rp = (F.PRELUDE + SHORT_SRC + ADV_SRC + src + f"data = m.to_file().read()\nblob = data[:{k}]\n"
                  f"try:\n    new = {expr}\nexcept Exception as e:\n    print('raised', type(e).__name__)\n"
                  f"else:\n    assert len(new.variables) == len(m.variables), 'the first {k} of %d bytes load as a model with %d variables "
                  f"instead of %d' % (len(data), len(new.variables), len(m.variables))\n")
            judge_outcome(ctx, real[k], f'{cls.__name__}.from_file', f'{kind}: {icls}',
                          f'{len(bad)} of {len(ks)} explored prefixes (first: {k} of {len(data)} bytes; the embedded bytes end at {end}) through {entry}',
                          rp, dict(prefixes=bad[:20], embedded_end=end, nbytes=len(data)))


def run(ctx):
    r = ctx.rng
    ctx.rule = ('random BQM (v1 and v2) / QM / CQM / DQM files and expression members; a case = one (file, prefix length) pair, every '
                'prefix length 0..len of every file; all non-trivial (a load is attempted); distinct by prefix bytes; plus the five raw '
                'loaders on (buffer, n) pairs placed against an unreadable page')
    guarded_budget = [ctx.scale(30, 600)]
    counts = dict(bqm=ctx.scale(30, 500), qm=ctx.scale(50, 800), cqm=ctx.scale(16, 300), dqm=ctx.scale(12, 200))
    for kind, fn in (('qm', qm_files), ('bqm', bqm_files), ('cqm', cqm_files), ('dqm', dqm_files)):
        S = Sweep()
        for _ in range(counts[kind]):
            fn(ctx, r, S, F.SPECS[kind](r, False))
        evaluate(ctx, S, guarded_budget)
        if len([f for f in ctx.failures if f['kind'] != 'correspondence']) >= 12:
            break
    eocd_evaluate(ctx)
    expr_sweeps(ctx, r, ctx.scale(20, 300), guarded_budget)
    raw_loader_cases(ctx, r, ctx.scale(120, 1500))
    entry_point_sweeps(ctx, r, ctx.scale(10, 80), ctx.scale(160, 400))
    short_read_sweeps(ctx, r, ctx.scale(24, 250), ctx.scale(90, 300))
    legacy_truncations(ctx, r, ctx.scale(120, 600))
    adversarial_payloads(ctx, r)
    eocd_evaluate(ctx)
    if not ctx.quick:
        valgrind_sample(ctx, r, 3)
        corrupt_sweep(ctx, r, 90)
        corrupt_sweep_cqm(ctx, r, 60)
