"""C06 — symbolic arithmetic on models is pointwise arithmetic on energies.

Random expression trees (depth <= 5) over a small shared label alphabet are built with the *real*
operators (Binary/Spin/Integer/Real and the plural/array constructors, + - * unary -, / and * by
numbers, **2, quicksum, the in-place forms, aliased operands `t op t`, CQM objective / constraint
views).  Every sub-tree is one case:

(i)   correspondence: class (number / BQM+vartype / QM / view), variable order, vartypes, bounds,
      linear biases, interactions (presence and bias), offset, or the exception class, equal to what
      the Lean model `Sym.build` gives for the same tree (driver `symdriver`);
(ii)  property predicate, computed here from the definition only: the energy of the result, evaluated
      in exact Fractions *from the coefficients the real object reports*, equals the tree's arithmetic
      on numbers at every small sample (x*x = x for binary and s*s = 1 for spin hold because samples
      are in-domain); every operand variable is in the result with the same vartype and bounds; operands
      with conflicting vartype/bounds for one label make the operator raise; operands of non-in-place
      operators (and the right operand of in-place ones) are unmodified.
"""
import itertools
from fractions import Fraction as F

import numpy as np

import dimod
from dimod import BinaryQuadraticModel as BQM, QuadraticModel as QM
from dimod.constrained.expression import ObjectiveView, ConstraintView
from harness.common import lab, rat, run_driver

LABELS = ['a', 'b', 'c', 0, 1, ('t', 1)]
KINDS = 'SBIR'
VT = {'S': dimod.SPIN, 'B': dimod.BINARY, 'I': dimod.INTEGER, 'R': dimod.REAL}
VTN = {'SPIN': 'S', 'BINARY': 'B', 'INTEGER': 'I', 'REAL': 'R'}
BIN2 = ('ADD', 'SUB', 'MUL', 'IADD', 'ISUB', 'IMUL')
SELF1 = ('ADDS', 'SUBS', 'MULS', 'IADDS', 'ISUBS')
ERRS = {TypeError: 'type', ValueError: 'value', ZeroDivisionError: 'zerodiv'}


# ------------------------------------------------------------------ generation

def dy(r, big=False):
    return F(r.randint(-24, 24) if big else r.choice([-16, -8, -4, -3, -1, 1, 2, 4, 8, 12, 16, 20, 24]), 8)


def gen_typing(r, mixed=False):
    """label -> (kind, lb, ub): the consistent typing of one tree"""
    ty = {}
    for l in LABELS:
        k = r.choice('SBBBIIR')
        lb = ub = None
        if k in 'IR':
            m = r.random()
            if m < .5 and not mixed:
                lb, ub = F(0), None                      # the constructors' defaults
            else:
                lb = F(r.choice([-3, -2, -1, 0, 0, 1]))
                ub = lb + r.choice([1, 2, 3, 5]) if k == 'I' else lb + F(r.choice([4, 8, 12, 20]), 8)
                if k == 'R' and r.random() < .3:
                    lb -= F(1, 2)
        ty[l] = (k, lb, ub)
    return ty


def gen_leaf(r, ty, conflict):
    m = r.random()
    if m < .20:
        return ('C', dy(r, True))
    if m < .30:        # a variable-free BQM of either vartype (a constant / accumulator), as left or right operand
        return ('E', r.choice('SB'), dy(r, True) if r.random() < .6 else F(0), r.randrange(4))
    l = r.choice(LABELS if r.random() < .5 else LABELS[:3])
    k, lb, ub = ty[l]
    if conflict and r.random() < .5:
        m = r.random()
        if m < .3:
            # a different vartype over the *same* bounds: Spin('a') vs Integer('a', -1, 1), Binary vs Integer(0, 1), INTEGER vs REAL
            k2 = r.choice([x for x in 'IR' if x != k])
            if k == 'S':
                lb, ub = F(-1), F(1)
            elif k == 'B':
                lb, ub = F(0), F(1)
            k = k2
        elif m < .6 or k in 'SB':
            k2 = r.choice([x for x in KINDS if x != k])
            k, lb, ub = k2, (F(0) if k2 in 'IR' else None), None
        elif m < .75:
            lb = (lb or F(0)) - 1
        else:
            ub = F(r.choice([2, 9, 11]))
    bias = F(1) if r.random() < .4 else dy(r)
    dt = None
    if ty.get('__mixed__'):
        if k in 'IR' and ub is None:
            ub = F(40)      # the default upper bounds (2^53-1, 1e30) are not float32 values
        dt = r.choice(['float32', 'float64', None] + (['object'] if k in 'SB' else []))
    return ('V', k, l, bias, lb, ub, dt)


def gen(r, depth, ty, conflict, linear=False):
    if depth <= 0 or r.random() < (.18 if depth > 1 else .45):
        return gen_leaf(r, ty, conflict)
    if linear:
        op = r.choice(['ADD', 'ADD', 'SUB', 'NEG', 'DIV', 'IADD', 'ISUB', 'SCALE', 'SCALE', 'ADDS', 'Q3'])
    else:
        op = r.choice(['ADD'] * 5 + ['SUB'] * 4 + ['MUL'] * 6 + ['NEG'] * 2 + ['DIV'] * 2 + ['POW'] * 3 + ['IADD'] * 3 +
                      ['ISUB'] * 3 + ['IMUL'] * 2 + ['IDIV'] + ['Q0', 'Q1', 'Q3', 'Q3'] + ['VIEWO'] * 2 + ['VIEWC'] * 2 +
                      ['ADDS', 'SUBS', 'MULS', 'IADDS', 'ISUBS', 'SCALE', 'SCALE'])
    d = depth - 1
    if op == 'SCALE':      # number * model or model * number (also in-place)
        q = ('C', r.choice([F(2), F(-1), F(1, 2), F(3), F(-3, 2), F(0), F(4)]))
        a = gen(r, d, ty, conflict, linear)
        return r.choice([('MUL', q, a), ('MUL', a, q), ('IMUL', a, q)])
    if op in ('MUL', 'IMUL'):
        lin = r.random() < .85
        return (op, gen(r, min(d, 2), ty, conflict, lin), gen(r, min(d, 2), ty, conflict, lin))
    if op in BIN2:
        return (op, gen(r, d, ty, conflict, linear), gen(r, d, ty, conflict, linear))
    if op in ('POW', 'MULS'):
        a = gen(r, min(d, 2), ty, conflict, r.random() < .85)
        return ('POW', 2 if r.random() < .9 else r.choice([0, 1, 3]), a) if op == 'POW' else (op, a)
    if op in ('DIV', 'IDIV'):
        return (op, r.choice([F(2), F(-2), F(4), F(1, 2), F(-1, 4), F(8), F(1)]) if r.random() < .95 else F(0),
                gen(r, d, ty, conflict, linear))
    if op == 'Q0':
        return ('Q0',)
    if op == 'Q3':
        return ('Q3', gen(r, d, ty, conflict, linear), gen(r, d, ty, conflict, linear), gen(r, d, ty, conflict, linear))
    return (op, gen(r, d, ty, conflict, linear))      # NEG VIEWO VIEWC Q1 ADDS SUBS IADDS ISUBS


# ---- systematic sweep over the operator dispatch paths: every operator x every pair of operand classes

DKINDS = ('num', 'bqmS', 'bqmB', 'bqm0S', 'bqm0B', 'qm', 'viewO', 'viewC')


def dispatch_typing(r):
    """a typing with every variable kind present: two SPIN, two BINARY, one INTEGER and one REAL label"""
    ls = list(LABELS)
    r.shuffle(ls)
    ty = {ls[0]: ('S', None, None), ls[1]: ('S', None, None), ls[2]: ('B', None, None), ls[3]: ('B', None, None)}
    lb = F(r.choice([-2, -1, 0, 0]))
    ty[ls[4]] = ('I', F(0), None) if r.random() < .4 else ('I', lb, lb + r.choice([1, 2, 3, 5]))
    lb = F(r.choice([-3, -1, 0, 0]), 2)
    ty[ls[5]] = ('R', F(0), None) if r.random() < .3 else ('R', lb, lb + F(r.choice([4, 8, 12]), 8))
    return ty


def d_leaf(r, ty, kinds, conflict=False):
    l = r.choice([x for x in LABELS if ty[x][0] in kinds])
    k, lb, ub = ty[l]
    if conflict:          # the same label with other bounds or another kind
        if k in 'IR' and r.random() < .5:
            ub = (ub if ub is not None else F(7)) + 1
        else:
            k = r.choice([x for x in KINDS if x != k])
            lb, ub = (F(0) if k in 'IR' else None), None
    return ('V', k, l, F(1) if r.random() < .3 else dy(r), lb, ub, None)


def d_operand(r, ty, kind, conflict=False):
    """a small operand of the given class"""
    if kind == 'num':
        return ('C', dy(r, True))
    if kind in ('bqm0S', 'bqm0B'):
        return ('E', kind[-1], dy(r, True) if r.random() < .7 else F(0), r.randrange(4))
    if kind in ('bqmS', 'bqmB'):
        k = kind[-1]
        a = d_leaf(r, ty, k, conflict)
        m = r.random()
        if m < .4:
            return a
        if m < .8:
            return ('ADD', a, r.choice([('C', dy(r, True)), d_leaf(r, ty, k)]))
        return ('MUL', a, d_leaf(r, ty, k))                    # an interaction, or x*x
    if kind == 'qm':
        m = r.random()
        a = d_leaf(r, ty, 'IR' if m < .7 else 'I', conflict)
        if m < .3:
            return a
        if m < .6:
            return ('ADD', a, d_leaf(r, ty, 'SB'))               # a promoted BQM inside
        if m < .7:
            return ('ADD', d_leaf(r, ty, 'S', conflict), d_leaf(r, ty, 'B'))   # the QM of two BQMs of different vartypes
        if m < .85:
            return ('SUB', a, ('C', dy(r, True)))
        return ('MUL', a, d_leaf(r, ty, 'SBI'))                 # an interaction, or i*i
    return ('VIEWO' if kind == 'viewO' else 'VIEWC', d_operand(r, ty, r.choice(['bqmS', 'bqmB', 'qm']), conflict))


def dispatch_trees(r):
    """(tree, typing) for every binary / in-place operator and quicksum over every pair of operand classes (15% with a label
    the right operand types differently: the rejected paths), and every unary form over every class"""
    out = []
    for op in BIN2 + ('Q3',):
        for ka in DKINDS:
            for kb in DKINDS:
                ty = dispatch_typing(r)
                ty['__mixed__'] = False
                a, b = d_operand(r, ty, ka), d_operand(r, ty, kb, r.random() < .15)
                out.append(((op, a, b) if op != 'Q3' else (op, a, b, d_operand(r, ty, r.choice(DKINDS))), ty))
    for op in ('NEG', 'POW', 'DIV', 'IDIV', 'Q1', 'ADDS', 'SUBS', 'MULS', 'IADDS', 'ISUBS'):
        for ka in DKINDS:
            ty = dispatch_typing(r)
            ty['__mixed__'] = False
            a = d_operand(r, ty, ka)
            if op == 'POW':
                out.append((('POW', 2, a), ty))
            elif op in ('DIV', 'IDIV'):
                out.append(((op, r.choice([F(2), F(-4), F(1, 2), F(0)]), a), ty))
            else:
                out.append(((op, a), ty))
    return out


# ---- the array constructors with NumPy's element-wise operators and reductions

ARRAY_CTOR = {'S': 'SpinArray', 'B': 'BinaryArray', 'I': 'IntegerArray', 'R': None}


def realarray(ls):
    """there is no RealArray constructor: the Reals in an object array"""
    a = np.empty(len(ls), dtype=object)
    for i, m in enumerate(dimod.Reals(ls)):
        a[i] = m
    return a


def fold_add(es):
    t = es[0]
    for e in es[1:]:
        t = ('ADD', t, e)
    return t


def array_tree(r):
    """(equivalent scalar tree, special entry): `SpinArray/BinaryArray/IntegerArray(labels)` (Reals: `np.array(list(dimod.Reals(labels)))`)
    combined element-wise with a vector of numbers / a number / a second array and reduced with `.sum()`, `@`, `np.dot` or
    `quicksum`.  NumPy calls the same operator overloads element by element and folds `+` from the left, so the value must
    be the one of the scalar tree; the elements must not be modified."""
    K = r.choice('SSBBBIIR')
    k = r.choice([1, 2, 2, 3, 3])
    la = r.sample(LABELS, k)
    stage = r.choice(['id', 'id', 'wmul', 'mulw', 'addw', 'subw', 'rsubw', 'div', 'neg', 'pow', 'xy', 'xy', 'x+y', 'x-y', 'qmul', 'qadd'])
    leaf = lambda kk, l: ('V', kk, l, F(1), F(0) if kk in 'IR' else None, None, None)      # noqa: E731
    a = [leaf(K, l) for l in la]
    w = [dy(r) for _ in range(k)]
    q = r.choice([F(2), F(-4), F(1, 2), F(-1), F(8)])      # divisors must be powers of two (exact arithmetic)
    K2, lb_ = K, la
    if stage in ('xy', 'x+y', 'x-y'):
        K2 = r.choice('SBI' + K)
        rest = [l for l in LABELS if l not in la]
        lb_ = r.sample(LABELS, k) if K2 == K else (r.sample(rest, k) if len(rest) >= k else None)
        if lb_ is None:
            stage = 'id'
    b = [leaf(K2, l) for l in (lb_ or [])]
    C = lambda v: ('C', v)      # noqa: E731
    es = {'id': lambda: a, 'wmul': lambda: [('MUL', C(w[i]), a[i]) for i in range(k)], 'mulw': lambda: [('MUL', a[i], C(w[i])) for i in range(k)],
          'addw': lambda: [('ADD', a[i], C(w[i])) for i in range(k)], 'subw': lambda: [('SUB', a[i], C(w[i])) for i in range(k)],
          'rsubw': lambda: [('SUB', C(w[i]), a[i]) for i in range(k)], 'div': lambda: [('DIV', q, a[i]) for i in range(k)],
          'neg': lambda: [('NEG', a[i]) for i in range(k)], 'pow': lambda: [('POW', 2, a[i]) for i in range(k)],
          'xy': lambda: [('MUL', a[i], b[i]) for i in range(k)], 'x+y': lambda: [('ADD', a[i], b[i]) for i in range(k)],
          'x-y': lambda: [('SUB', a[i], b[i]) for i in range(k)], 'qmul': lambda: [('MUL', C(q), a[i]) for i in range(k)],
          'qadd': lambda: [('ADD', a[i], C(q)) for i in range(k)]}[stage]()
    red = r.choice(['sum', 'sum', 'quicksum'] + (['x@w', 'w@x', 'dot'] if stage == 'id' else []))
    if red == 'quicksum' and k == 2:
        red = 'sum'
    if red in ('x@w', 'w@x', 'dot'):
        es = [('MUL', a[i], C(w[i])) if red != 'w@x' else ('MUL', C(w[i]), a[i]) for i in range(k)]
    t = fold_add(es) if red != 'quicksum' else (('Q1', es[0]) if k == 1 else ('Q3',) + tuple(es))

    def arr_src(kk, ls):
        return f'dimod.{ARRAY_CTOR[kk]}({ls!r})' if ARRAY_CTOR[kk] else f'realarray({ls!r})'
    wsrc = 'np.array(' + repr([float(v) for v in w]) + ')'
    qsrc = repr(int(q) if q.denominator == 1 else float(q))
    esrc = {'id': 'x', 'wmul': 'w * x', 'mulw': 'x * w', 'addw': 'x + w', 'subw': 'x - w', 'rsubw': 'w - x', 'div': f'x / {qsrc}', 'neg': '-x',
            'pow': 'x ** 2', 'xy': 'x * y', 'x+y': 'x + y', 'x-y': 'x - y', 'qmul': f'{qsrc} * x', 'qadd': f'x + {qsrc}'}[stage]
    rsrc = {'sum': f'({esrc}).sum()', 'quicksum': f'dimod.quicksum({esrc})', 'x@w': 'x @ w', 'w@x': 'w @ x', 'dot': 'np.dot(x, w)'}[red]
    src = f"(lambda x, y, w: {rsrc})({arr_src(K, la)}, {arr_src(K2, lb_) if b else None}, {wsrc})"

    def run_it(ev, node):
        env = {'dimod': dimod, 'np': np, 'realarray': realarray}
        x = eval(arr_src(K, la), env)
        y = eval(arr_src(K2, lb_), env) if b else None
        wv = np.array([float(v) for v in w])
        elems = list(x) + (list(y) if y is not None else [])
        before = [snap(e) for e in elems]
        try:
            out = eval(f'lambda x, y, w: {rsrc}', env)(x, y, wv)
        finally:
            after = [snap(e) for e in elems]
            if before != after:
                i = next(j for j in range(len(elems)) if before[j] != after[j])
                ev.opfail = (node, i, before[i], after[i])
        if isinstance(out, np.ndarray):
            out = out.item()
        return out
    KEEP_NODES.append(t)
    SRC_OVERRIDE[id(t)] = src
    return t, {id(t): (run_it, f'{K}:{stage}:{red}')}


def subtrees(t, out):
    """post order, children first"""
    for c in (() if t[0] in 'VCE' else t[1:]):
        if isinstance(c, tuple) and c and isinstance(c[0], str) and c[0].isupper():
            subtrees(c, out)
    out.append(t)
    return out


def line_of(t):
    op = t[0]
    if op == 'V':
        _, k, l, b, lb, ub, _dt = t
        return f"V {k} {lab(l)} {rat(b)} {'-' if lb is None else rat(lb)} {'-' if ub is None else rat(ub)}"
    if op == 'C':
        return f'C {rat(t[1])}'
    if op == 'E':
        return f'E {t[1]} {rat(t[2])}'
    if op in ('DIV', 'IDIV', 'POW'):
        return f'{op} {rat(t[1])} {line_of(t[2])}'
    return ' '.join([op] + [line_of(c) for c in t[1:]])


# ------------------------------------------------------------------ real evaluation

class SkipTree(Exception):
    pass


class Raised(Exception):
    def __init__(self, cls, exc):
        self.cls, self.exc = cls, exc


class Unreadable(Exception):
    """the readers of a value produced by an operator (variables, vartype, bounds, biases) raise: the object is inconsistent"""
    def __init__(self, node, exc):
        self.node, self.exc = node, exc


def make_leaf(r, t, dtypes, keep):
    _, k, l, bias, lb, ub, dt = t
    dt = {None: None, 'float32': np.float32, 'float64': np.float64, 'object': object}[dt]
    plural = dt is None and bias == 1 and (k in 'SB' or (lb == 0 and ub is None))
    b = float(bias)
    if plural and r.random() < .5:
        name = {'S': 'Spin', 'B': 'Binar', 'I': 'Integer', 'R': 'Real'}[k]
        if k == 'R' or r.random() < .5:
            return next(iter(getattr(dimod, name + ('ies' if k == 'B' else 's'))([l])))
        return getattr(dimod, ('Binary' if k == 'B' else name) + 'Array')([l])[0]
    kw = {} if dt is None else {'dtype': dt}
    if k == 'S':
        return dimod.Spin(l, b, **kw)
    if k == 'B':
        return dimod.Binary(l, b, **kw)
    if lb is not None:
        kw['lower_bound'] = float(lb)
    if ub is not None:
        kw['upper_bound'] = float(ub)
    return (dimod.Integer if k == 'I' else dimod.Real)(l, b, **kw)


def is_model(o):
    return isinstance(o, (BQM, QM))


def is_view(o):
    return isinstance(o, (ObjectiveView, ConstraintView))


def snap(o):
    """canonical state of a value, in the driver's output format"""
    if not (is_model(o) or is_view(o)):
        return 'num ' + rat(o)
    vs = list(o.variables)
    if isinstance(o, BQM):
        head = 'bqm:' + VTN[o.vartype.name]
        info = lambda v: (VTN[o.vartype.name], *((-1, 1) if o.vartype is dimod.SPIN else (0, 1)))  # noqa: E731
    else:
        head = 'qm' if isinstance(o, QM) else 'view'
        info = lambda v: (VTN[o.vartype(v).name], o.lower_bound(v), o.upper_bound(v))  # noqa: E731
    vtxt = ','.join(f'{lab(v)}:{info(v)[0]}:{rat(info(v)[1])}:{rat(info(v)[2])}:{rat(o.get_linear(v))}' for v in vs)
    idx = {v: i for i, v in enumerate(vs)}
    qs = sorted((min(idx[u], idx[v]), max(idx[u], idx[v]), F(float(b))) for u, v, b in o.iter_quadratic())
    return f"{head} {vtxt};{','.join(f'{i}:{j}:{rat(b)}' for i, j, b in qs)};{rat(o.offset)}"


def coeffs(o):
    """(varinfo, linear, quadratic, offset) read from the real object, exact"""
    if not (is_model(o) or is_view(o)):
        return {}, {}, [], F(o)
    if isinstance(o, BQM):
        info = {v: (VTN[o.vartype.name], *((F(-1), F(1)) if o.vartype is dimod.SPIN else (F(0), F(1)))) for v in o.variables}
    else:
        info = {v: (VTN[o.vartype(v).name], F(float(o.lower_bound(v))), F(float(o.upper_bound(v)))) for v in o.variables}
    return (info, {v: F(float(o.get_linear(v))) for v in o.variables},
            [(u, v, F(float(b))) for u, v, b in o.iter_quadratic()], F(float(o.offset)))


def kind_of(o):
    """operand class as the operator dispatch sees it"""
    if isinstance(o, BQM):
        return 'bqm' if o.num_variables else 'bqm0'
    if isinstance(o, QM):
        return 'qm'
    if isinstance(o, ObjectiveView):
        return 'viewO'
    if isinstance(o, ConstraintView):
        return 'viewC'
    return 'num'


def path_name(op, operands, kinds, out, inplace_left):
    """tick name of one operator dispatch path: operand classes (two BQMs: same / different vartype), result class or
    exception, and for the in-place forms whether the left operand was mutated or Python fell back on the binary operator"""
    if len(operands) == 2 and all(isinstance(x, BQM) for x in operands):
        rel = ' =vt ' if operands[0].vartype is operands[1].vartype else ' !=vt '
    else:
        rel = ' , '
    if isinstance(out, Raised):
        res = 'raises ' + out.cls
    else:
        res = kind_of(out)
        if inplace_left:
            res += ' [in place]' if out is operands[0] else ' [fallback on the binary operator]'
    return f'path {op}: {rel.join(kinds)} -> {res}'


class Evaluator:
    """evaluates a tree bottom-up with the real operators, checking operand immutability at each node"""

    def __init__(self, ctx, r, dtypes, src):
        self.ctx, self.r, self.dtypes, self.src = ctx, r, dtypes, src
        self.keep = []          # CQMs owning views
        self.res = {}           # id(node) -> ('ok', obj) | ('err', cls)
        self.opfail = None
        self.special = {}       # id(node) -> (callable(ev), tick): the node is evaluated by an array expression, not by its children

    def view_of(self, o, obj):
        if not is_model(o):
            raise TypeError('view of a number')
        if o.dtype == object:
            raise SkipTree('a CQM does not take object-dtype models')
        cqm = dimod.ConstrainedQuadraticModel()
        self.keep.append(cqm)
        if obj:
            cqm.set_objective(o)
            return cqm.objective
        lbl = cqm.add_constraint(o <= 1.5) if self.r.random() < .5 else cqm.add_constraint_from_model(o, '>=', 0)
        return cqm.constraints[lbl].lhs

    def ev(self, t):
        try:
            o = self._ev(t)
            try:
                self.res[id(t)] = ('ok', o, snap(o), coeffs(o))     # read now: a parent's in-place operator may mutate o
            except Exception as e:       # noqa: BLE001 - whatever the readers raise
                raise Unreadable(t, e)
            return o
        except Raised as e:
            self.res.setdefault(id(t), ('err', e.cls))
            raise

    def apply(self, t, f, operands, inplace_left=False):
        before = [snap(x) for x in operands]
        kinds = [kind_of(x) for x in operands]
        try:
            out = f()
        except (TypeError, ValueError, ZeroDivisionError) as e:
            out = Raised(ERRS[type(e)], e)
        try:
            after = [snap(x) for x in operands]
        except Exception as e:       # noqa: BLE001
            raise Unreadable(t, e)
        self.ctx.tick(path_name(t[0], operands, kinds, out, inplace_left))
        if isinstance(out, Raised) and not inplace_left and any(is_model(x) or is_view(x) for x in operands):
            self.ctx.tick('rejected non-in-place operator: operands compared before/after')
        for i, (b, a) in enumerate(zip(before, after)):
            if b != a and not (inplace_left and i == 0 and out is operands[0]):
                if inplace_left and i == 0 and isinstance(out, Raised):
                    continue     # an in-place operator that raises half-way may leave its target modified
                self.opfail = (t, i, b, a)
        if isinstance(out, Raised):
            raise out
        if not inplace_left and any(out is x for x in operands if is_model(x)):
            self.opfail = (t, -1, 'result is a new object', 'result is one of the operands')
        return out

    def _ev(self, t):
        op = t[0]
        if id(t) in self.special:
            f, how = self.special[id(t)]
            try:
                out = f(self, t)
            except (TypeError, ValueError, ZeroDivisionError) as e:
                self.ctx.tick(f'array form: {how} -> raises {ERRS[type(e)]}')
                raise Raised(ERRS[type(e)], e)
            self.ctx.tick(f'array form: {how} -> {kind_of(out)}')
            return out
        if op == 'V':
            try:
                return make_leaf(self.r, t, self.dtypes, self.keep)
            except (TypeError, ValueError) as e:
                raise Raised(ERRS[type(e)], e)
        if op == 'E':
            _, k, off, how = t
            vt = 'SPIN' if k == 'S' else 'BINARY'
            if how == 0:
                e = BQM(vt)
                e.offset = float(off)
            elif how == 1:
                e = BQM({}, {}, float(off), vt)
            elif how == 2:
                e = BQM.empty(vt)
                e += float(off)
            else:              # a model whose only variable was fixed
                e = BQM({'gone': 1.0}, {}, float(off) - 1.0, vt)
                e.fix_variable('gone', 1)
            return e
        if op == 'C':
            q = t[1]
            return int(q) if q.denominator == 1 and self.r.random() < .7 else (np.float64(float(q)) if self.r.random() < .2 else float(q))
        if op == 'Q0':
            return dimod.quicksum([])
        if op in ('DIV', 'IDIV', 'POW'):
            a = self.ev(t[2])
            q = t[1]
            qq = int(q) if F(q).denominator == 1 else float(q)
            if isinstance(a, np.floating):
                a = float(a)        # number / 0 is NumPy's business (inf + warning), not dimod's
            if op == 'DIV':
                return self.apply(t, lambda: a / qq, [a])
            if op == 'POW':
                return self.apply(t, lambda: a ** qq, [a])

            def f():
                x = a
                x /= qq
                return x
            return self.apply(t, f, [a], inplace_left=True)
        if op in BIN2:
            a = self.ev(t[1])
            b = self.ev(t[2])
            if op == 'ADD':
                return self.apply(t, lambda: a + b, [a, b])
            if op == 'SUB':
                return self.apply(t, lambda: a - b, [a, b])
            if op == 'MUL':
                return self.apply(t, lambda: a * b, [a, b])

            def f():
                x = a
                if op == 'IADD':
                    x += b
                elif op == 'ISUB':
                    x -= b
                else:
                    x *= b
                return x
            return self.apply(t, f, [a, b], inplace_left=True)
        if op == 'Q3':
            xs = [self.ev(c) for c in t[1:]]
            return self.apply(t, lambda: dimod.quicksum(xs if self.r.random() < .5 else iter(xs)), xs)
        a = self.ev(t[1])
        if op == 'NEG':
            return self.apply(t, lambda: -a, [a])
        if op in ('VIEWO', 'VIEWC'):
            return self.apply(t, lambda: self.view_of(a, op == 'VIEWO'), [a])
        if op == 'Q1':
            return self.apply(t, lambda: dimod.quicksum([a]), [a])
        if op == 'ADDS':
            return self.apply(t, lambda: a + a, [a])
        if op == 'SUBS':
            return self.apply(t, lambda: a - a, [a])
        if op == 'MULS':
            return self.apply(t, lambda: a * a, [a])

        def g():
            x = a
            if op == 'IADDS':
                x += x
            else:
                x -= x
            return x
        return self.apply(t, g, [a], inplace_left=True)


# ------------------------------------------------------------------ property predicate (definition)

def tree_eval(t, x):
    """the arithmetic the tree denotes, on numbers"""
    op = t[0]
    if op == 'V':
        return t[3] * x[t[2]]
    if op == 'C':
        return t[1]
    if op == 'E':
        return t[2]
    if op == 'Q0':
        return F(0)
    if op in ('DIV', 'IDIV'):
        return tree_eval(t[2], x) / t[1]
    if op == 'POW':
        return tree_eval(t[2], x) ** int(t[1])
    if op in ('ADD', 'IADD'):
        return tree_eval(t[1], x) + tree_eval(t[2], x)
    if op in ('SUB', 'ISUB'):
        return tree_eval(t[1], x) - tree_eval(t[2], x)
    if op in ('MUL', 'IMUL'):
        return tree_eval(t[1], x) * tree_eval(t[2], x)
    if op == 'Q3':
        return sum(tree_eval(c, x) for c in t[1:])
    a = tree_eval(t[1], x)
    return {'NEG': -a, 'VIEWO': a, 'VIEWC': a, 'Q1': a, 'ADDS': 2 * a, 'IADDS': 2 * a, 'SUBS': F(0), 'ISUBS': F(0), 'MULS': a * a}[op]


def leaves(t, out):
    if t[0] == 'V':
        out.append(t)
    elif t[0] in 'CE':
        pass
    else:
        for c in t[1:]:
            if isinstance(c, tuple):
                leaves(c, out)
    return out


def domain(kind, lb, ub):
    if kind == 'S':
        return [F(-1), F(1)]
    if kind == 'B':
        return [F(0), F(1)]
    cand = [F(-2), F(0), F(1), F(3)] if kind == 'I' else [F(-3, 2), F(0), F(1, 2), F(2)]
    vals = [c for c in cand if lb <= c <= ub]
    return vals[:3] or [lb]


def model_energy(co, x):
    info, lin, quad, off = co
    return off + sum(b * x[v] for v, b in lin.items()) + sum(b * x[u] * x[v] for u, v, b in quad)


SRC_OVERRIDE = {}      # id(node) -> source text, for nodes evaluated through another API than the scalar operators (array forms)
KEEP_NODES = []        # keeps those nodes alive so that their ids stay unique


def pyexpr(t):
    """source text building the tree with the real operators (helpers defined in PRE)"""
    if id(t) in SRC_OVERRIDE:
        return SRC_OVERRIDE[id(t)]
    op = t[0]
    if op == 'V':
        _, k, l, b, lb, ub, dt = t
        name = {'S': 'Spin', 'B': 'Binary', 'I': 'Integer', 'R': 'Real'}[k]
        kw = ('' if dt is None else f', dtype={dt!r}') + ''.join(f', {n}={float(v)!r}' for n, v in (('lower_bound', lb), ('upper_bound', ub)) if v is not None and k in 'IR')
        return f'dimod.{name}({l!r}, {float(b)!r}{kw})'
    if op == 'C':
        return repr(int(t[1]) if t[1].denominator == 1 else float(t[1]))
    if op == 'E':
        return f"dimod.BQM({{}}, {{}}, {float(t[2])!r}, {'SPIN' if t[1] == 'S' else 'BINARY'!r})"
    if op in ('DIV', 'IDIV', 'POW'):
        q = int(t[1]) if F(t[1]).denominator == 1 else float(t[1])
        return {'DIV': f'({pyexpr(t[2])} / {q!r})', 'POW': f'({pyexpr(t[2])} ** {q!r})', 'IDIV': f'idiv({pyexpr(t[2])}, {q!r})'}[op]
    if op in ('ADD', 'SUB', 'MUL'):
        return f"({pyexpr(t[1])} {dict(ADD='+', SUB='-', MUL='*')[op]} {pyexpr(t[2])})"
    if op == 'Q0':
        return 'dimod.quicksum([])'
    if op == 'Q3':
        return 'dimod.quicksum([' + ', '.join(pyexpr(c) for c in t[1:]) + '])'
    if op == 'NEG':
        return f'(-{pyexpr(t[1])})'
    if op == 'Q1':
        return f'dimod.quicksum([{pyexpr(t[1])}])'
    return f"{op.lower()}({', '.join(pyexpr(c) for c in t[1:])})"


PRE = '''import dimod
import numpy as np
from fractions import Fraction as F
KEEP = []
def realarray(ls):
    a = np.empty(len(ls), dtype=object)
    for i, m in enumerate(dimod.Reals(ls)):
        a[i] = m
    return a
def iadd(a, b):
    a += b; return a
def isub(a, b):
    a -= b; return a
def imul(a, b):
    a *= b; return a
def idiv(a, q):
    a /= q; return a
def adds(a): return a + a
def subs(a): return a - a
def muls(a): return a * a
def iadds(a):
    a += a; return a
def isubs(a):
    a -= a; return a
def viewo(m):
    cqm = dimod.ConstrainedQuadraticModel(); KEEP.append(cqm); cqm.set_objective(m); return cqm.objective
def viewc(m):
    cqm = dimod.ConstrainedQuadraticModel(); KEEP.append(cqm); return cqm.constraints[cqm.add_constraint_from_model(m, '<=', 1)].lhs
def energy(o, x):
    if not hasattr(o, 'variables'): return F(o)
    return (F(float(o.offset)) + sum(F(float(o.get_linear(v))) * x[v] for v in o.variables)
            + sum(F(float(b)) * x[u] * x[v] for u, v, b in o.iter_quadratic()))
'''


def check_node(ctx, t, ev, site_of):
    """property predicate at one successfully evaluated node"""
    kind, o, osnap, co = ev.res[id(t)]
    info = co[0]
    lv = leaves(t, [])
    # typing of the labels by the leaves (consistent whenever evaluation succeeded without conflicts)
    ty = {}
    for _, k, l, _b, lb, ub, _dt in lv:
        if k in 'IR':
            lb = F(0) if lb is None else lb
            ub = (F(2 ** 53 - 1) if k == 'I' else F(1e30)) if ub is None else ub
        ty.setdefault(l, set()).add((k, lb, ub))
    # (a) energies at every small in-domain sample
    labels = sorted(ty, key=repr)
    doms = []
    for l in labels:
        k, lb, ub = sorted(ty[l], key=repr)[0]
        if l in info and len(ty[l]) != 1:       # leaves disagree: take what the result says
            k = info[l][0]
            lb, ub = info[l][1], info[l][2]
        doms.append(domain(k, lb, ub))
    n = 0
    for vals in itertools.product(*doms):
        x = dict(zip(labels, vals))
        want = tree_eval(t, x)
        got = model_energy(co, x)
        n += 1
        if got != want:
            xs = {l: (int(v) if v.denominator == 1 else float(v)) for l, v in x.items()}
            code = PRE + f'r = {pyexpr(t)}\nx = {xs!r}\nx = {{k: F(v) for k, v in x.items()}}\n' \
                         f'assert energy(r, x) == F({str(want)!r}), (energy(r, x), {str(want)!r})\n'
            ctx.fail('property', site_of(t), 'energy', f'result energy {got} != arithmetic on the operands {want} at {xs}',
                     repro=code, detail=dict(tree=line_of(t), result=osnap))
            return False
        if n >= 400:
            break
    # (b) a result never changes a variable's type or bounds: every leaf label present keeps its leaf's info
    for l, (k, lb, ub) in info.items():
        if l not in ty:
            ctx.fail('property', site_of(t), 'variables', f'result has a variable {l!r} that no operand has',
                     repro=PRE + f'r = {pyexpr(t)}\nassert {l!r} not in r.variables\n', detail=dict(tree=line_of(t)))
            return False
        if len(ty[l]) == 1:
            k0, lb0, ub0 = next(iter(ty[l]))
            if k0 in 'SB':
                lb0, ub0 = (F(-1), F(1)) if k0 == 'S' else (F(0), F(1))
            if (k, lb, ub) != (k0, lb0, ub0):
                ctx.fail('property', site_of(t), 'varinfo', f'variable {l!r} is ({k0},{lb0},{ub0}) in the operands but ({k},{lb},{ub}) in the result',
                         repro=PRE + f'r = {pyexpr(t)}\nassert (r.vartype({l!r}).name[0], r.lower_bound({l!r}), r.upper_bound({l!r})) == ({k0!r}, {float(lb0)!r}, {float(ub0)!r})\n',
                         detail=dict(tree=line_of(t), result=osnap))
                return False
    if is_model(o) or is_view(o):
        for l in ty:
            if l not in info:
                ctx.fail('property', site_of(t), 'variables', f'operand variable {l!r} is missing from the result',
                         repro=PRE + f'r = {pyexpr(t)}\nassert {l!r} in r.variables\n', detail=dict(tree=line_of(t), result=osnap))
                return False
    return True


READ = ('def read(o):\n'
        '    if hasattr(o, "variables"):\n'
        '        [(o.get_linear(v), o.vartype(v) if callable(o.vartype) else o.vartype, o.lower_bound(v), o.upper_bound(v)) for v in o.variables]\n'
        '        list(o.iter_quadratic()); o.offset\n')


def report_unreadable(ctx, u):
    """an operator left a model whose own readers raise (e.g. it lists a variable whose vartype/bias cannot be read): its
    energy cannot even be computed from what it reports"""
    node = u.node
    kids = [c for c in node[1:] if isinstance(c, tuple)] if node[0] not in 'VCE' else []
    names = [f'o{i}' for i in range(len(kids))]
    op = node[0]
    if not kids:
        call = pyexpr(node)
    elif op in ('ADD', 'SUB', 'MUL'):
        call = f"o0 {dict(ADD='+', SUB='-', MUL='*')[op]} o1"
    elif op in ('DIV', 'POW', 'IDIV'):
        q = int(node[1]) if F(node[1]).denominator == 1 else float(node[1])
        call = {'DIV': f'o0 / {q!r}', 'POW': f'o0 ** {q!r}', 'IDIV': f'idiv(o0, {q!r})'}[op]
    elif op == 'NEG':
        call = '-o0'
    elif op in ('Q1', 'Q3'):
        call = f"dimod.quicksum([{', '.join(names)}])"
    else:
        call = f"{op.lower()}({', '.join(names)})"
    binds = ''.join(f'{n} = {pyexpr(c)}\n' for n, c in zip(names, kids))
    ctx.fail('property', {'V': 'constructor', 'C': 'number', 'E': 'variable-free BQM'}.get(node[0], 'operator ' + node[0]), 'result unreadable',
             f'after evaluating {node[0]} the readers of the result or of an operand raise {u.exc!r}',
             repro=PRE + READ + binds + f'try:\n    r = {call}\nexcept (TypeError, ValueError, ZeroDivisionError):\n    r = None\n'
                   f"try:\n    [read(o) for o in [r, {', '.join(names)}]]\nexcept Exception as e:\n    raise AssertionError(repr(e))\n",
             detail=dict(tree=line_of(node)))


def compare_two(ctx, r, ev, t, ty, lines, expect, meta):
    """`a <= b`, `a >= b`, `a == b` with the evaluated root on one side and a second small evaluated tree on the other (either
    order, every class on both sides), then the constraint a fresh CQM stores for the Comparison.  Predicate, from the
    definition only: operands unchanged; when a Comparison comes out, its activity lhs(x) - rhs on the full grid of small
    samples is a(x) - b(x) with the written sense, or b(x) - a(x) with the flipped sense when the number was written on the
    left; it holds iff the written comparison holds; the stored constraint has the same activity, sense, rhs and variable
    types/bounds and the Comparison's model is unchanged by add_constraint.  Returns the number of property failures."""
    t2 = ('C', dy(r, True)) if r.random() < .45 else gen(r, r.choice([0, 1, 2]), ty, False)
    try:
        ev.ev(t2)
    except (Raised, SkipTree):
        return 0
    except Unreadable as u:
        report_unreadable(ctx, u)
        return 1
    a, b = (t, t2) if r.random() < .5 else (t2, t)
    oa, ob = (ev.res[id(n)][1] for n in (a, b))
    oa, ob = (float(o) if isinstance(o, np.floating) else o for o in (oa, ob))
    kind = r.choice(['LE', 'GE', 'EQ'])
    sym = {'LE': '<=', 'GE': '>=', 'EQ': '=='}[kind]
    csrc = f'({pyexpr(a)}) {sym} ({pyexpr(b)})'
    site = 'comparison ' + kind
    before = (snap(oa), snap(ob))
    try:
        res = {'LE': lambda: oa <= ob, 'GE': lambda: oa >= ob, 'EQ': lambda: oa == ob}[kind]()
    except TypeError:
        res = TypeError
    after = (snap(oa), snap(ob))
    is_cmp = isinstance(res, dimod.sym.Comparison)
    ctx.tick(f"path CMP2 {kind}: {kind_of(oa)} , {kind_of(ob)} -> {'raises type' if res is TypeError else 'Comparison' if is_cmp else 'bool'}")
    ln = f'CMP2 {kind} {line_of(a)} {line_of(b)}'
    lines.append(ln); meta.append((site, csrc))
    ctx.case(ln, nontrivial=True)
    if before != after:
        ctx.fail('property', site, 'operand modified', f'`{csrc}` changed an operand: {before} -> {after}',
                 repro=PRE + f'# an operand of the comparison is modified by evaluating\nc = {csrc}\nassert False\n', detail=dict(line=ln))
        expect.append('MODIFIED')
        return 1
    if res is TypeError:
        expect.append('err type')
        return 0
    if not is_cmp:
        expect.append('ok bool')
        return 0
    sense = {'Le': 'le', 'Ge': 'ge', 'Eq': 'eq'}[type(res).__name__]
    expect.append(f'ok cmp {sense} {rat(res.rhs)} ' + snap(res.lhs))
    num_left = not (is_model(oa) or is_view(oa))
    want_sense = {'LE': 'le', 'GE': 'ge', 'EQ': 'eq'}[kind]
    if num_left:
        want_sense = {'le': 'ge', 'ge': 'le', 'eq': 'eq'}[want_sense]
    rco = coeffs(res.lhs)
    labels = sorted(rco[0], key=repr)
    doms = [domain(*rco[0][l]) for l in labels]
    zero = {lf[2]: F(0) for lf in leaves(a, []) + leaves(b, [])}
    grid = list(itertools.islice(itertools.product(*doms), 250))
    rhs = F(float(res.rhs))

    def wanted(x):
        ea, eb = tree_eval(a, {**zero, **x}), tree_eval(b, {**zero, **x})
        return (eb - ea if num_left else ea - eb), {'LE': ea <= eb, 'GE': ea >= eb, 'EQ': ea == eb}[kind]

    def xs_of(x):
        return {l: (int(v) if v.denominator == 1 else float(v)) for l, v in x.items()}

    for vals in grid:
        x = dict(zip(labels, vals))
        act = model_energy(rco, x) - rhs
        want, written = wanted(x)
        held = {'le': act <= 0, 'ge': act >= 0, 'eq': act == 0}[sense]
        if act != want or sense != want_sense or held != written:
            ctx.fail('property', site, 'activity' if act != want else 'sense',
                     f'`{csrc}` gives {type(res).__name__} with lhs-rhs = {act} at {xs_of(x)}; the operands give {want} '
                     f'(sense {want_sense}) and the written comparison is {written}',
                     repro=PRE + f'c = {csrc}\nx = {xs_of(x)!r}\nx = {{k: F(v) for k, v in x.items()}}\n'
                                 f"a = energy(c.lhs, x) - F(c.rhs)\nassert a == F({str(want)!r}) and c.sense.value == {dict(le='<=', ge='>=', eq='==')[want_sense]!r}, (c, a)\n",
                     detail=dict(line=ln))
            return 1
    # the constraint a CQM stores for the comparison
    if res.lhs.dtype == object:
        ctx.tick('CON skipped: object dtype')
        return 0
    cqm = dimod.ConstrainedQuadraticModel()
    b4 = snap(res.lhs)
    try:
        lbl = cqm.add_constraint(res)
    except (TypeError, ValueError) as e:
        ctx.fail('property', 'CQM.add_constraint(comparison)', 'rejected', f'`{csrc}` is refused by add_constraint: {e!r}',
                 repro=PRE + f'dimod.ConstrainedQuadraticModel().add_constraint({csrc})\n', detail=dict(line=ln))
        return 1
    c = cqm.constraints[lbl]
    ev.keep.append(cqm)
    cco = coeffs(c.lhs)
    csense = {'<=': 'le', '>=': 'ge', '==': 'eq'}[c.sense.value]
    ctx.tick(f'path CON {csense}: {kind_of(res.lhs)} -> constraint')
    ln2 = f'CON {kind} {line_of(a)} {line_of(b)}'
    lines.append(ln2); meta.append(('CQM.add_constraint(comparison)', csrc))
    expect.append(f'ok con {csense} {rat(c.rhs)} qm ' + snap(c.lhs)[len('view '):])
    ctx.case(ln2, nontrivial=True)
    crepro = PRE + f'm = {pyexpr(a if not num_left else b)}\nq = {(ob if not num_left else oa)!r}\n' \
                   f"cmp = {'m ' + sym + ' q' if not num_left else 'q ' + sym + ' m'}\ncqm = dimod.ConstrainedQuadraticModel()\n" \
                   'c = cqm.constraints[cqm.add_constraint(cmp)]\n'
    if snap(res.lhs) != b4 or c.lhs is res.lhs:
        ctx.fail('property', 'CQM.add_constraint(comparison)', 'operand modified',
                 f'add_constraint(`{csrc}`) changed the comparison\'s model: {b4} -> {snap(res.lhs)}',
                 repro=crepro + 'before = (m.linear, m.quadratic, m.offset) if False else None\nassert False\n', detail=dict(line=ln2))
        return 1
    if csense != sense or F(float(c.rhs)) != rhs or cco[0] != rco[0]:
        ctx.fail('property', 'CQM.add_constraint(comparison)', 'sense/rhs/varinfo',
                 f'add_constraint(`{csrc}`) stores sense {csense} rhs {c.rhs} vars {cco[0]}; the comparison has {sense} {res.rhs} {rco[0]}',
                 repro=crepro + f'assert c.sense.value == cmp.sense.value and c.rhs == cmp.rhs\n'
                                'assert all(c.lhs.vartype(v) is (m.vartype(v) if callable(m.vartype) else m.vartype) for v in m.variables)\n'
                                'assert all(c.lhs.lower_bound(v) == m.lower_bound(v) and c.lhs.upper_bound(v) == m.upper_bound(v) for v in m.variables if callable(m.vartype))\n',
                 detail=dict(line=ln2))
        return 1
    for vals in grid:
        x = dict(zip(labels, vals))
        act = model_energy(cco, x) - F(float(c.rhs))
        want, _w = wanted(x)
        if act != want:
            ctx.fail('property', 'CQM.add_constraint(comparison)', 'activity',
                     f'the constraint stored for `{csrc}` has lhs-rhs = {act} at {xs_of(x)}; the operands give {want}',
                     repro=crepro + f'x = {xs_of(x)!r}\nx = {{k: F(v) for k, v in x.items()}}\n'
                                    f'assert energy(c.lhs, x) - F(c.rhs) == F({str(want)!r}), energy(c.lhs, x) - F(c.rhs)\n',
                     detail=dict(line=ln2))
            return 1
    return 0


def conflict_labels(ev, t):
    """labels that two model operands of a binary node disagree on (vartype, or bounds of INTEGER/REAL)"""
    ops = [c for c in t[1:] if isinstance(c, tuple) and ev.res.get(id(c), ('err',))[0] == 'ok']
    infos = [ev.res[id(c)][3][0] for c in ops]
    bad = []
    for i in range(len(infos)):
        for j in range(i + 1, len(infos)):
            for l in infos[i]:
                if l in infos[j] and infos[i][l] != infos[j][l]:
                    bad.append(l)
    return bad


def run(ctx):
    r = ctx.rng
    ntrees = ctx.scale(8000, 120000)
    ctx.rule = ('random expression trees (depth <= 5, six shared labels incl. ints and a tuple, each tree with its own '
                'label typing; 20% of the trees contain leaves contradicting it) built with the real operators; a case = one '
                'sub-tree; non-trivial = it has at least one operator; distinct by the tree text')
    lines, expect, meta = [], [], []
    nprop = 0
    extra = []
    for _ in range(ctx.scale(2, 12)):
        extra.extend((t_, ty_, None) for t_, ty_ in dispatch_trees(r))
    aty = {l: ('B', None, None) for l in LABELS}
    aty['__mixed__'] = False
    for _ in range(ctx.scale(600, 6000)):
        t_, sp_ = array_tree(r)
        extra.append((t_, aty, sp_))
    for ti in range(len(extra) + ntrees):
        cut = False
        special = None
        if ti < len(extra):
            t, ty, special = extra[ti]
            mixed = False
            ctx.tick('tree: systematic dispatch sweep' if special is None else 'tree: array form')
        else:
            mixed = r.random() < .25
            ty = gen_typing(r, mixed)
            ty['__mixed__'] = mixed
            conflict = r.random() < .2
            t = gen(r, r.choice([1, 2, 3, 3, 4, 4, 5]), ty, conflict)
        dtypes = {}
        src = pyexpr(t)
        ev = Evaluator(ctx, r, dtypes, src)
        if special:
            ev.special = special
        try:
            ev.ev(t)
        except Raised:
            pass
        except SkipTree:
            ctx.tick('skipped: view of an object-dtype model')
            continue
        except Unreadable as u:
            report_unreadable(ctx, u)
            nprop += 1
            if nprop >= 8:
                break
            continue

        def site_of(node):
            return {'V': 'constructor', 'C': 'number', 'E': 'variable-free BQM'}.get(node[0], 'operator ' + node[0])

        if ev.opfail is not None:
            node, i, b, a = ev.opfail
            ctx.fail('property', site_of(node), 'operand modified' if i >= 0 else 'result aliases operand',
                     f'operand {i} of {node[0]} changed: {b} -> {a}' if i >= 0 else f'{a}',
                     repro=PRE + f'# operand {i} of the outermost {node[0]} is modified by evaluating\nr = {pyexpr(node)}\nassert False\n',
                     detail=dict(tree=line_of(node)))
            nprop += 1
        for node in subtrees(t, []):
            if id(node) not in ev.res:
                continue           # never evaluated: an earlier sibling raised
            kind, o = ev.res[id(node)][:2]
            ln = line_of(node)
            lines.append(ln)
            expect.append('ok ' + ev.res[id(node)][2] if kind == 'ok' else 'err ' + o)
            meta.append((site_of(node), pyexpr(node)))
            ctx.tick(node[0] + ('' if kind == 'ok' else ':' + o))
            ctx.case(ln, nontrivial=node[0] not in 'VCE', sample=dict(expr=pyexpr(node)) if node is t and 2 < len(ln) < 400 else None)
            if kind == 'ok':
                if mixed and (is_model(o) or is_view(o)):
                    co = ev.res[id(node)][3]
                    vals = list(co[1].values()) + [b for _, _, b in co[2]] + [co[3]]
                    if any(F(float(np.float32(float(v)))) != v for v in vals):
                        ctx.tick('cut_for_precision')
                        lines.pop(); expect.pop(); meta.pop()
                        cut = True
                        break
                if not check_node(ctx, node, ev, site_of):
                    nprop += 1
                    cut = True
                    break
            # conflicting operands must be rejected
            if node[0] in BIN2 + ('Q3',) and kind == 'ok':
                bad = conflict_labels(ev, node)
                if bad:
                    ctx.fail('property', site_of(node), 'conflict accepted',
                             f'operands disagree on the type/bounds of {bad[0]!r} but the operator returned a model',
                             repro=PRE + f'try:\n    r = {pyexpr(node)}\nexcept (ValueError, TypeError):\n    pass\nelse:\n    assert False, "conflict accepted"\n',
                             detail=dict(tree=ln))
                    nprop += 1
            if node[0] in BIN2 + ('Q3',) and kind == 'err' and conflict_labels(ev, node):
                ctx.tick('conflict_rejected')
        # products of two models: shared labels, and shared labels whose coefficient in the right operand is not that operand's last
        for node in subtrees(t, []):
            if node[0] in ('MUL', 'IMUL') and all(ev.res.get(id(c), ('err',))[0] == 'ok' for c in node[1:]):
                la, lb_ = (ev.res[id(c)][3][1] for c in node[1:])
                shared = [v for v in la if v in lb_]
                if shared:
                    ctx.tick('mul: operands share a label')
                    if lb_ and any(lb_[v] != list(lb_.values())[-1] for v in shared):
                        ctx.tick('mul: shared label, coefficient != last coefficient of the right operand')
                    ia, ib = (ev.res[id(c)][3][0] for c in node[1:])
                    okn = ev.res.get(id(node), ('err', '?'))
                    for v in shared:
                        if ia[v] == ib[v]:
                            how = {'B': 'BINARY -> linear bias', 'S': 'SPIN -> offset', 'I': 'INTEGER -> self-loop', 'R': 'REAL -> rejected'}[ia[v][0]]
                            ctx.tick(f'mul: repeated label, {how}' + ('' if okn[0] == 'ok' else f' (raises {okn[1]})'))
                    if any(ia[v][0] != ib[v][0] and ia[v][1:] == ib[v][1:] for v in shared):
                        ctx.tick('mul: shared label, different vartype over identical bounds')
        # a comparison with a number at the root (dimod.sym): Le / Ge / Eq objects
        if ev.res.get(id(t), ('err',))[0] == 'ok' and r.random() < .35:
            obj, osnap, co = ev.res[id(t)][1:4]
            kind = r.choice(['LE', 'GE', 'EQ', 'RLE', 'RGE', 'REQ'])
            q = dy(r, True)
            qq = int(q) if q.denominator == 1 and r.random() < .6 else float(q)
            ops = {'LE': lambda: obj <= qq, 'GE': lambda: obj >= qq, 'EQ': lambda: obj == qq,
                   'RLE': lambda: qq <= obj, 'RGE': lambda: qq >= obj, 'REQ': lambda: qq == obj}
            sym = {'LE': '{e} <= {q}', 'GE': '{e} >= {q}', 'EQ': '{e} == {q}', 'RLE': '{q} <= {e}', 'RGE': '{q} >= {e}', 'REQ': '{q} == {e}'}[kind]
            csrc = sym.format(e=pyexpr(t), q=repr(qq))
            if isinstance(obj, np.floating):
                obj = float(obj)
            try:
                res = ops[kind]()
            except TypeError:
                res = TypeError
            ln = f'CMP {kind} {rat(q)} {line_of(t)}'
            lines.append(ln); meta.append(('comparison ' + kind, csrc))
            ctx.tick('CMP ' + kind + (':type' if res is TypeError else ''))
            ctx.case(ln, nontrivial=True)
            if res is TypeError:
                expect.append('err type')
            elif isinstance(res, dimod.sym.Comparison):
                sense = {'Le': 'le', 'Ge': 'ge', 'Eq': 'eq'}[type(res).__name__]
                expect.append(f'ok cmp {sense} {rat(res.rhs)} ' + snap(res.lhs))
                # predicate: activity and truth value against the arithmetic of the written comparison
                rco = coeffs(res.lhs)
                labels = sorted(rco[0], key=repr)
                doms = [domain(*rco[0][l]) for l in labels]
                for n_s, vals in enumerate(itertools.product(*doms)):
                    if n_s >= 60:
                        break
                    x = dict(zip(labels, vals))
                    a = model_energy(rco, x)
                    e = tree_eval(t, {**{lf[2]: F(0) for lf in leaves(t, [])}, **x})
                    written = {'LE': e <= q, 'GE': e >= q, 'EQ': e == q, 'RLE': q <= e, 'RGE': q >= e, 'REQ': q == e}[kind]
                    held = {'le': a <= F(res.rhs), 'ge': a >= F(res.rhs), 'eq': a == F(res.rhs)}[sense]
                    if a - F(res.rhs) != e - q or written != held:
                        xs = {l: (int(v) if v.denominator == 1 else float(v)) for l, v in x.items()}
                        ctx.fail('property', 'comparison ' + kind, 'activity' if a - F(res.rhs) != e - q else 'sense',
                                 f'`{csrc}` gives {type(res).__name__} with lhs-rhs = {a - F(res.rhs)} at {xs}; the operands give {e - q} and the written comparison is {written}',
                                 repro=PRE + f'c = {csrc}\nx = {xs!r}\nx = {{k: F(v) for k, v in x.items()}}\n'
                                             f"a = energy(c.lhs, x) - F(c.rhs)\nassert a == F({str(e - q)!r}) and {{'<=': a <= 0, '>=': a >= 0, '==': a == 0}}[c.sense.value] == {written}, (c, a)\n")
                        nprop += 1
                        break
            else:
                expect.append('ok bool')
        if ev.res.get(id(t), ('err',))[0] == 'ok' and not cut and special is None and r.random() < (.5 if ti < len(extra) else .3):
            nprop += compare_two(ctx, r, ev, t, ty, lines, expect, meta)
        if nprop >= 8:
            break
    if nprop < 8:
        # round 8: CQM expression views with histories, sum / quicksum with start values (harness/props/c06_views.py)
        import sys
        from harness.props import c06_views
        nprop += c06_views.run_views(ctx, sys.modules[__name__], lines, expect, meta)
    got = run_driver('symdriver', lines)
    ctx.corr_lines += len(lines)
    for i, ln in enumerate(lines):
        g = got[i] if i < len(got) else 'MISSING'
        if g != expect[i]:
            ctx.fail('correspondence', meta[i][0], 'model vs implementation', f'`{ln}`: impl `{expect[i]}` model `{g}`',
                     detail=dict(expr=meta[i][1]))
            if sum(1 for f in ctx.failures if f['kind'] == 'correspondence') >= 5:
                break
