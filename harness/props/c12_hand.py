"""C12, reader side: hand-style LP texts (not what `lp.dumps` produces) and near misses of them.

An abstract model is generated first (variables with kinds and bound declarations, objective, constraints) and then
rendered in a random hand style: keyword aliases in any case, optional objective / constraint labels, omitted `+` and
omitted coefficient 1, glued `2x`, double signs, constants inside expressions, several `[ … ]` groups with `x ^ 2` and
`x * y`, repeated variables, maximisation, every bound form (`free`, `-inf <= x`, `x >= l`, `l <= x <= u`, `x = v`,
later lines overriding earlier ones), sections in any order, repeated General/Binary keywords, comments, tabs, CRLF.
`expected()` replays the generation data in plain Python (exact Fractions of the doubles the literals denote) without
looking at the text: the reference the real parser is compared with.  The same text goes to the Lean model of the C++
reader (`lpread`).  Near misses (one word deleted / doubled / swapped / replaced by a nasty word) are only compared
between the real parser and the model: both refuse, or both read the same model."""
import json
import os
import subprocess
import sys
from fractions import Fraction as F

INTMAX, REALMAX = F(2 ** 53 - 1), F(1e30)
KW = {'min': ['minimize', 'min', 'minimum'], 'max': ['maximize', 'max', 'maximum'], 'st': ['subject to', 'such that', 'st', 's.t.'],
      'bounds': ['bounds', 'bound'], 'bin': ['binary', 'binaries', 'bin'], 'gen': ['general', 'generals', 'gen', 'integer', 'integers'],
      'end': ['end']}
ALLKW = {w for ws in KW.values() for w in ws} | {'semi', 'semis', 'sos', 'free', 'inf', 'infinity', 'subject', 'such'}
NUMS_DY = ['1', '2', '3', '0.5', '2.25', '7', '12', '0.125', '1.5', '10', '4.0', '3.', '.5', '.25', '1e1', '2E0', '5e-1', '1.25e2', '16', '100', '0']
NUMS_ANY = NUMS_DY + ['0.1', '0.3', '1e-7', '3.3e22', '2.675', '1e23', '0.30000000000000004', '9007199254740993', '123456789.123456789',
                      '1e+2', '5e-5', '12345.6789', '1e15', '1e16', '0.0001', '0.00001', '6.02E23']
# the extremes of binary64 (subnormals, the largest finite value): only where no arithmetic follows (right-hand sides)
NUMS_RHS = NUMS_ANY + ['4.9e-324', '2.5e-324', '2.4e-324', '1.7976931348623157e308', '1.7976931348623158e308', '2.2250738585072011e-308']
NASTY = ['<', '>', '=<', '=>', '- [', '+ [', ']', '[', 'inf', '-inf', 'free', 'nanx', 'nan', '0x1A', '0x', '0xg', '^ 3', '^ 2', '/ 3', '/ 2', ':', '::', 's1 ::', 'S3 ::', 'semi',
         'semis', 'semi-continuous', 'sos', 'end', 'st', '2e', '1e400', '-1e400', '1e-400', '.', '..5', '5.', '1.e2', 'subject', 'to', 'such', 'that', 'Subject To', 'e5', '3e5x',
         'infinityy', 'infinit', 'Infinity', '/*', '*/', '/* zz */', '\\', ';', '+', '-', '+ -', '- - -', '*', '= =', '<= >=', 'x:', 'q q', '1 2', '0 x', 'bin', 'general',
         'maximize', 'min', 'bounds', 'x ^ 2', '[ x * x ]', '[ x ^ 2 ] / 2', '1e5e5', '00012', '1_000', '1,5', '--3', '2 <= 1', 'zz free', 'zz <= 1', '0 <= zz <= 1']


def cased(r, w):
    m = r.random()
    return w if m < .3 else w.upper() if m < .5 else w.capitalize() if m < .8 else ''.join(c.upper() if r.random() < .5 else c for c in w)


def val(t):
    return F(float(t.replace(' ', '')))


class Hand:
    def __init__(self, r):
        self.r = r
        nv = r.randint(1, 5)
        names = []
        while len(names) < nv:
            n = r.choice('abcdfghjklmopqrstuvwyzABCDXYZ_') + ''.join(r.choice('abcxyz0123456789_.#$') for _ in range(r.choice([0, 0, 1, 2, 4])))
            if names and r.random() < .4:           # prefix families: x1 / x10 / x11, cap / cap_max
                base = r.choice(names)
                n = base + r.choice('0123456789_abc') if r.random() < .6 or len(base) < 2 else base[:r.randint(1, len(base) - 1)]
            if n.lower() in ALLKW or n.lower().startswith(('inf', 'nan')) or n in names or n[0] in 'eEiInNxX.0123456789':
                continue
            names.append(n)
        self.names = names
        self.kind = {n: r.choice('BBIIR') for n in names}
        # bound declarations: list of (form, name, numbers as text)
        self.bdecl = []
        for n in names:
            for _ in range(r.choice([0, 1, 1, 2])):
                if self.kind[n] == 'B':
                    self.bdecl.append(r.choice([('two', n, '0', '1'), ('ub', n, '1')]))
                    continue
                lo = r.choice(['-5', '-2.5', '0', '1', '-1e3', '-0.1', '2', '-inf', '-infinity', '-Inf', '-1e31', '-1e400'])
                hi = r.choice(['5', '7.5', '1e3', '100', '12.7', '+inf', 'inf', 'Infinity', '+INFINITY', '1e31', '1e400', '9007199254740993'])
                self.bdecl.append(r.choice([('two', n, lo, hi), ('lb', n, lo), ('lb2', n, lo), ('ub', n, hi), ('ub2', n, hi), ('free', n),
                                            ('eq', n, r.choice(['3', '0', '-2', '1.5']))]))
        r.shuffle(self.bdecl)
        self.maximize = r.random() < .4
        self.has_obj = r.random() < .9
        self.obj = self.gen_expr(True) if self.has_obj else None
        self.cons = []
        for _ in range(r.choice([0, 1, 1, 2, 3])):
            label = None
            if r.random() < .7:
                label = r.choice('cdrRC') + ''.join(r.choice('abc0123456789_') for _ in range(r.choice([0, 1, 2, 5])))
                if label.lower() in ALLKW or label in [c[0] for c in self.cons] or label in names:
                    label = None
            self.cons.append((label, self.gen_expr(False), r.choice(['<=', '>=', '=']), r.choice(['', '', '-', '+', '- ']) + r.choice(NUMS_RHS), False))
        # sections of names: some variables are declared more than once / in both sections (Binary wins: processed last)
        self.binnames = [n for n in names if self.kind[n] == 'B']
        self.gennames = [n for n in names if self.kind[n] == 'I'] + [n for n in self.binnames if r.random() < .15]
        r.shuffle(self.binnames); r.shuffle(self.gennames)

    def gen_expr(self, isobj):
        """list of items: ('lin', sign, coeftext|None, var) | ('const', sign, text) | ('quad', [(sign, coeftext|None, u, v|None)])"""
        r = self.r
        repeats = r.random() < .4
        nums = NUMS_DY if repeats else NUMS_ANY
        items, used = [], set()
        pool = list(self.names)
        for _ in range(r.randint(0 if isobj else 1, 5)):
            m = r.random()
            if m < .6:
                v = r.choice(pool)
                if (v,) in used and not repeats:
                    continue
                used.add((v,))
                items.append(('lin', r.choice('+-'), r.choice(nums) if r.random() < .7 else None, v))
            elif m < .75:
                items.append(('const', r.choice('+-'), r.choice(NUMS_DY)))
            else:
                nonreal = [v for v in self.names if self.kind[v] != 'R']
                if not nonreal:
                    continue
                terms = []
                for _ in range(r.randint(1, 3)):
                    u = r.choice(nonreal)
                    sq = r.random() < .3
                    w = None if sq else r.choice(nonreal)
                    if sq and self.kind[u] == 'B':
                        w = u                       # written x * x
                    key = tuple(sorted((u, w or u)))
                    if key[0] == key[1] and self.kind[u] == 'B':
                        key = (u,)                  # folded into the linear bias by the CQM
                    if key in used and not repeats:
                        continue
                    used.add(key)
                    terms.append((r.choice('+-'), r.choice(nums) if r.random() < .7 else None, u, w))
                if terms:
                    items.append(('quad', terms))
        return items

    # ------------------------------------------------------------------ reference reading
    def expected(self):
        order = []

        def touch(v):
            if v not in order:
                order.append(v)

        def read(items, isobj):
            d = {}
            for it in items:
                if it[0] == 'lin':
                    _, s, c, v = it
                    touch(v)
                    d[(v,)] = d.get((v,), 0) + (1 if s == '+' else -1) * (val(c) if c else 1)
                elif it[0] == 'const':
                    d[()] = d.get((), 0) + (1 if it[1] == '+' else -1) * val(it[2])
                else:
                    for s, c, u, w in it[1]:
                        touch(u); touch(w or u)
                        k = tuple(sorted((u, w or u)))
                        d[k] = d.get(k, 0) + (1 if s == '+' else -1) * (val(c) if c else 1) * (F(1, 2) if isobj else 1)
            return d
        def fold(d):
            # the square of a BINARY variable is the variable
            out = {}
            for k, b in d.items():
                if len(k) == 2 and k[0] == k[1] and k[0] in self.binnames:
                    k = (k[0],)
                out[k] = out.get(k, 0) + b
            return out
        _read = read
        read = lambda items, isobj: fold(_read(items, isobj))  # noqa: E731
        obj = read(self.obj, True) if self.has_obj else {}
        if self.maximize and self.has_obj:
            obj = {k: -b for k, b in obj.items()}
        cons = []
        for i, (label, e, sense, rhs, _) in enumerate(self.cons):
            lhs = read(e, False)
            cons.append((label if label is not None else i, {'<=': 'le', '>=': 'ge', '=': 'eq'}[sense], val(rhs), {k: b for k, b in lhs.items() if b}))
        lb, ub = {}, {}
        inf = float('inf')

        def num(t):
            x = float(t)
            return x if x in (inf, -inf) else F(x)
        for d in self.bdecl:
            form, n = d[0], d[1]
            touch(n)
            if form == 'two':
                lb[n], ub[n] = num(d[2]), num(d[3])
            elif form in ('lb', 'lb2'):
                lb[n] = num(d[2])
            elif form in ('ub', 'ub2'):
                ub[n] = num(d[2])
            elif form == 'free':
                lb[n], ub[n] = -inf, inf
            else:
                lb[n] = ub[n] = num(d[2])
        for n in self.gennames:
            touch(n)
        for n in self.binnames:
            touch(n)
        vs = []
        for n in order:
            k = 'B' if n in self.binnames else 'I' if n in self.gennames else 'R'
            lo, hi = lb.get(n, F(0)), ub.get(n, inf)
            if k == 'B':
                vs.append((n, 'B', F(0), F(1)))
                continue
            mx = INTMAX if k == 'I' else REALMAX
            lo = -mx if lo < -mx else mx if lo > mx else lo
            hi = -mx if hi < -mx else mx if hi > mx else hi
            vs.append((n, k, F(lo), F(hi)))
        return vs, {k: b for k, b in obj.items() if b}, cons

    def bounds_consistent(self):
        """no declaration sequence that makes a lower bound exceed the upper bound (a debug assertion of the C++ CQM)"""
        vs, _, _ = self.expected()
        return all(lo <= hi for _, _, lo, hi in vs)

    # ------------------------------------------------------------------ rendering
    def render(self):
        r = self.r
        sep = lambda: r.choice([' ', ' ', ' ', '  ', '\t', '\n ', '\n\t', ' \\ a comment + 3 x\n '])  # noqa: E731

        def glue_ok(v):
            return v[0] not in 'eExXiInN'

        def term(first, s, c, body, bare):
            out = ''
            if not (first and s == '+' and r.random() < .6):
                out += s if r.random() < .8 else {'+': r.choice(['+ +', '- -']), '-': r.choice(['+ -', '- +'])}[s]
                out += r.choice([' ', ' ', ''])
            if c is not None:
                out += c + (' ' if not (bare and r.random() < .2 and c[-1].isdigit() and 'e' not in c.lower()) else '')
            return out + body

        def expr(items, isobj, force_plus=False):
            # `force_plus`: `number [` is illegal, so a group that follows the previous constraint's right-hand side needs its sign
            # constants are written last or before a signed term: `3\n x` would read as `3 x`
            out, first = [], True
            for it in items:
                if it[0] == 'lin':
                    _, s, c, v = it
                    out.append(term(first, s, c, v, glue_ok(v)))
                elif it[0] == 'const':
                    out.append(term(first, it[1], it[2], '', False).rstrip() + ' ')
                    if first:
                        out[-1] = it[1] + ' ' + it[2] + ' '
                else:
                    ts, f2 = [], True
                    for s, c, u, w in it[1]:
                        body = (u + r.choice([' ^ 2', '^2', ' ^2 '])) if w is None else (u + r.choice([' * ', '*', ' *']) + w)
                        ts.append(term(f2, s, c, body, glue_ok(u)))
                        f2 = False
                    out.append(('' if first and not force_plus and r.random() < .5 else r.choice(['+ ', '+', '+ + ', '- - '])) + '[' + sep() + sep().join(ts) + sep() + ']' + (r.choice([' / 2', '/2', ' /2.0', '/ 2e0']) if isobj else ''))
                first = False
            # a term that starts without a sign directly after a constant would be read as its coefficient
            fixed = []
            for i, t in enumerate(out):
                if i and items[i - 1][0] == 'const' and t[0] not in '+-':
                    t = '+ ' + t
                fixed.append(t)
            return sep().join(fixed)
        parts = []
        if self.has_obj:
            parts.append(cased(r, r.choice(KW['max' if self.maximize else 'min'])) + '\n' + r.choice([' obj: ', ' ', ' cost: ', '\t']) + expr(self.obj, True))
        clines = []
        for label, e, sense, rhs, neg in self.cons:
            clines.append(' ' + (label + r.choice([': ', ':', ' : ']) if label is not None else '') + expr(e, False, force_plus=label is None) + r.choice([' ', '']) + sense + r.choice([' ', '']) + rhs)
        parts.append(cased(r, r.choice(KW['st'])) + '\n' + '\n'.join(clines))
        secs = []
        if self.bdecl or r.random() < .3:
            bl = []
            for d in self.bdecl:
                form, n = d[0], d[1]
                bl.append(' ' + {'two': lambda: f'{d[2]} <= {n} <= {d[3]}', 'lb': lambda: f'{n} >= {d[2]}', 'lb2': lambda: f'{d[2]} <= {n}',
                                 'ub': lambda: f'{n} <= {d[2]}', 'ub2': lambda: f'{d[2]} >= {n}', 'free': lambda: f'{n} {cased(r, "free")}',
                                 'eq': lambda: r.choice([f'{n} = {d[2]}', f'{d[2]} = {n}'])}[form]())
            secs.append(cased(r, r.choice(KW['bounds'])) + '\n' + '\n'.join(bl))
        if self.binnames or r.random() < .3:
            secs.append(self.names_section('bin', self.binnames))
        if self.gennames or r.random() < .3:
            secs.append(self.names_section('gen', self.gennames))
        # Bounds must come before the name sections in the reference replay only for the variable ORDER; the reader processes
        # sections by kind, not by position, so any textual order is allowed
        r.shuffle(secs)
        parts += secs
        parts.append(cased(r, 'end'))
        text = '\n'.join(parts) + r.choice(['', '\n', '\n\n'])
        if r.random() < .1:
            text = text.replace('\n', '\r\n')
        if r.random() < .2:
            text = '\\ problem written by hand\n' + text
        return text

    def names_section(self, k, ns):
        r = self.r
        out = cased(r, r.choice(KW[k])) + '\n'
        for i, n in enumerate(ns):
            out += ' ' + n + r.choice([' ', '\n', '\t'])
            if i + 1 < len(ns) and r.random() < .15:
                out += cased(r, r.choice(KW[k])) + '\n'           # the keyword of the same kind may be repeated
        return out.rstrip('\n')


def mutate(r, text):
    import re
    words = [(m.start(), m.end()) for m in re.finditer(r'\S+', text)]
    if not words:
        return text + r.choice(NASTY), 'append'
    kind = r.choice(['delete', 'double', 'swap', 'replace', 'replace', 'insert', 'insert', 'truncate', 'glue'])
    i = r.randrange(len(words))
    a, b = words[i]
    if kind == 'delete':
        return text[:a] + text[b:], kind
    if kind == 'double':
        return text[:b] + ' ' + text[a:b] + text[b:], kind
    if kind == 'swap' and i + 1 < len(words):
        c, d = words[i + 1]
        return text[:a] + text[c:d] + text[b:c] + text[a:b] + text[d:], kind
    if kind == 'replace':
        return text[:a] + r.choice(NASTY) + text[b:], kind
    if kind == 'truncate':
        return text[:a], kind
    if kind == 'glue' and i + 1 < len(words):
        c, d = words[i + 1]
        return text[:b] + text[c:], kind
    return text[:a] + r.choice(NASTY) + ' ' + text[a:], 'insert'


# ---------------------------------------------------------------------- the real parser in a child process
CHILD = r'''
import sys, json
from fractions import Fraction as F
from dimod import lp
def fr(x): return F(float(x))
def ex(e):
    d = {}
    for v, b in e.iter_linear(): d[(v,)] = d.get((v,), 0) + fr(b)
    for u, v, b in e.iter_quadratic():
        k = tuple(sorted((u, v), key=str)); d[k] = d.get(k, 0) + fr(b)
    d[()] = d.get((), 0) + fr(e.offset)
    return [[list(k), str(b)] for k, b in d.items() if b]
for line in sys.stdin:
    text = bytes.fromhex(line.strip()).decode()
    try:
        c = lp.loads(text)
        vs = [[v, c.vartype(v).name[0], str(fr(c.lower_bound(v))), str(fr(c.upper_bound(v)))] for v in c.variables]
        cons = [[l, {'<=': 'le', '>=': 'ge', '==': 'eq'}[k.sense.value], str(fr(k.rhs)), ex(k.lhs)] for l, k in c.constraints.items()]
        out = ['ok', vs, ex(c.objective), cons]
    except (OverflowError,) as e:
        out = ['nonfinite']
    except ValueError as e:
        out = ['nonfinite'] if 'NaN' in str(e) or 'nan' in str(e) else ['exc', type(e).__name__]
    except Exception as e:
        out = ['exc', type(e).__name__]
    print('@@' + json.dumps(out), flush=True)
'''


def real_batch(texts):
    """`lp.loads` on every text in child interpreters: ('ok', canon) | ('exc', name) | ('nonfinite',) | ('abort',)"""
    res, i = [], 0
    while i < len(texts):
        p = subprocess.run([sys.executable, '-c', CHILD], input='\n'.join(t.encode().hex() for t in texts[i:]) + '\n',
                           capture_output=True, text=True, env=dict(os.environ))
        got = [ln[ln.index('@@') + 2:] for ln in p.stdout.splitlines() if '@@' in ln]
        for ln in got:
            o = json.loads(ln)
            if o[0] == 'ok':
                dec = lambda e: {tuple(k): F(b) for k, b in e}  # noqa: E731
                res.append(('ok', ([(v, k, F(lo), F(hi)) for v, k, lo, hi in o[1]], dec(o[2]), [(l, s, F(rhs), dec(e)) for l, s, rhs, e in o[3]])))
            else:
                res.append(tuple(o))
        i += len(got)
        if i < len(texts) and p.returncode != 0:
            res.append(('abort',))
            i += 1
        elif i < len(texts) and not got:
            raise RuntimeError('lp child produced nothing: ' + p.stderr[-300:])
    return res


class RealLoader:
    """`lp.loads` one text at a time in a long-lived child interpreter, restarted when it dies: an `assert` of the C++
    code (interpreter abort) is an observed outcome ('abort',), not the end of the check"""

    def __init__(self):
        self.p = None

    def _start(self):
        self.p = subprocess.Popen([sys.executable, '-c', CHILD], stdin=subprocess.PIPE, stdout=subprocess.PIPE, text=True, bufsize=1, env=dict(os.environ))

    def loads(self, text):
        if self.p is None or self.p.poll() is not None:
            self._start()
        try:
            self.p.stdin.write(text.encode().hex() + '\n')
            self.p.stdin.flush()
        except BrokenPipeError:
            self.p = None
            return ('abort',)
        while True:
            ln = self.p.stdout.readline()
            if not ln:
                self.p.wait()
                self.p = None
                return ('abort',)
            if '@@' in ln:
                o = json.loads(ln[ln.index('@@') + 2:])
                if o[0] == 'ok':
                    dec = lambda e: {tuple(k): F(b) for k, b in e}  # noqa: E731
                    return ('ok', ([(v, k, F(lo), F(hi)) for v, k, lo, hi in o[1]], dec(o[2]), [(l, s_, F(rhs), dec(e)) for l, s_, rhs, e in o[3]]))
                return tuple(o)

    def loads_or_raise(self, text):
        """the canonical reading, or an exception naming what happened"""
        res = self.loads(text)
        if res[0] == 'ok':
            return res[1]
        raise RuntimeError({'abort': 'interpreter aborted (assertion of the C++ code)', 'nonfinite': 'a non-finite number was read'}.get(res[0], ' '.join(map(str, res[1:]))))

    def close(self):
        if self.p is not None and self.p.poll() is None:
            self.p.stdin.close()
            self.p.wait()
