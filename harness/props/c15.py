"""C15 — higher-order reduction is exact on consistent assignments; the penalty is never negative.

(i)  correspondence: `reduce_binary_polynomial` / `make_quadratic` of the real code vs the Lean models in
     `DimodModel/Reduce.lean` through `reducedriver`: the bookkeeping layer (idx / que / _decrement_count /
     _remove_old as coded, with the implementation's own choices as the oracle) must reproduce reduced
     terms, constraints and product/auxiliary names, and the semantic layer replayed on the
     implementation's own constraint order must give the same reduced terms;
(ii) property predicate on the real return values, in exact `Fraction`s, from the definition: degree <= 2,
     fresh product variables, reduced energy == polynomial energy at every consistent assignment,
     BQM energy minimised over the spin auxiliaries == polynomial energy on consistent assignments,
     penalty >= 0 everywhere and >= strength (minimised over auxiliaries) on inconsistent ones,
     `make_quadratic_cqm` objective/constraints, `HigherOrderComposite` energies of returned rows.
"""
import itertools
import warnings
from fractions import Fraction as F

import numpy as np

import dimod
from dimod import BinaryPolynomial
from harness.common import lab, rat, run_driver
from harness.props.c16 import canon_bqm, coef, energy, fr

ALPHA = [0, 1, 2, 3, 'a', 'b', 'c', 'd', ('t', 1), 5]
ADVERSARIAL = ['0*1', '1*0', '_0*1', 'a*b', 'b*a', 'aux0,1', 'aux1,0', 'auxa,b']
# ints next to their digit strings: different pairs that format to the same product text ('1*2' / '2*1')
MIXED = [1, '1', 2, '2', 3, '3', 'a', 'b']
HDR = ('import warnings; warnings.simplefilter("ignore")\nimport itertools, dimod\nfrom fractions import Fraction as F\n'
       'def norm(raw, vt):\n'
       '    out = {}\n'
       '    for t, b in raw:\n'
       '        fs = frozenset(v for v in set(t) if vt == "BINARY" or t.count(v) % 2)\n'
       '        out[fs] = out.get(fs, 0) + F(b)\n'
       '    return out\n'
       'def pe(p, x):\n'
       '    e = F(0)\n'
       '    for t, b in p.items():\n'
       '        m = b\n'
       '        for v in t: m *= x[v]\n'
       '        e += m\n'
       '    return e\n')


def norm(raw, vt):
    """the polynomial the raw term list denotes (definition: x^2 = x resp. s^2 = 1, equal monomials added)"""
    out = {}
    for t, b in raw:
        fs = frozenset(v for v in set(t) if vt == 'BINARY' or t.count(v) % 2)
        out[fs] = out.get(fs, F(0)) + b
    return out


def pe(p, x):
    e = F(0)
    for t, b in p.items():
        m = b
        for v in t:
            m *= x[v]
        e += m
    return e


def term_text(t, b):
    return '&'.join(sorted(lab(v) for v in t)) + '=' + rat(b)


def gen_poly(r, big=False):
    vt = r.choice(['BINARY', 'SPIN'])
    n = r.randint(3, 6)
    pool = r.sample(ALPHA, n)
    k = r.random()
    if k < .08:
        pool = pool[:max(2, n - 2)] + r.sample(ADVERSARIAL, 2)
    elif k < .22:
        pool = r.sample(MIXED, min(n + 1, len(MIXED)))
        if r.random() < .5:
            pool = [1, '1', 2, '2'] + [v for v in pool if v not in (1, '1', 2, '2')][:2]
            r.shuffle(pool)
    core = pool[:r.randint(2, min(4, n))]       # heavy overlap: most terms contain much of the core
    raw = []
    for _ in range(r.randint(1, 7)):
        deg = r.choice([0, 1, 2, 3, 3, 4, 4, 5, 6] if not big else [3, 4, 5, 6, 7])
        deg = min(deg, len(pool))
        if r.random() < .7:
            t = list(core[:min(len(core), deg)])
            rest = [v for v in pool if v not in t]
            r.shuffle(rest)
            t += rest[:deg - len(t)]
        else:
            t = r.sample(pool, deg)
        if t and r.random() < .2:
            t = t + [r.choice(t)] * r.choice([1, 2])       # repeated variable inside a term
        r.shuffle(t)
        raw.append((tuple(t), F(r.randint(-16, 16), 4) if r.random() < .9 else F(0)))
    if r.random() < .2 and raw:
        t, _ = r.choice(raw); raw.append((tuple(reversed(t)), F(r.randint(-8, 8), 4)))   # same monomial twice
    return vt, raw


def extend(x, cons):
    """values of the product variables that make the assignment consistent"""
    y = dict(x)
    for (u, v), p in cons:
        y[p] = y[u] * y[v]
    return y


def one_case(ctx, r, lines, checks, big=False, directed=None, given_modes=None, record_modes=None):
    vt, raw = directed or gen_poly(r, big)
    dom = (0, 1) if vt == 'BINARY' else (-1, 1)
    pnorm = norm(raw, vt)
    orig = sorted({v for t, _ in raw for v in t}, key=repr)
    # variables of the BinaryPolynomial are those of the *normalised* terms
    pvars = sorted({v for t in pnorm for v in t}, key=repr)
    rawf = [(t, float(b)) for t, b in raw]
    src0 = HDR + f'vt, raw = {vt!r}, {rawf!r}\npoly = dimod.BinaryPolynomial(raw, vt)\nP = norm(raw, vt)\ndom = (0, 1) if vt == "BINARY" else (-1, 1)\nvs = sorted(poly.variables, key=repr)\n'
    poly = BinaryPolynomial(rawf, vt)
    site = 'reduce_binary_polynomial'
    # --- BinaryPolynomial itself denotes the polynomial
    got = {t: fr(b) for t, b in poly.items()}
    if {t: b for t, b in got.items() if b} != {t: b for t, b in pnorm.items() if b}:
        ctx.fail('property', 'BinaryPolynomial.__init__', f'{vt} term aggregation', f'raw {raw!r}: stored {got!r}, denoted {pnorm!r}', repro=src0 + 'assert {t: F(b) for t, b in poly.items() if b} == {t: b for t, b in P.items() if b}\n')
        return
    # --- the polynomial argument is a Mapping or an *iterable* of (term, bias) pairs: every other form of the same pairs
    #     (one-shot iterators, tuple, dict view when the spellings are distinct) must denote the same polynomial
    forms = [('one-shot iterator', 'iter(raw)'), ('one-shot iterator', '((t, b) for t, b in raw)'), ('one-shot iterator', 'zip([t for t, _ in raw], [b for _, b in raw])'),
             ('tuple', 'tuple(raw)')]
    if len({t for t, _ in rawf}) == len(rawf):
        forms += [('dict', 'dict(raw)'), ('dict view', 'dict(raw).items()')]
    for cls, expr in r.sample(forms, 2):
        try:
            other = BinaryPolynomial(eval(expr, {'raw': rawf}), vt)
            same = dict(other) == dict(poly) and other.vartype is poly.vartype
        except Exception as e:  # noqa
            same, other = False, f'{type(e).__name__}: {e}'
        ctx.tick(f'poly-form:{cls}')
        if not same:
            ctx.fail('property', 'BinaryPolynomial.__init__', f'polynomial given as {cls}', f'raw {raw!r} as {expr}: {other!r}, as a list {dict(poly)!r}',
                     repro=src0 + f'other = dimod.BinaryPolynomial({expr}, vt)\nassert dict(other) == dict(poly), (dict(other), dict(poly))\n')
            return
    try:
        reduced, cons = dimod.reduce_binary_polynomial(poly)
    except Exception as e:  # noqa
        ctx.fail('property', site, 'raises', f'{type(e).__name__}: {e} on {raw!r}', repro=src0 + 'dimod.reduce_binary_polynomial(poly)\n')
        return
    cons_o = [(tuple(pair), p) for pair, p in cons]       # the order `*pair` unpacks
    ctx.tick(f'reduce:{vt}:deg{poly.degree}')
    ctx.case(('reduce', vt, tuple(sorted(term_text(t, b) for t, b in pnorm.items()))), nontrivial=poly.degree > 2,
             sample=dict(vartype=vt, terms=[(list(map(repr, t)), str(b)) for t, b in raw], constraints=[(list(map(repr, uv)), p) for uv, p in cons_o]))
    src = (src0 + 'red, cons = dimod.reduce_binary_polynomial(poly)\n'
           'assert all(len(t) <= 2 for t, _ in red)\n'
           'prods = [p for _, p in cons]\nassert len(set(prods)) == len(prods) and not (set(prods) & set(vs))\n'
           'for t in itertools.product(dom, repeat=len(vs)):\n'
           '    x = dict(zip(vs, t))\n'
           '    for pair, p in cons:\n'
           '        u, v = pair; x[p] = x[u] * x[v]\n'
           '    R = {}\n'
           '    for tm, b in red: R[tm] = R.get(tm, 0) + F(b)\n'
           '    assert pe(R, x) == pe(P, x), (x, pe(R, x), pe(P, x))\n')
    bad = False
    prods = [p for _, p in cons_o]
    if any(len(t) > 2 for t, _ in reduced):
        bad = True
        ctx.fail('property', site, 'degree', f'{raw!r}: reduced term of degree > 2', repro=src)
    if len(set(prods)) != len(prods) or set(prods) & set(pvars):
        bad = True
        ctx.fail('property', site, 'product variable not fresh', f'{raw!r}: product variables {prods!r} are not pairwise distinct and distinct from the variables {pvars!r} (constraints {cons_o!r})', repro=src)
    R = {}
    for t, b in reduced:
        R[t] = R.get(t, F(0)) + fr(b)
    if not bad and len(pvars) <= 10:
        for tv in itertools.product(dom, repeat=len(pvars)):
            x = extend(dict(zip(pvars, tv)), cons_o)
            if pe(R, x) != pe(pnorm, x):
                bad = True
                ctx.fail('property', site, f'{vt} energy on a consistent assignment', f'{raw!r}: at {dict(zip(pvars, tv))!r} reduced energy {pe(R, x)} but polynomial {pe(pnorm, x)}; constraints {cons_o!r}', repro=src)
                break
    raw_text = ';'.join('&'.join(lab(v) for v in t) + '=' + rat(b) for t, b in raw) or '-'
    ch_text = ','.join(f'{lab(u)}~{lab(v)}>{lab(p)}' for (u, v), p in cons_o) or '-'
    red_text = ';'.join(sorted(term_text(t, fr(b)) for t, b in reduced))
    lines.append(f'reduce {vt} {raw_text} {ch_text}')
    checks.append((site + ' vs Red.bkReduce / Red.semReduce', vt, f"ok {red_text}|{ch_text if cons_o else ''}|1 # {red_text}|0", src, bad))
    if bad:
        return
    # --- make_quadratic
    strength = r.choice([F(1), F(2), F(1, 2), F(5), F(3, 4)])
    site = 'make_quadratic'
    srcq = (src0 + f'strength = {float(strength)!r}\nbqm = dimod.make_quadratic(poly, strength, vt)\n'
            'def en(x): return F(bqm.offset) + sum(F(bqm.get_linear(v))*x[v] for v in bqm.variables) + sum(F(q)*x[u]*x[v] for u, v, q in bqm.iter_quadratic())\n'
            'info = bqm.info["reduction"]\nprods = [d["product"] for d in info.values()]; auxs = [d["auxiliary"] for d in info.values() if "auxiliary" in d]\n'
            'assert len(set(prods + auxs + vs)) == len(prods) + len(auxs) + len(vs), "introduced variables are not distinct / fresh"\n'
            'for t in itertools.product(dom, repeat=len(vs)):\n'
            '    x = dict(zip(vs, t))\n'
            '    for (u, v), d in info.items(): x[d["product"]] = x[u] * x[v]\n'
            '    m = min(en({**x, **dict(zip(auxs, a))}) for a in itertools.product(dom, repeat=len(auxs)))\n'
            '    assert m == pe(P, x), (x, m, pe(P, x))\n')
    try:
        bqm = dimod.make_quadratic(poly, float(strength), vt)
    except Exception as e:  # noqa
        ctx.fail('property', site, 'raises', f'{type(e).__name__}: {e} on {raw!r}', repro=srcq)
        return
    info = bqm.info['reduction']
    cons_q = [((u, v), d['product']) for (u, v), d in info.items()]
    auxs = [d['auxiliary'] for d in info.values() if 'auxiliary' in d]
    prods_q = [p for _, p in cons_q]
    ctx.tick(f'make_quadratic:{vt}')
    ctx.case(('mq', vt, strength, raw_text), nontrivial=bool(cons_q))
    c = coef(bqm)
    badq = False
    allv = list(bqm.variables)
    if not set(allv) >= set(pvars):
        badq = True
        ctx.fail('property', site, 'a variable of the polynomial is missing from the quadratic model', f'{vt} {raw!r}: polynomial variables {pvars!r}, model variables {allv!r}',
                 repro=srcq[:srcq.index('def en(x)')] + 'assert set(bqm.variables) >= set(vs), (set(vs) - set(bqm.variables))\n')
    elif len(set(prods_q + auxs + pvars)) != len(prods_q) + len(auxs) + len(pvars):
        badq = True
        cls = 'introduced variable not fresh' + (' (adversarial labels)' if any(isinstance(v, str) and ('*' in v or v.startswith('aux')) for v in pvars) else '')
        ctx.fail('property', site, cls, f'{vt} {raw!r}: products {prods_q!r} auxiliaries {auxs!r} variables {pvars!r}',
                 repro=srcq[:srcq.index('for t in itertools.product(dom, repeat=len(vs)):')])
    if not badq and len(pvars) + len(prods_q) + len(auxs) <= ctx.scale(12, 15):
        # reduced energy of the implementation's own reduction used inside make_quadratic: recompute from the bqm minus penalties is
        # circular; the definition: E_bqm(x, aux) - strength * sum_i pen_i >= ... we check the three statements of the property:
        free = prods_q
        for tv in itertools.product(dom, repeat=len(pvars)):
            x0 = dict(zip(pvars, tv))
            want = pe(pnorm, x0)
            xc = extend(x0, cons_q)
            for pv in itertools.product(dom, repeat=len(free)):
                x = {**x0, **dict(zip(free, pv))}
                consistent = all(x[p] == x[u] * x[v] for (u, v), p in cons_q)
                es = [energy(c, {**x, **dict(zip(auxs, a))}) for a in itertools.product(dom, repeat=len(auxs))]
                m = min(es)
                # polynomial value "for its original variables" with the product variables read as given: reduced polynomial
                # is not observable here, so the bound is stated on consistent points and through the gap on the others
                if consistent and m != want:
                    badq = True
                    ctx.fail('property', site, f'{vt} energy on a consistent assignment', f'{raw!r} strength {strength}: at {x0!r} min over auxiliaries {m} but polynomial {want}', repro=srcq)
                    break
            if badq:
                break
    mq_line = f'mq {vt} {rat(strength)} {raw_text} ' + (','.join(f'{lab(u)}~{lab(v)}>{lab(p)}' for (u, v), p in cons_q) or '-')
    lines.append(mq_line)
    checks.append((site + ' vs Red.makeQuadratic', vt, 'ok ' + canon_bqm(bqm) + '|' + ','.join(lab(a) for a in auxs), srcq, badq))
    if badq:
        return
    # --- make_quadratic / make_quadratic_cqm onto a given model
    if (given_modes or r.random() < (.45 if ctx.quick else .2)) and len(pvars) <= 6:
        for mode in (given_modes or [None]):
            given_bqm_case(ctx, r, vt, raw, rawf, pnorm, pvars, src0, raw_text, lines, checks, mode=mode and mode[:2], adversarial=bool(mode) and len(mode) > 2)
    if (given_modes or r.random() < (.3 if ctx.quick else .12)) and len(pvars) <= 5 and len(cons_o) <= 3:
        given_cqm_case(ctx, r, vt, raw, rawf, pnorm, pvars, src0, raw_text, adversarial=bool(given_modes) and any(len(m) > 2 for m in given_modes))
    # penalty part: E_bqm - E_reduced with the reduction make_quadratic used (same poly => same deterministic choices in this process)
    if len(pvars) + len(prods_q) + len(auxs) <= 12 and cons_q == cons_o:
        site = 'make_quadratic'
        for tv in itertools.product(dom, repeat=len(pvars) + len(prods_q)):
            x = dict(zip(pvars + prods_q, tv))
            consistent = all(x[p] == x[u] * x[v] for (u, v), p in cons_q)
            er = pe(R, x)
            pens = [energy(c, {**x, **dict(zip(auxs, a))}) - er for a in itertools.product(dom, repeat=len(auxs))]
            m = min(pens)
            nviol = sum(1 for (u, v), p in cons_q if x[p] != x[u] * x[v])
            if min(pens) < 0 or (consistent and m != 0) or (not consistent and m < strength):
                ctx.fail('property', site, f'{vt} penalty', f'{raw!r} strength {strength}: at {x!r} penalty minimised over auxiliaries is {m} ({nviol} products violated)',
                         repro=srcq + 'red, cons = dimod.reduce_binary_polynomial(poly)\nR = {}\nfor tm, b in red: R[tm] = R.get(tm, 0) + F(b)\n'
                         'allp = vs + prods\nfor t in itertools.product(dom, repeat=len(allp)):\n    x = dict(zip(allp, t))\n'
                         '    ok = all(x[d["product"]] == x[u]*x[v] for (u, v), d in info.items())\n'
                         '    m = min(en({**x, **dict(zip(auxs, a))}) for a in itertools.product(dom, repeat=len(auxs))) - pe(R, x)\n'
                         '    assert (m == 0) if ok else (m >= F(strength)), (x, m)\n')
                break
        ctx.tick('penalty_enumerated')
    # --- make_quadratic_cqm
    if r.random() < .5:
        site = 'make_quadratic_cqm'
        srcc = (src0 + 'cqm = dimod.make_quadratic_cqm(poly, vt)\nallv = list(cqm.variables)\n'
                'for t in itertools.product(dom, repeat=len(allv)):\n'
                '    x = dict(zip(allv, t))\n'
                '    ok = all(abs(c.lhs.energy(x) - c.rhs) == 0 for c in cqm.constraints.values())\n'
                '    if ok and allv: assert F(float(cqm.objective.energy(x))) == pe(P, x), (x,)\n'
                'assert all(len(c.lhs.variables) == 3 for c in cqm.constraints.values())\n')
        try:
            cqm = dimod.make_quadratic_cqm(poly, vt)
        except Exception as e:  # noqa
            ctx.fail('property', site, 'raises', f'{type(e).__name__}: {e} on {raw!r}', repro=srcc)
            return
        ctx.tick(f'make_quadratic_cqm:{vt}'); ctx.case(('mqcqm', vt, raw_text), nontrivial=len(cqm.constraints) > 0)
        allv = list(cqm.variables)
        newv = [v for v in allv if v not in pvars]
        # correspondence with Red.makeQuadraticCqm (objective + product constraints as coefficient maps)
        def _qm(e):
            lin = sorted(f'{lab(v)}={rat(e.get_linear(v))}' for v in e.variables)
            quad = sorted('~'.join(sorted((lab(u), lab(v)))) + f'={rat(q)}' for u, v, q in e.iter_quadratic())
            return f"{','.join(lin)};{','.join(quad)};{rat(e.offset)}"
        if all(cc.sense.name == 'Eq' and cc.rhs == 0 for cc in cqm.constraints.values()):
            lines.append(f'mqcqm {vt} {raw_text} {ch_text}')
            checks.append((site + ' vs Red.makeQuadraticCqm', vt,
                           'ok ' + _qm(cqm.objective) + '|' + '|'.join(f'{lbl.encode().hex()}:{_qm(cc.lhs)}' for lbl, cc in cqm.constraints.items()), srcc, False))
        else:
            ctx.fail('property', site, 'constraint sense', f'{raw!r}: a product constraint is not `== 0`', repro=srcc)
        if len(cqm.constraints) != len(cons_o) or len(newv) != len(cons_o):
            ctx.fail('property', site, 'constraints', f'{raw!r}: {len(cqm.constraints)} constraints, {len(newv)} new variables for {len(cons_o)} products', repro=srcc)
        elif len(allv) <= 11:
            lhs = [(lbl, cc) for lbl, cc in cqm.constraints.items()]
            if not allv and fr(cqm.objective.offset) != pe(pnorm, {}):
                ctx.fail('property', site, 'constant polynomial', f'{raw!r}: objective offset {cqm.objective.offset}', repro=srcc)
            for tv in itertools.product(dom, repeat=len(allv)):
                x = dict(zip(allv, tv))
                sat = all(fr(cc.lhs.energy(x)) == fr(cc.rhs) and cc.sense.name == 'Eq' for _, cc in lhs)
                consistent = all(x[p] == x[u] * x[v] for (u, v), p in cons_o) if set(newv) == set(prods) else None
                if consistent is not None and sat != consistent:
                    ctx.fail('property', site, 'constraint meaning', f'{raw!r}: at {x!r} constraints satisfied={sat} but products consistent={consistent}', repro=srcc)
                    break
                if allv and sat and fr(cqm.objective.energy(x)) != pe(pnorm, {v: x[v] for v in pvars}):
                    ctx.fail('property', site, f'{vt} objective on a feasible assignment', f'{raw!r}: at {x!r} objective {cqm.objective.energy(x)} polynomial {pe(pnorm, x)}', repro=srcc)
                    break
    # --- HigherOrderComposite
    if r.random() < .35 and len(pvars) + 2 * len(cons_o) <= 12:
        hoc_case(ctx, r, vt, raw, rawf, poly, pnorm, pvars, src0)
    if r.random() < (.5 if ctx.quick else .25) and pvars:
        hoc_options_case(ctx, r, vt, raw, rawf, pnorm, pvars, src0, raw_text, lines, checks)
    if (record_modes or r.random() < (.5 if ctx.quick else .25)) and pvars:
        for mode in (record_modes or [None]):
            hoc_record_case(ctx, r, vt, raw, rawf, pnorm, pvars, src0, raw_text, lines, checks, mode=mode)
    if (record_modes or r.random() < (.35 if ctx.quick else .2)) and cons_q == cons_o:
        for sgn in ((0, -1) if record_modes else (r.choice([0, -1]),)):
            strength_nonpos_case(ctx, r, vt, raw, pnorm, pvars, R, cons_o, src0, raw_text, lines, checks, sgn)


GEXTRA = ['g', 'h', 7]


def lookalikes(r, pvars, k):
    """up to k labels that `_new_product` / `_new_aux` would generate for pairs of the polynomial's variables"""
    names = []
    for u, v in itertools.permutations(pvars, 2):
        names += [f'{u}*{v}', f'aux{u},{v}']
    names = sorted(set(names) - set(pvars))
    return names if k is None else r.sample(names, min(k, len(names)))


def conv_value(t, vt, gvt):
    """value, in the given model's vartype `gvt`, of a variable that has value `t` in vartype `vt`"""
    if vt == gvt:
        return t
    return 2 * t - 1 if vt == 'BINARY' else F(t + 1, 2)


def given_bqm_case(ctx, r, vt, raw, rawf, pnorm, pvars, src0, raw_text, lines, checks, mode=None, adversarial=False):
    """`make_quadratic(poly, strength, vartype, bqm=<non-empty model>)`: the given model has the same or the other
    vartype, `vartype` is passed or omitted; result vartype and energy = polynomial + (converted) given model"""
    other = 'SPIN' if vt == 'BINARY' else 'BINARY'
    mode = mode or r.choice([('same', True), ('other', True), ('other', True), ('same', False)])
    gvt = vt if mode[0] == 'same' else other
    pass_vt = mode[1]
    as_obj = r.random() < .5                       # poly as BinaryPolynomial or as the raw term list
    gv = r.sample(pvars, min(len(pvars), r.randint(0, 3))) + r.sample(GEXTRA, r.randint(0, 2))
    if adversarial or r.random() < .12:
        gv += lookalikes(r, pvars, None if adversarial else 3)
    gv = gv or ['g']
    lin = {v: F(r.randint(-8, 8), 4) for v in gv}
    quad = {(u, v): F(r.randint(-8, 8), 4) for u, v in itertools.combinations(gv, 2) if r.random() < .6}
    off = F(r.randint(-8, 8), 4)
    strength = r.choice([F(1), F(2), F(1, 2), F(3)])
    cls = f"bqm= of the {mode[0]} vartype, vartype {'given' if pass_vt else 'omitted'}"
    site = 'make_quadratic'
    glin_f = {v: float(b) for v, b in lin.items()}; gquad_f = {k: float(b) for k, b in quad.items()}
    src = (src0 + f'gvt = {gvt!r}\ngiven = dimod.BinaryQuadraticModel({glin_f!r}, {gquad_f!r}, {float(off)!r}, gvt)\n'
           'G = ({v: F(b) for v, b in given.linear.items()}, {k: F(b) for k, b in given.quadratic.items()}, F(given.offset))\n'
           f'arg = {"poly" if as_obj else "raw"}\n'
           f'bqm = dimod.make_quadratic(arg, {float(strength)!r}, {"vt" if pass_vt else "None"}, bqm=given)\n'
           'assert bqm.vartype.name == vt, ("result vartype", bqm.vartype)\n'
           'new = [n for d in bqm.info["reduction"].values() for n in d.values()]\n'
           'assert not (set(new) & set(G[0])), ("a new variable is a variable of the given model", set(new) & set(G[0]))\n'
           'def en(x): return F(bqm.offset) + sum(F(bqm.get_linear(v))*x[v] for v in bqm.variables) + sum(F(q)*x[u]*x[v] for u, v, q in bqm.iter_quadratic())\n'
           'def cv(t): return t if gvt == vt else (2*t - 1 if vt == "BINARY" else F(t + 1, 2))\n'
           'info = bqm.info["reduction"]\nprods = [d["product"] for d in info.values()]; auxs = [d["auxiliary"] for d in info.values() if "auxiliary" in d]\n'
           'allv = sorted(set(vs) | set(G[0]), key=repr)\n'
           'for t in itertools.product(dom, repeat=len(allv)):\n'
           '    x = dict(zip(allv, t))\n'
           '    want = pe(P, x) + G[2] + sum(b*cv(x[v]) for v, b in G[0].items()) + sum(b*cv(x[u])*cv(x[v]) for (u, v), b in G[1].items())\n'
           '    for (u, v), d in info.items(): x[d["product"]] = x[u] * x[v]\n'
           '    m = min(en({**x, **dict(zip(auxs, a))}) for a in itertools.product(dom, repeat=len(auxs)))\n'
           '    assert m == want, (x, m, want)\n')
    given = dimod.BinaryQuadraticModel(glin_f, gquad_f, float(off), gvt)
    arg = BinaryPolynomial(rawf, vt) if as_obj else rawf
    try:
        res = dimod.make_quadratic(arg, float(strength), vt if pass_vt else None, bqm=given)
    except Exception as e:  # noqa
        ctx.fail('property', site, cls + ': raises', f'{type(e).__name__}: {e} on {raw!r} given {gvt} {lin!r} {quad!r}', repro=src)
        return
    info = res.info['reduction']
    cons_q = [((u, v), d['product']) for (u, v), d in info.items()]
    auxs = [d['auxiliary'] for d in info.values() if 'auxiliary' in d]
    ctx.tick(f'make_quadratic:given:{mode[0]}:{"vt" if pass_vt else "novt"}')
    ctx.case(('mqg', vt, mode, strength, raw_text, tuple(sorted(map(repr, lin.items()))), tuple(sorted(map(repr, quad.items()))), off), nontrivial=True)
    bad = False
    if res.vartype.name != vt:
        bad = True
        ctx.fail('property', site, cls + ': result vartype', f'{raw!r} as {vt} onto a {gvt} model: the result is {res.vartype.name}', repro=src)
    clash = sorted(set([p for _, p in cons_q] + auxs) & set(gv))
    if not bad and clash:
        bad = True
        ctx.fail('property', site, 'bqm= given: a product / auxiliary name equals a variable of the given model',
                 f'{raw!r} ({vt}) onto a model with variables {gv!r}: introduced {clash!r} (reduction {dict(info)!r})', repro=src)
    dom = (0, 1) if vt == 'BINARY' else (-1, 1)
    allv = sorted(set(pvars) | set(gv), key=repr)
    c = coef(res)
    if not bad and len(allv) + len(auxs) <= 11:
        for tv in itertools.product(dom, repeat=len(allv)):
            x0 = dict(zip(allv, tv))
            y = {v: conv_value(t, vt, gvt) for v, t in x0.items()}
            want = pe(pnorm, x0) + energy((lin, quad, off), y)
            x = extend(x0, cons_q)
            try:
                m = min(energy(c, {**x, **dict(zip(auxs, a))}) for a in itertools.product(dom, repeat=len(auxs)))
            except KeyError as e:
                m = f'undefined (variable {e} missing)'
            if m != want:
                bad = True
                ctx.fail('property', site, cls + ': energy on a consistent assignment',
                         f'{raw!r} ({vt}) strength {strength} onto {gvt} model lin {lin!r} quad {quad!r} offset {off}: at {x0!r} the result (min over auxiliaries) has {m}, polynomial + given model = {want}', repro=src)
                break
    gl = ','.join(f'{lab(v)}={rat(b)}' for v, b in lin.items()) or '-'
    gq = ','.join(f'{lab(u)}~{lab(v)}={rat(b)}' for (u, v), b in quad.items()) or '-'
    ch = ','.join(f'{lab(u)}~{lab(v)}>{lab(p)}' for (u, v), p in cons_q) or '-'
    lines.append(f"mqg {vt if pass_vt else '-'} {rat(strength)} {raw_text} {ch} {gvt} {gl} {gq} {rat(off)}")
    checks.append((site + ' vs Red.makeQuadraticOnto', cls, f'ok {res.vartype.name} ' + canon_bqm(res) + '|' + ','.join(lab(a) for a in auxs), src, bad))


def given_cqm_case(ctx, r, vt, raw, rawf, pnorm, pvars, src0, raw_text, adversarial=False):
    """`make_quadratic_cqm(poly, vartype, cqm=<non-empty CQM>)`: the given objective and constraints stay, the
    product constraints and the reduced objective are added"""
    site = 'make_quadratic_cqm'
    other = 'SPIN' if vt == 'BINARY' else 'BINARY'
    shared = r.sample(pvars, min(len(pvars), r.randint(0, 2)))
    own = []
    for name in r.sample(GEXTRA, r.randint(1, 2)):
        own.append((name, r.choice([vt, other, other, 'INTEGER'])))
    pass_vt = r.random() < .6
    conflict = bool(pvars) and r.random() < .12 and not adversarial       # a polynomial variable already present with the other vartype
    if conflict:
        shared_t = [(shared[0] if shared else pvars[0], other)]
    else:
        shared_t = [(v, vt) for v in shared]
    adv = lookalikes(r, pvars, None) if adversarial else [] if conflict or r.random() > .2 else lookalikes(r, pvars, 2)
    own += [(name, vt) for name in adv]
    decl = shared_t + own
    cls = 'cqm= with a conflicting variable type' if conflict else f"cqm= given, vartype {'given' if pass_vt else 'omitted'}"
    lin = {v: F(r.randint(-8, 8), 4) for v, _ in decl}
    quad = {(u, v): F(r.randint(-8, 8), 4) for (u, _), (v, _) in itertools.combinations(decl, 2) if r.random() < .5}
    off = F(r.randint(-8, 8), 4)
    con = [(v, r.randint(-2, 2)) for v, _ in r.sample(decl, min(len(decl), 2))] if r.random() < .7 else []
    rhs = r.randint(-1, 2)
    src = (src0 + f'decl, lin, quad, off, con, rhs = {decl!r}, { {v: float(b) for v, b in lin.items()}!r}, { {k: float(b) for k, b in quad.items()}!r}, {float(off)!r}, {con!r}, {rhs!r}\n'
           'mk = {"BINARY": dimod.Binary, "SPIN": dimod.Spin, "INTEGER": lambda v: dimod.Integer(v, lower_bound=0, upper_bound=2)}\n'
           'X = {v: mk[t](v) for v, t in decl}\n'
           'given = dimod.ConstrainedQuadraticModel()\n'
           'given.set_objective(sum(b*X[v] for v, b in lin.items()) + sum(b*X[u]*X[v] for (u, v), b in quad.items()) + off)\n'
           'if con: given.add_constraint(sum(a*X[v] for v, a in con) <= rhs, label="given")\n'
           'doms = {"BINARY": (0, 1), "SPIN": (-1, 1), "INTEGER": (0, 1, 2)}\n'
           f'arg, vta = {"(poly, vt)" if pass_vt else "(poly, None)"}\n'
           'try:\n    cqm = dimod.make_quadratic_cqm(arg, vta, cqm=given)\nexcept ValueError:\n'
           '    assert any(t != vt and v in vs for v, t in decl), "refused although no variable type conflicts"\n    raise SystemExit(0)\n'
           'assert "given" in cqm.constraints or not con\n'
           'assert len(set(cqm.variables) - set(vs) - {v for v, _ in decl}) == len(cqm.constraints) - (1 if con else 0), "a product variable is a variable of the given model"\n'
           'allv = list(cqm.variables)\n'
           'for t in itertools.product(*[doms[cqm.vartype(v).name] for v in allv]):\n'
           '    x = dict(zip(allv, t))\n'
           '    ok = all(c.lhs.energy(x) == c.rhs for l, c in cqm.constraints.items() if l != "given")\n'
           '    want = pe(P, x) + F(off) + sum(F(b)*x[v] for v, b in lin.items()) + sum(F(b)*x[u]*x[v] for (u, v), b in quad.items())\n'
           '    if ok: assert F(float(cqm.objective.energy(x))) == want, (x, cqm.objective.energy(x), want)\n'
           '    if con: assert F(float(cqm.constraints["given"].lhs.energy(x))) == sum(a*x[v] for v, a in con)\n')
    mk = {'BINARY': dimod.Binary, 'SPIN': dimod.Spin, 'INTEGER': lambda v: dimod.Integer(v, lower_bound=0, upper_bound=2)}
    X = {v: mk[t](v) for v, t in decl}
    given = dimod.ConstrainedQuadraticModel()
    given.set_objective(sum(float(b) * X[v] for v, b in lin.items()) + sum(float(b) * X[u] * X[v] for (u, v), b in quad.items()) + float(off))
    if con:
        given.add_constraint(sum(a * X[v] for v, a in con) <= rhs, label='given')
    poly = BinaryPolynomial(rawf, vt)
    ctx.tick(f'make_quadratic_cqm:given:{"conflict" if conflict else "ok"}')
    ctx.case(('mqcqmg', vt, raw_text, tuple(decl), tuple(sorted(map(repr, lin.items()))), tuple(sorted(map(repr, quad.items()))), off, tuple(con), rhs), nontrivial=True)
    real_conflict = any(t != vt and v in pvars for v, t in decl)
    try:
        cqm = dimod.make_quadratic_cqm(poly, vt if pass_vt else None, cqm=given)
    except ValueError as e:
        if not real_conflict:
            ctx.fail('property', site, cls + ': raises', f'ValueError: {e} on {raw!r} given {decl!r}', repro=src)
        return
    except Exception as e:  # noqa
        ctx.fail('property', site, cls + ': raises', f'{type(e).__name__}: {e} on {raw!r} given {decl!r}', repro=src)
        return
    if real_conflict:
        ctx.fail('property', site, cls, f'{raw!r} as {vt}: accepted although {decl!r} declares a polynomial variable with another type', repro=src)
        return
    doms = {'BINARY': (0, 1), 'SPIN': (-1, 1), 'INTEGER': (0, 1, 2)}
    allv = list(cqm.variables)
    if len(set(allv) - set(pvars) - {v for v, _ in decl}) != len(cqm.constraints) - (1 if con else 0):
        ctx.fail('property', site, 'cqm= given: a product name equals a variable of the given model',
                 f'{raw!r} ({vt}) onto a CQM with variables {decl!r}: constraints {list(cqm.constraints)!r}, variables {allv!r}', repro=src)
        return
    if con and 'given' not in cqm.constraints:
        ctx.fail('property', site, cls + ': given constraint lost', f'{raw!r}: constraints {list(cqm.constraints)!r}', repro=src)
        return
    types = {v: cqm.vartype(v).name for v in allv}
    wrong = [v for v, t in decl if types.get(v) != t] + [v for v in pvars if types.get(v) != vt]
    if wrong:
        ctx.fail('property', site, cls + ': variable types', f'{raw!r} as {vt}, given {decl!r}: types {types!r}', repro=src)
        return
    size = 1
    for v in allv:
        size *= len(doms[types[v]])
    if size > ctx.scale(3000, 20000):
        return
    prodc = [(l, cc) for l, cc in cqm.constraints.items() if l != 'given']
    for tv in itertools.product(*[doms[types[v]] for v in allv]):
        x = dict(zip(allv, tv))
        if con:
            cg = cqm.constraints['given']
            if fr(cg.lhs.energy(x)) != sum(a * x[v] for v, a in con) or cg.rhs != rhs or cg.sense.name != 'Le':
                ctx.fail('property', site, cls + ': given constraint changed', f'{raw!r}: at {x!r} lhs {cg.lhs.energy(x)} sense {cg.sense.name} rhs {cg.rhs}; was {con!r} <= {rhs}', repro=src)
                return
        if all(fr(cc.lhs.energy(x)) == fr(cc.rhs) for _, cc in prodc):
            want = pe(pnorm, x) + energy((lin, quad, off), x)
            if fr(cqm.objective.energy(x)) != want:
                ctx.fail('property', site, cls + ': objective on a feasible assignment',
                         f'{raw!r} as {vt} onto objective lin {lin!r} quad {quad!r} offset {off} ({decl!r}): at {x!r} objective {cqm.objective.energy(x)}, polynomial + given objective = {want}', repro=src)
                return


def hoc_rows(bqm, dom, nrows, rseed):
    """rows for the child sampler: random values; half of them made consistent with every product of the
    reduction, and of those some with exactly one product (not the last one when there are several) broken again"""
    import random
    rr = random.Random(rseed)
    labels = list(bqm.variables)
    red = list(bqm.info["reduction"].items())
    rows = []
    for _ in range(nrows):
        row = {v: rr.choice(dom) for v in labels}
        if red and rr.random() < .6:
            for (u, v), d in red:
                row[d["product"]] = row[u] * row[v]
            if rr.random() < .4:
                (u, v), d = red[rr.randrange(max(1, len(red) - 1))]
                row[d["product"]] = [x for x in dom if x != row[u] * row[v]][0]
        rows.append(row)
    return rows


class FixedChild(dimod.Sampler):
    """a child sampler that returns the rows it is told to and remembers what it was called with"""
    parameters = {'initial_state': []}
    properties = {}

    def __init__(self, pick):
        self.pick = pick; self.kw = None; self.bqm = None; self.rows = None

    def sample(self, bqm, **kw):
        self.kw = kw; self.bqm = bqm
        labels = list(bqm.variables)
        self.rows = self.pick(bqm)
        arr = np.array([[row[v] for v in labels] for row in self.rows], dtype=np.int8).reshape(len(self.rows), len(labels))
        return dimod.SampleSet.from_samples_bqm((arr, labels), bqm)


def hoc_options_case(ctx, r, vt, raw, rawf, pnorm, pvars, src0, raw_text, lines, checks):
    """`HigherOrderComposite.sample_poly` over its option grid with a child that returns chosen rows (consistent and
    inconsistent ones): which rows are kept, their columns, energies, `penalty_satisfaction`, and the
    `initial_state` handed to the child"""
    site = 'HigherOrderComposite.sample_poly'
    dom = (0, 1) if vt == 'BINARY' else (-1, 1)
    strength = r.choice([F(1, 2), F(1), F(2), F(3)])
    keep = r.random() < .5; discard = r.random() < .5
    use_init = r.random() < .5
    init = {v: r.choice(dom) for v in pvars} if use_init else None
    nrows = r.randint(0, 6)
    rseed = r.randrange(2 ** 31)

    def pick(bqm, rseed=rseed, nrows=nrows):
        return hoc_rows(bqm, dom, nrows, rseed)
    cls = f"keep={int(keep)} discard={int(discard)} initial_state={'given' if use_init else 'omitted'}"
    import inspect
    src = (src0 + 'import random, numpy as np\n' + inspect.getsource(hoc_rows) + f'strength, keep, discard, init, nrows, rseed = {float(strength)!r}, {keep}, {discard}, {init!r}, {nrows}, {rseed}\n'
           'class Child(dimod.Sampler):\n'
           '    parameters = {"initial_state": []}; properties = {}\n'
           '    def sample(self, bqm, **kw):\n'
           '        self.kw, self.bqm = kw, bqm; labels = list(bqm.variables)\n'
           '        self.rows = hoc_rows(bqm, dom, nrows, rseed)\n'
           '        arr = np.array([[row[v] for v in labels] for row in self.rows], dtype=np.int8).reshape(len(self.rows), len(labels))\n'
           '        return dimod.SampleSet.from_samples_bqm((arr, labels), bqm)\n'
           'child = Child()\nkw = dict(initial_state=init) if init is not None else {}\n'
           'ss = dimod.HigherOrderComposite(child).sample_poly(poly, penalty_strength=strength, keep_penalty_variables=keep, discard_unsatisfied=discard, **kw)\n'
           'red = child.bqm.info["reduction"]\n'
           'ok = lambda row: all(row[u] * row[v] == row[d["product"]] for (u, v), d in red.items())\n'
           'kept = [row for row in child.rows if ok(row) or not discard]\n'
           'out = list(ss.data(["sample", "energy", "penalty_satisfaction"], sorted_by=None))\n'
           'assert len(out) == len(kept), ("rows kept", len(out), len(kept))\n'
           'cols = set(child.bqm.variables) if keep else set(vs)\n'
           'for row, (smp, e, sat) in zip(kept, out):\n'
           '    assert dict(smp) == {v: row[v] for v in cols}, ("columns / values", dict(smp), row)\n'
           '    assert F(float(e)) == pe(P, row), ("energy", e, pe(P, row))\n'
           '    assert bool(sat) == (True if discard else ok(row)), ("penalty_satisfaction", sat, ok(row))\n'
           'if init is not None:\n'
           '    st = child.kw["initial_state"]\n'
           '    assert all(st[v] == init[v] for v in init) and all(st[u] * st[v] == st[d["product"]] for (u, v), d in red.items()), st\n'
           '    auxs = [d["auxiliary"] for d in red.values() if "auxiliary" in d]\n'
           '    en = lambda x: F(child.bqm.offset) + sum(F(child.bqm.get_linear(v))*x[v] for v in child.bqm.variables) + sum(F(q)*x[u]*x[v] for u, v, q in child.bqm.iter_quadratic())\n'
           '    assert en(st) == min(en({**st, **dict(zip(auxs, a))}) for a in itertools.product(dom, repeat=len(auxs))), "auxiliaries of the initial state do not minimise the energy"\n')
    child = FixedChild(pick)
    poly = BinaryPolynomial(rawf, vt)
    kw = dict(initial_state=init) if init is not None else {}
    try:
        with warnings.catch_warnings():
            warnings.simplefilter('ignore')
            ss = dimod.HigherOrderComposite(child).sample_poly(poly, penalty_strength=float(strength), keep_penalty_variables=keep, discard_unsatisfied=discard, **kw)
    except Exception as e:  # noqa
        ctx.fail('property', site, cls + ': raises', f'{type(e).__name__}: {e} on {raw!r}', repro=src)
        return
    red = child.bqm.info['reduction']
    cons_q = [((u, v), d['product']) for (u, v), d in red.items()]
    auxs = [d['auxiliary'] for d in red.values() if 'auxiliary' in d]
    ok = lambda row: all(row[u] * row[v] == row[p] for (u, v), p in cons_q)   # noqa: E731
    kept = [row for row in child.rows if ok(row) or not discard]
    out = list(ss.data(['sample', 'energy', 'penalty_satisfaction'], sorted_by=None))
    ctx.tick(f'hoc:options:{cls}'); ctx.case(('hocs', vt, raw_text, strength, keep, discard, repr(init), nrows, rseed), nontrivial=bool(cons_q) and nrows > 0)
    bad = False
    if len(out) != len(kept):
        bad = True
        ctx.fail('property', site, 'rows kept (discard_unsatisfied)', f'{raw!r} {cls}: the child returned {len(child.rows)} rows, {len(kept)} of them '
                 f'{"satisfy every product constraint" if discard else "must be kept"}, {len(out)} were returned; reduction {cons_q!r} rows {child.rows!r}', repro=src)
    cols = set(child.bqm.variables) if keep else set(pvars)
    if not bad:
        for row, (smp, e, sat) in zip(kept, out):
            want_sat = True if discard else ok(row)
            if dict(smp) != {v: row[v] for v in cols}:
                bad = True
                ctx.fail('property', site, 'returned columns', f'{raw!r} {cls}: row {row!r} returned as {dict(smp)!r}', repro=src); break
            if fr(e) != pe(pnorm, row):
                bad = True
                ctx.fail('property', site, 'energy of a returned row', f'{raw!r} {cls}: row {row!r} energy {e}, polynomial {pe(pnorm, row)}', repro=src); break
            if bool(sat) != want_sat:
                bad = True
                ctx.fail('property', site, 'penalty_satisfaction', f'{raw!r} {cls}: row {row!r} flagged {bool(sat)}, products {cons_q!r} all hold: {ok(row)}', repro=src); break
    handed = '-'
    if init is not None and not bad:
        st = child.kw.get('initial_state')
        c = coef(child.bqm)
        if st is None or any(st.get(v) != init[v] for v in init) or not all(st[u] * st[v] == st[p] for (u, v), p in cons_q):
            bad = True
            ctx.fail('property', site, 'initial_state handed to the child', f'{raw!r}: initial_state {init!r} became {st!r} (reduction {cons_q!r})', repro=src)
        elif len(auxs) <= 10 and energy(c, st) != min(energy(c, {**st, **dict(zip(auxs, a))}) for a in itertools.product(dom, repeat=len(auxs))):
            bad = True
            ctx.fail('property', site, 'initial_state handed to the child', f'{raw!r}: the auxiliaries of {st!r} do not minimise the energy of the quadratic model', repro=src)
        if st is not None:
            handed = ','.join(sorted(f'{lab(v)}={rat(int(val))}' for v, val in st.items()))
    ch = ','.join(f'{lab(u)}~{lab(v)}>{lab(p)}' for (u, v), p in cons_q) or '-'
    it = ','.join(f'{lab(v)}={rat(val)}' for v, val in init.items()) if init else '-'
    if init == {}:
        return                                     # the empty dict and "omitted" are the same protocol word
    rv = ','.join(lab(v) for v in ss.variables) if False else ','.join(lab(v) for v in child.bqm.variables) or '-'
    rows_txt = '/'.join(','.join(f'{lab(v)}={rat(val)}' for v, val in row.items()) for row in child.rows) or '-'
    if any(not row for row in child.rows):
        return                                     # variable-free model: rows have no text form
    showrow = lambda smp, e, sat: ','.join(sorted(f'{lab(v)}={rat(int(val))}' for v, val in dict(smp).items())) + f'|{rat(fr(e))}|{int(bool(sat))}'   # noqa: E731
    lines.append(f'hocs {vt} {raw_text} {ch} {rat(strength)} {int(keep)} {int(discard)} {it} {rv} {rows_txt}')
    checks.append((site + ' vs Red.samplePoly', cls, f'ok {handed} # ' + '/'.join(showrow(*o) for o in out), src, bad))


RECORD_MODES = ['ok', 'ok', 'ok', 'ok', 'permuted', 'permuted', 'zero-rows', 'drop-product', 'drop-factor', 'drop-polyvar', 'dup-field', 'direct']


def record_child_set(bqm, pvars, dom, mode, nrows, rseed, junk):
    """the sample set the child returns: rows as in `hoc_rows`, columns in a permuted order (a reduction / polynomial
    variable dropped in the error modes), junk energies, num_occurrences, an extra vector, an info dict"""
    import random
    rr = random.Random(rseed + 1)
    labels = list(bqm.variables)
    red = list(bqm.info['reduction'].items())
    rows = hoc_rows(bqm, dom, 0 if mode == 'zero-rows' else nrows, rseed)
    if mode != 'ok':
        rr.shuffle(labels)
    prods = [d['product'] for _, d in red]
    factors = [w for (u, v), _ in red for w in (u, v)]
    used = set(prods) | set(factors)
    drop = None
    if mode == 'drop-product' and prods:
        drop = rr.choice(prods)
    elif mode == 'drop-factor' and factors:
        drop = rr.choice(factors)
    elif mode == 'drop-polyvar':
        free = [v for v in pvars if v not in used]
        drop = rr.choice(free or list(pvars))
    if drop is not None:
        labels = [v for v in labels if v != drop]
    arr = np.array([[row[v] for v in labels] for row in rows], dtype=np.int8).reshape(len(rows), len(labels))
    energies = [rr.randint(-9, 9) for _ in rows] if junk else [float(e) for e in bqm.energies((arr, labels))] if drop is None else [0] * len(rows)
    occ = [rr.randint(1, 5) for _ in rows]
    vectors = {}
    if rr.random() < .5:
        vectors['tag'] = [rr.randint(0, 99) for _ in rows]
    if mode == 'dup-field':
        vectors['penalty_satisfaction'] = [rr.randint(0, 1) for _ in rows]
    info = rr.choice([{}, {'k': 'v'}, {'reduction': 'old', 'z': 'w'}, {'a': 'b', 'penalty_strength': 'old'}])
    ss = dimod.SampleSet.from_samples((arr, labels), energy=energies, vartype=bqm.vartype, info=dict(info), num_occurrences=occ,
                                      sort_labels=False, **vectors)
    return ss, labels, rows, dict(info)


class RecordChild(dimod.Sampler):
    parameters = {}
    properties = {}

    def __init__(self, make):
        self.make = make; self.bqm = None; self.out = None

    def sample(self, bqm, **kw):
        self.bqm = bqm
        self.out = self.make(bqm)
        return self.out[0]


def hoc_record_case(ctx, r, vt, raw, rawf, pnorm, pvars, src0, raw_text, lines, checks, mode=None):
    """the WHOLE sample set `HigherOrderComposite.sample_poly` / `polymorph_response` returns for a child sample set with
    permuted columns, junk energies, num_occurrences, extra vectors and info: variables and their order, records in the
    child's order, energies, penalty_satisfaction, vectors carried over, field names, info, vartype; and the exceptions
    for responses that lack a variable or already have a `penalty_satisfaction` field"""
    import inspect
    from dimod.reference.composites.higherordercomposites import polymorph_response
    site = 'HigherOrderComposite.sample_poly'
    dom = (0, 1) if vt == 'BINARY' else (-1, 1)
    mode = mode or r.choice(RECORD_MODES)
    direct = mode == 'direct'
    strength = r.choice([F(1, 2), F(1), F(2), F(3), F(1), F(2), F(0), F(-1)])
    keep = r.random() < .5; discard = r.random() < .5
    nrows = r.randint(0, 6); rseed = r.randrange(2 ** 31); junk = r.random() < .6
    cls = f"record: {mode} keep={int(keep)} discard={int(discard)}"
    # entry point: sample_poly, or sample_hising (SPIN) / sample_hubo (BINARY) with the same terms as h, J / H dicts
    entry = 'poly' if direct or r.random() < .6 else ('hising' if vt == 'SPIN' else 'hubo')
    h, J, H = {}, {}, {}
    if entry == 'hubo':
        for t, b in rawf:
            H[t] = H.get(t, 0.0) + b
        raw_text = ';'.join('&'.join(lab(v) for v in t) + '=' + rat(b) for t, b in H.items()) or '-'
    elif entry == 'hising':
        for t, b in rawf:
            if len(t) == 1:
                h[t[0]] = h.get(t[0], 0.0) + b
            else:
                J[t] = J.get(t, 0.0) + b
        raw_text = ';'.join([lab(v) + '=' + rat(b) for v, b in h.items()] + ['&'.join(lab(v) for v in t) + '=' + rat(b) for t, b in J.items()]) or '-'
    src = (src0 + 'import random, numpy as np\nfrom dimod.reference.composites.higherordercomposites import polymorph_response\n'
           + inspect.getsource(hoc_rows) + inspect.getsource(record_child_set)
           + f'strength, keep, discard, mode, nrows, rseed, junk, direct = {float(strength)!r}, {keep}, {discard}, {mode!r}, {nrows}, {rseed}, {junk}, {direct}\n'
           'class Child(dimod.Sampler):\n'
           '    parameters = {}; properties = {}\n'
           '    def sample(self, bqm, **kw):\n'
           '        self.bqm = bqm; self.out = record_child_set(bqm, vs, dom, mode, nrows, rseed, junk); return self.out[0]\n'
           'child = Child()\n'
           'if direct:\n'
           '    bqm = dimod.make_quadratic(poly, strength, vt); resp = child.sample(bqm)\n'
           '    ss = polymorph_response(resp, poly, bqm, keep_penalty_variables=keep, discard_unsatisfied=discard)\n'
           f'entry, h, J, H = {entry!r}, {h!r}, {J!r}, {H!r}\n'
           'kw = dict(penalty_strength=strength, keep_penalty_variables=keep, discard_unsatisfied=discard)\n'
           'if not direct:\n'
           '    sampler = dimod.HigherOrderComposite(child)\n'
           '    ss = sampler.sample_hising(h, J, **kw) if entry == "hising" else sampler.sample_hubo(H, **kw) if entry == "hubo" else sampler.sample_poly(poly, **kw)\n'
           'cs, labels, rows, info0 = child.out\n'
           'red = child.bqm.info["reduction"]\n'
           'ok = lambda row: all(row[u] * row[v] == row[d["product"]] for (u, v), d in red.items())\n'
           'idx = [i for i, row in enumerate(rows) if ok(row) or not discard]\n'
           'rec = ss.record\n'
           'assert len(rec) == len(idx), ("records kept", len(rec), len(idx))\n'
           'assert (list(ss.variables) == labels) if keep else (sorted(map(repr, ss.variables)) == sorted(map(repr, vs))), ("variables", list(ss.variables))\n'
           'others = [n for n in cs.record.dtype.names if n not in ("sample", "energy")]\n'
           'assert list(rec.dtype.names) == ["sample", "energy", "penalty_satisfaction"] + others, rec.dtype.names\n'
           'for k, i in enumerate(idx):\n'
           '    row = rows[i]\n'
           '    assert dict(zip(ss.variables, map(int, rec.sample[k]))) == {v: row[v] for v in ss.variables}, ("sample", k)\n'
           '    assert F(float(rec.energy[k])) == pe(P, row), ("energy", k, rec.energy[k], pe(P, row))\n'
           '    assert int(rec.penalty_satisfaction[k]) == (1 if discard else int(ok(row))), ("penalty_satisfaction", k)\n'
           '    for n in others: assert rec[n][k] == cs.record[n][i], ("vector", n, k)\n'
           'want = dict(info0); want["reduction"] = red\n'
           'if not direct: want["penalty_strength"] = strength\n'
           'assert dict(ss.info) == want, ("info", ss.info)\n'
           'assert ss.vartype is cs.vartype\n')
    child = RecordChild(lambda bqm: record_child_set(bqm, pvars, dom, mode, nrows, rseed, junk))
    poly = BinaryPolynomial(rawf, vt)
    err = None
    ss = None
    try:
        with warnings.catch_warnings():
            warnings.simplefilter('ignore')
            if direct:
                bqm = dimod.make_quadratic(poly, float(strength), vt)
                resp = child.sample(bqm)
                ss = polymorph_response(resp, poly, bqm, keep_penalty_variables=keep, discard_unsatisfied=discard)
            else:
                sampler = dimod.HigherOrderComposite(child)
                kw = dict(penalty_strength=float(strength), keep_penalty_variables=keep, discard_unsatisfied=discard)
                ss = (sampler.sample_hising(h, J, **kw) if entry == 'hising' else sampler.sample_hubo(H, **kw) if entry == 'hubo'
                      else sampler.sample_poly(poly, **kw))
    except Exception as e:  # noqa
        err = e
    if child.out is None:
        ctx.fail('property', site, cls + ': raises', f'{type(err).__name__}: {err} on {raw!r} before the child was called', repro=src)
        return
    cs, labels, rows, info0 = child.out
    red = child.bqm.info['reduction']
    cons_q = [((u, v), d['product']) for (u, v), d in red.items()]
    names = [n for n in cs.record.dtype.names if n not in ('sample', 'energy')]
    needed = {w for (u, v), p in cons_q for w in (u, v, p)} | set(pvars)
    wellformed = needed <= set(labels) and 'penalty_satisfaction' not in names
    ctx.tick(f'hoc:record:{mode}:keep={int(keep)}:discard={int(discard)}')
    ctx.tick(f'hoc:entry:sample_{entry}' if not direct else 'hoc:entry:polymorph_response')
    if strength <= 0:
        ctx.tick('hoc:record:penalty_strength:zero' if strength == 0 else 'hoc:record:penalty_strength:negative')
    ctx.case(('hocr', vt, entry, raw_text, strength, keep, discard, mode, nrows, rseed, junk), nontrivial=bool(cons_q) and len(rows) > 0 or mode != 'ok')
    ok = lambda row: all(row[u] * row[v] == row[p] for (u, v), p in cons_q)   # noqa: E731
    bad = False
    if err is not None:
        ctx.tick(f'hoc:record:raises:{type(err).__name__}')
        if wellformed:
            ctx.fail('property', site, 'whole sample set: raises on a well-formed response', f'{raw!r} {cls}: {type(err).__name__}: {err}; child variables {labels!r} fields {names!r}', repro=src)
            return
        want = 'err ' + type(err).__name__ + (':dup' if 'more than once' in str(err) else '')
        order = sorted(pvars, key=repr)
    else:
        idx = [i for i, row in enumerate(rows) if ok(row) or not discard]
        rec = ss.record

        def fail(what, detail):
            ctx.fail('property', site, 'whole sample set: ' + what, f'{raw!r} {cls}: {detail}; child variables {labels!r}, rows {rows!r}, reduction {cons_q!r}', repro=src)
        if wellformed:
            outv = list(ss.variables)
            if len(rec) != len(idx):
                bad = True; fail('records kept', f'{len(rows)} child records, {len(idx)} to keep, {len(rec)} returned')
            elif (outv != labels) if keep else (len(outv) != len(pvars) or set(outv) != set(pvars)):
                bad = True; fail('variables', f'returned variables {outv!r}, polynomial variables {pvars!r}')
            elif list(rec.dtype.names) != ['sample', 'energy', 'penalty_satisfaction'] + names:
                bad = True; fail('field names', f'fields {rec.dtype.names!r}, child fields {cs.record.dtype.names!r}')
            else:
                for k, i in enumerate(idx):
                    row = rows[i]
                    if dict(zip(outv, map(int, rec.sample[k]))) != {v: row[v] for v in outv}:
                        bad = True; fail('record order / sample values', f'record {k} is {dict(zip(outv, map(int, rec.sample[k])))!r}, child record {i} is {row!r}'); break
                    if fr(rec.energy[k]) != pe(pnorm, row):
                        bad = True; fail('energy of a returned record', f'record {k} = child record {i} {row!r}: energy {rec.energy[k]}, polynomial {pe(pnorm, row)}'); break
                    if int(rec.penalty_satisfaction[k]) != (1 if discard else int(ok(row))):
                        bad = True; fail('penalty_satisfaction', f'record {k} = child record {i} {row!r}: flag {rec.penalty_satisfaction[k]}, all products hold: {ok(row)}'); break
                    wrongv = [n for n in names if rec[n][k] != cs.record[n][i]]
                    if wrongv:
                        bad = True; fail('vectors carried over', f'record {k} = child record {i}: field {wrongv[0]} is {rec[wrongv[0]][k]}, the child had {cs.record[wrongv[0]][i]}'); break
            want_info = dict(info0); want_info['reduction'] = red
            if not direct:
                want_info['penalty_strength'] = float(strength)
            if not bad and (dict(ss.info) != want_info or ss.vartype is not cs.vartype):
                bad = True; fail('info / vartype', f'info {dict(ss.info)!r} expected {want_info!r}; vartype {ss.vartype} child {cs.vartype}')
        order = list(ss.variables) if not keep else sorted(pvars, key=repr)

        def ival(v):
            return 'o.' + v.encode().hex() if isinstance(v, str) else 'r.' + ','.join(f'{lab(a)}~{lab(b)}>{lab(d["product"])}' for (a, b), d in v.items()) if isinstance(v, dict) else 's.' + rat(v)
        want = ('ok ' + (','.join(lab(v) for v in ss.variables) or '-') + '|' + ','.join(n.encode().hex() for n in rec.dtype.names) + '|' + str(rec.dtype['penalty_satisfaction'])
                + '|' + ss.vartype.name + '|' + '&'.join(k.encode().hex() + '=' + ival(v) for k, v in ss.info.items()) + '|'
                + ';'.join(f"{','.join(rat(int(x)) for x in rec.sample[k])}:{rat(fr(rec.energy[k]))}:{int(rec.penalty_satisfaction[k])}:{','.join(rat(int(rec[n][k])) for n in names)}" for k in range(len(rec))))
    ch = ','.join(f'{lab(u)}~{lab(v)}>{lab(p)}' for (u, v), p in cons_q) or '-'
    info_txt = '&'.join(k.encode().hex() + '=' + v.encode().hex() for k, v in info0.items()) or '-'
    rows_txt = ';'.join(f"{','.join(rat(int(x)) for x in cs.record.sample[i])}:{rat(fr(cs.record.energy[i]))}:{','.join(rat(int(cs.record[n][i])) for n in names)}" for i in range(len(rows))) or '-'
    lines.append(f"hocr {vt} {raw_text} {','.join(lab(v) for v in order) or '-'} {ch} {'-' if direct else rat(strength)} {int(keep)} {int(discard)} {cs.vartype.name} "
                 f"{','.join(lab(v) for v in labels) or '-'} {','.join(n.encode().hex() for n in names) or '-'} {info_txt} {rows_txt}")
    checks.append((site + ' vs Red.samplePolyRecord / Red.polymorphRecord', cls, want, src, bad))


def strength_nonpos_case(ctx, r, vt, raw, pnorm, pvars, R, cons_o, src0, raw_text, lines, checks, sgn):
    """`strength <= 0` is accepted by `make_quadratic` (no validation; the docstring only warns about insufficient strength):
    recorded precondition.  Checked: exactly the proved behaviour — strength 0: the model equals the reduced polynomial
    everywhere; strength < 0: the penalty is <= 0 everywhere, <= strength on inconsistent assignments (any auxiliaries),
    and 0 for suitable auxiliaries on consistent ones.  Deviations are model/code disagreements, not property failures."""
    site = 'make_quadratic'
    dom = (0, 1) if vt == 'BINARY' else (-1, 1)
    strength = F(0) if sgn == 0 else r.choice([F(-1), F(-1, 2), F(-2)])
    cls = 'strength == 0' if sgn == 0 else 'strength < 0'
    srcq = (src0 + f'strength = {float(strength)!r}\nbqm = dimod.make_quadratic(poly, strength, vt)\n'
            'def en(x): return F(bqm.offset) + sum(F(bqm.get_linear(v))*x[v] for v in bqm.variables) + sum(F(q)*x[u]*x[v] for u, v, q in bqm.iter_quadratic())\n'
            'info = bqm.info["reduction"]\nprods = [d["product"] for d in info.values()]; auxs = [d["auxiliary"] for d in info.values() if "auxiliary" in d]\n'
            'red, cons = dimod.reduce_binary_polynomial(poly)\nR = {}\nfor tm, b in red: R[tm] = R.get(tm, 0) + F(b)\n'
            'allp = vs + prods\nfor t in itertools.product(dom, repeat=len(allp)):\n    x = dict(zip(allp, t))\n'
            '    ok = all(x[d["product"]] == x[u]*x[v] for (u, v), d in info.items())\n'
            '    pens = [en({**x, **dict(zip(auxs, a))}) - pe(R, x) for a in itertools.product(dom, repeat=len(auxs))]\n'
            '    assert max(pens) <= 0 and (max(pens) == 0 if ok else max(pens) <= F(strength)), (x, pens)\n')
    try:
        bqm = dimod.make_quadratic(BinaryPolynomial([(t, float(b)) for t, b in raw], vt), float(strength), vt)
    except Exception as e:  # noqa
        ctx.fail('correspondence', site, cls + ': raises', f'{type(e).__name__}: {e} on {raw!r} (the model accepts any strength, as the code did)', repro=srcq)
        return
    info = bqm.info['reduction']
    cons_q = [((u, v), d['product']) for (u, v), d in info.items()]
    auxs = [d['auxiliary'] for d in info.values() if 'auxiliary' in d]
    prods_q = [p for _, p in cons_q]
    ctx.tick('strength:zero' if sgn == 0 else 'strength:negative')
    ctx.case(('mq0', vt, strength, raw_text), nontrivial=bool(cons_q))
    c = coef(bqm)
    bad = False
    if cons_q == cons_o and len(pvars) + len(prods_q) + len(auxs) <= 11:
        for tv in itertools.product(dom, repeat=len(pvars) + len(prods_q)):
            x = dict(zip(pvars + prods_q, tv))
            consistent = all(x[p] == x[u] * x[v] for (u, v), p in cons_q)
            er = pe(R, x)
            pens = [energy(c, {**x, **dict(zip(auxs, a))}) - er for a in itertools.product(dom, repeat=len(auxs))]
            if sgn == 0:
                wrong = any(p != 0 for p in pens)
            else:
                wrong = max(pens) > 0 or (max(pens) != 0 if consistent else max(pens) > strength)
            if wrong:
                bad = True
                ctx.fail('correspondence', site, cls + ': penalty', f'{raw!r} strength {strength}: at {x!r} the penalties over the auxiliaries are {sorted(set(pens))!r} (products consistent: {consistent})', repro=srcq)
                break
        ctx.tick(('strength:zero' if sgn == 0 else 'strength:negative') + ':enumerated')
    lines.append(f'mq {vt} {rat(strength)} {raw_text} ' + (','.join(f'{lab(u)}~{lab(v)}>{lab(p)}' for (u, v), p in cons_q) or '-'))
    checks.append((site + ' vs Red.makeQuadratic', cls, 'ok ' + canon_bqm(bqm) + '|' + ','.join(lab(a) for a in auxs), srcq, bad))


def hoc_case(ctx, r, vt, raw, rawf, poly, pnorm, pvars, src0):
    polymorph_corr(ctx, r, vt, raw, poly)
    keep = r.random() < .5
    discard = r.random() < .5
    strength = r.choice([1.0, 2.0, 0.25, 4.0])
    site = 'HigherOrderComposite.sample_poly'
    src = (src0 + f'ss = dimod.HigherOrderComposite(dimod.ExactSolver()).sample_poly(poly, penalty_strength={strength!r}, keep_penalty_variables={keep}, discard_unsatisfied={discard})\n'
           'for s, e in ss.data(["sample", "energy"]):\n'
           '    assert F(float(e)) == pe(P, s), (dict(s), e, pe(P, s))\n'
           'red = ss.info["reduction"]\n'
           + ('for s in ss.samples():\n    assert all(s[u]*s[v] == s[d["product"]] for (u, v), d in red.items())\n' if keep and discard else ''))
    try:
        with warnings.catch_warnings():
            warnings.simplefilter('ignore')
            ss = dimod.HigherOrderComposite(dimod.ExactSolver()).sample_poly(poly, penalty_strength=strength, keep_penalty_variables=keep, discard_unsatisfied=discard)
    except Exception as e:  # noqa
        cls = 'variable-free polynomial, discard_unsatisfied=True' if not pvars and discard else f'raises (keep={keep}, discard={discard})'
        ctx.fail('property', site, cls, f'{type(e).__name__}: {e} on {raw!r}', repro=src)
        return
    ctx.tick(f'hoc:keep={int(keep)}:discard={int(discard)}'); ctx.case(('hoc', vt, tuple(map(repr, raw)), keep, discard, strength), nontrivial=len(ss) > 0)
    red = ss.info.get('reduction', {})
    cls = 'keep_penalty_variables=True' if keep else 'keep_penalty_variables=False'
    if not set(ss.variables) >= set(pvars) or (not keep and set(ss.variables) != set(pvars)):
        ctx.fail('property', site, cls + ', columns', f'{raw!r}: columns {list(ss.variables)!r} for polynomial variables {pvars!r}', repro=src)
        return
    nrows = 0
    for s, e in ss.data(['sample', 'energy']):
        nrows += 1
        if fr(e) != pe(pnorm, s):
            ctx.fail('property', site, cls, f'{raw!r} (discard={discard}): row {dict(s)!r} reported energy {e} but polynomial energy {pe(pnorm, s)}', repro=src)
            return
        if keep and discard and not all(s[u] * s[v] == s[d['product']] for (u, v), d in red.items()):
            ctx.fail('property', site, cls + ', discard_unsatisfied=True', f'{raw!r}: kept row {dict(s)!r} violates a product constraint', repro=src)
            return


def polymorph_corr(ctx, r, vt, raw, poly):
    """`polymorph_response` row by row vs `Red.polymorphRow` / `Red.penaltySatisfied`"""
    from dimod.reference.composites.higherordercomposites import polymorph_response
    keep = r.random() < .5
    bqm = dimod.make_quadratic(poly, 2.0, vt)
    resp = dimod.ExactSolver().sample(bqm)
    if len(resp) == 0 or len(resp.variables) > 9:
        return
    rows = [dict(d.sample) for d in resp.data(['sample'], sorted_by=None)]
    out = polymorph_response(resp, poly, bqm, penalty_strength=2.0, keep_penalty_variables=keep, discard_unsatisfied=False)
    red = ','.join(f'{lab(u)}~{lab(v)}>{lab(d["product"])}' for (u, v), d in bqm.info['reduction'].items()) or '-'
    raw_text = ';'.join('&'.join(lab(v) for v in t) + '=' + rat(b) for t, b in raw) or '-'
    rv = ','.join(lab(v) for v in resp.variables) or '-'
    outs = list(out.data(['sample', 'energy', 'penalty_satisfaction'], sorted_by=None))
    for k in r.sample(range(len(rows)), min(4, len(rows))):
        row = rows[k]
        s, e, sat = outs[k]
        cols = ','.join(sorted(f'{lab(v)}={rat(int(val))}' for v, val in dict(s).items()))
        ctx._hoc_lines.append(f"hoc {vt} {raw_text} {int(keep)} {rv} {','.join(f'{lab(v)}={rat(int(val))}' for v, val in row.items()) or '-'} {red}")
        ctx._hoc_checks.append(('polymorph_response vs Red.polymorphRow', f'keep={keep}', f'ok {cols}|{rat(fr(e))}|{int(bool(sat))}', None, False))
    ctx.tick('polymorph_rows')


# ------------------------------------------------------------------------------------ histories on ONE BinaryPolynomial object
# reduce -> mutate (biases only / add / delete terms / relabel / MutableMapping mixins) -> reduce the SAME object again, with every
# reduction entry point; after every step every read accessor of the polynomial against an independent mirror (exact Fractions)

HIST_LIB = r"""
class Rec(dimod.Sampler):
    parameters = {}; properties = {}
    def __init__(self): self.bqm = None
    def sample(self, bqm, **kw):
        self.bqm = bqm.copy(); self.bqm.info = {'reduction': dict(bqm.info['reduction'])}; return dimod.ExactSolver().sample(bqm)
def en(bqm, x):
    return F(bqm.offset) + sum(F(bqm.get_linear(v)) * x[v] for v in bqm.variables) + sum(F(q) * x[u] * x[v] for u, v, q in bqm.iter_quadratic())
def pvars(P, extra=()):
    return sorted({v for t in P for v in t} | set(extra), key=repr)
def conv(P, binary):
    # the same function in the other vartype, from the definition: x = (1 + s)/2  resp.  s = 2x - 1, product expanded over all subsets
    Q = {}
    for t, b in P.items():
        t = sorted(t, key=repr)
        for k in range(len(t) + 1):
            for S in itertools.combinations(t, k):
                c = b / F(2) ** len(t) if binary else b * F(2) ** len(S) * (-1) ** (len(t) - len(S))
                Q[frozenset(S)] = Q.get(frozenset(S), F(0)) + c
    return Q
def reads(poly, P):
    # every read accessor of the polynomial object against the mirror P
    assert {t: F(b) for t, b in poly.items()} == P, ("items", dict(poly.items()), P)
    assert len(poly) == len(P) and set(poly) == set(P) and set(poly.keys()) == set(P), "len / iteration"
    assert poly.variables == {v for t in P for v in t}, ("variables", poly.variables)
    assert poly.degree == max([len(t) for t in P], default=0), ("degree", poly.degree)
    assert all(tuple(t) in poly and F(poly[tuple(t)]) == b for t, b in P.items()), "contains / getitem"
    vs = pvars(P); dom = (0, 1) if poly.vartype is dimod.BINARY else (-1, 1)
    for k in range(3 if vs else 0):
        x = {v: dom[(i * 7 + k * 3 + (i * k) % 2) % 2] for i, v in enumerate(vs)}
        assert F(float(poly.energy(x))) == pe(P, x), ("energy", x, poly.energy(x), pe(P, x))
        assert F(float(dimod.poly_energy(x, poly))) == pe(P, x), ("poly_energy", x, dimod.poly_energy(x, poly), pe(P, x))
        assert [F(float(e)) for e in dimod.poly_energies([x, x], poly)] == [pe(P, x)] * 2, ("poly_energies", x)
    assert poly == dimod.BinaryPolynomial({t: float(b) for t, b in P.items()}, poly.vartype), "__eq__"
    # objects reached from it: copy, the conversions, the hising / hubo forms (each must reflect the CURRENT terms)
    cp = poly.copy()
    assert cp is not poly and cp == poly and not (cp != poly) and {t: F(b) for t, b in cp.items()} == P, ("copy", dict(cp.items()))
    assert isinstance(repr(poly), str)
    binary = poly.vartype is dimod.BINARY
    other = poly.to_spin() if binary else poly.to_binary()
    keep = poly.to_binary() if binary else poly.to_spin()
    assert other.vartype is (dimod.SPIN if binary else dimod.BINARY) and keep.vartype is poly.vartype and keep == poly, "to_spin / to_binary vartype"
    Q = conv(P, binary)
    assert {t: F(b) for t, b in other.items() if b} == {t: b for t, b in Q.items() if b}, ("to_spin / to_binary", dict(other.items()), Q)
    h, J, off = poly.to_hising()
    assert dimod.BinaryPolynomial.from_hising(h, J, off) == (other if binary else poly), ("to_hising", h, J, off)
    H, off2 = poly.to_hubo()
    assert dimod.BinaryPolynomial.from_hubo(H, off2) == (poly if binary else other), ("to_hubo", H, off2)
def exact_red(red, cons, P):
    vs = pvars(P); dom_ = DOM
    assert all(len(t) <= 2 for t, _ in red), "degree > 2"
    prods = [p for _, p in cons]
    assert len(set(prods)) == len(prods) and not (set(prods) & set(vs)), ("product variables not fresh", prods)
    R = {}
    for tm, b in red: R[tm] = R.get(tm, 0) + F(b)
    for t in itertools.product(dom_, repeat=len(vs)):
        x = dict(zip(vs, t))
        for pair, p in cons:
            u, v = pair; x[p] = x[u] * x[v]
        assert pe(R, x) == pe(P, x), ("reduced energy on a consistent assignment", x, pe(R, x), pe(P, x))
def exact_bqm(bqm, P, given=None, dom=None):
    # min over the spin auxiliaries == polynomial (+ the given model) at every consistent assignment
    info = bqm.info["reduction"]; dom_ = dom or DOM
    prods = [d["product"] for d in info.values()]; auxs = [d["auxiliary"] for d in info.values() if "auxiliary" in d]
    vs = pvars(P, given.variables if given is not None else ())
    assert set(bqm.variables) >= set(vs), ("a variable is missing from the quadratic model", set(vs) - set(bqm.variables))
    assert len(set(prods + auxs + vs)) == len(prods) + len(auxs) + len(vs), "introduced variables are not distinct / fresh"
    assert set(bqm.variables) == set(prods + auxs + vs), ("unexpected variables", list(bqm.variables))
    for t in itertools.product(dom_, repeat=len(vs)):
        x = dict(zip(vs, t))
        for (u, v), d in info.items(): x[d["product"]] = x[u] * x[v]
        m = min(en(bqm, {**x, **dict(zip(auxs, a))}) for a in itertools.product(dom_, repeat=len(auxs)))
        want = pe(P, x) + (en(given, x) if given is not None else 0)
        assert m == want, ("model energy (min over auxiliaries) on a consistent assignment", x, m, want)
def exact_cqm(cqm, P):
    vs = pvars(P); dom_ = DOM
    allv = list(cqm.variables)
    assert set(allv) >= set(vs), ("a variable is missing from the CQM", set(vs) - set(allv))
    nfeas = 0
    for t in itertools.product(dom_, repeat=len(allv)):
        x = dict(zip(allv, t))
        if all(F(float(c.lhs.energy(x))) == F(float(c.rhs)) for c in cqm.constraints.values()):
            nfeas += 1
            assert F(float(cqm.objective.energy(x))) == pe(P, x), ("objective on a feasible assignment", x, cqm.objective.energy(x), pe(P, x))
    assert nfeas == len(dom_) ** len(vs), ("feasible assignments are not exactly the consistent ones", nfeas)
def exact_hoc(ss, child, P):
    for s, e in ss.data(["sample", "energy"]):
        assert F(float(e)) == pe(P, s), ("reported energy", dict(s), e, pe(P, s))
    exact_bqm(child.bqm, P)
"""


def _plit(ref):
    return 'P = {' + ', '.join(f'frozenset({sorted(t, key=repr)!r}): F({b.numerator}, {b.denominator})' for t, b in ref.items()) + '}'


HIST_BIAS_ONLY = ('scale', 'scale-ignored', 'normalize', 'set', 'iadd', 'update-existing', 'setdefault-existing', 'none')


def history_case(ctx, r, lines, checks, directed=None):
    if directed:
        vt, raw = directed
    else:
        vt, raw = gen_poly(r)
        raw = [(t, b) for t, b in raw if len(set(t)) <= 4][:5]
        if not any(len(set(t)) > 2 for t, _ in raw):
            vs0 = sorted({v for t, _ in raw for v in t}, key=repr)[:4]
            pool = (vs0 + [v for v in ALPHA if v not in vs0])[:4]
            raw.append((tuple(pool[:r.choice([3, 4])]), F(r.randint(1, 8), 4)))
    if len({v for t, _ in raw for v in t}) > 6:
        return
    dom = (0, 1) if vt == 'BINARY' else (-1, 1)
    rawf = [(t, float(b)) for t, b in raw]
    env = {}
    pre = HDR + f'DOM = {dom!r}\n' + HIST_LIB
    exec(pre, env)
    stmts = [f'vt, raw = {vt!r}, {rawf!r}', 'poly = dimod.BinaryPolynomial(raw, vt)']
    exec('\n'.join(stmts), env)
    ref = dict(norm(raw, vt))
    fresh = ((f'n{i}' if i % 3 else 20 + i) for i in itertools.count())
    state = {'last': 'none', 'since': [], 'nred': 0, 'ok': True}
    tl = lambda t: '&'.join(lab(v) for v in t)   # noqa: E731
    ptext = lambda items: ';'.join(tl(t) + '=' + rat(fr(b)) for t, b in items) or '-'   # noqa: E731
    hist = {'base': ptext(rawf), 'ops': []}      # the object model `Red.objectAfter`: the terms it started from and the mutations since
    igt = lambda ig: '|'.join(tl(t) for t in ig) if ig else '-'   # noqa: E731

    def fail(site, cls, what, check):
        state['ok'] = False
        ctx.fail('property', site, cls, what[:1500], repro=pre + '\n'.join(stmts) + '\n' + _plit(ref) + '\n' + check + '\n')

    def spell(t):
        t = list(t); r.shuffle(t)
        k = r.random()
        return repr(tuple(t)) if k < .5 else repr(t) if k < .7 else f'frozenset({t!r})' if k < .9 else (f'set({t!r})' if t else 'frozenset()')

    def do(stmt):
        stmts.append(stmt)
        with warnings.catch_warnings():
            warnings.simplefilter('ignore')
            exec(stmt, env)

    def mutate():
        poly = env['poly']
        terms = list(ref)
        kinds = ['scale', 'scale', 'scale-ignored', 'normalize', 'set', 'set', 'iadd', 'update-existing', 'setdefault-existing',
                 'add', 'del', 'relabel', 'pop', 'update-new', 'setdefault-new', 'popitem', 'relabel-swap']
        kind = r.choice(kinds)
        if not terms and kind not in ('add', 'update-new', 'setdefault-new'):
            kind = 'add'
        nonconst = [t for t in terms if t]
        if kind == 'scale':
            c = r.choice([2, -1, .5, .25, -2, 4, 1.5, -.5] + ([0] if r.random() < .15 else []))
            do(f'poly.scale({c!r})')
            for t in terms: ref[t] *= F(c)
            hist['ops'].append(f'scale@{rat(F(c))}@-')
        elif kind == 'scale-ignored':
            ig = r.sample(terms, r.randint(0, len(terms)))
            c = r.choice([2, -1, .5, -2, 4])
            do(f'poly.scale({c!r}, ignored_terms=[{", ".join(spell(t) for t in ig)}])')
            for t in terms:
                if t not in ig: ref[t] *= F(c)
            hist['ops'].append(f'scale@{rat(F(c))}@{igt(ig)}' if not (ig and any(not t for t in ig)) else None)
        elif kind == 'normalize':
            ig = r.sample(terms, r.randint(0, min(1, len(terms)))) if r.random() < .4 else []
            lin = [abs(ref[t]) for t in terms if len(t) == 1 and t not in ig]; hi = [abs(ref[t]) for t in terms if len(t) > 1 and t not in ig]
            Ml, Mh = max(lin, default=F(0)), max(hi, default=F(0))
            if max(Ml, Mh) == 0:
                kind = 'none'
            else:
                c = F(r.choice([1, 2, 4, 1, F(1, 2)]))
                if r.random() < .5 and Ml and Mh:
                    c2 = F(r.choice([1, 2, F(1, 2)]))
                    R1, R2 = Ml * c, Mh * c2            # inv_scalar = max(1/c, 1/c2): a power of two, the division is exact
                    do(f'poly.normalize({float(R1)!r}, poly_range={float(R2)!r}' + (f', ignored_terms=[{", ".join(spell(t) for t in ig)}]' if ig else '') + ')')
                    k = min(c, c2)
                    hist['ops'].append(f'norm@{rat(-R1)},{rat(R1)}@{rat(-R2)},{rat(R2)}@{igt(ig)}' if not (ig and any(not t for t in ig)) else None)
                else:
                    R1 = max(Ml, Mh) * c
                    rng_ = repr(float(R1)) if r.random() < .6 else repr((-float(R1), float(R1)))
                    do(f'poly.normalize({rng_}' + (f', ignored_terms=[{", ".join(spell(t) for t in ig)}]' if ig else '') + ')')
                    k = c
                    hist['ops'].append(f'norm@{rat(-R1)},{rat(R1)}@{rat(-R1)},{rat(R1)}@{igt(ig)}' if not (ig and any(not t for t in ig)) else None)
                # definition: every non-ignored term is multiplied by the largest factor that fits the ranges
                for t in terms:
                    if t not in ig: ref[t] *= k
        elif kind == 'set':
            t = r.choice(terms); b = F(r.randint(-16, 16), 4)
            do(f'poly[{spell(t)}] = {float(b)!r}'); ref[t] = b
            hist['ops'].append(f'set@{tl(t)}@{rat(b)}')
        elif kind == 'iadd':
            t = r.choice(terms); b = F(r.randint(-8, 8), 4)
            do(f'poly[{spell(t)}] += {float(b)!r}'); ref[t] += b
            hist['ops'].append(f'iadd@{tl(t)}@{rat(b)}')
        elif kind == 'update-existing':
            ts = r.sample(terms, r.randint(1, len(terms))); bs = [F(r.randint(-16, 16), 4) for _ in ts]
            do('poly.update({' + ', '.join(f'{tuple(sorted(t, key=repr))!r}: {float(b)!r}' for t, b in zip(ts, bs)) + '})')
            for t, b in zip(ts, bs): ref[t] = b; hist['ops'].append(f'set@{tl(t)}@{rat(b)}')
        elif kind == 'setdefault-existing':
            t = r.choice(terms)
            do(f'poly.setdefault({tuple(t)!r}, 7.0)')
        elif kind in ('add', 'update-new', 'setdefault-new'):
            vs = sorted({v for t in ref for v in t}, key=repr)
            pool = vs + ([next(fresh)] if (r.random() < .4 and len(vs) < 6) or len(vs) < 3 else [])
            for _ in range(20):
                t = frozenset(r.sample(pool, min(len(pool), r.choice([1, 2, 3, 3, 4]))))
                if t not in ref:
                    break
            else:
                t = frozenset()
            if t in ref:
                kind = 'none'
            else:
                b = F(r.randint(-16, 16), 4)
                if kind == 'add':
                    do(f'poly[{spell(t)}] = {float(b)!r}')
                elif kind == 'update-new':
                    do(f'poly.update({{{tuple(sorted(t, key=repr))!r}: {float(b)!r}}})')
                else:
                    do(f'poly.setdefault({tuple(sorted(t, key=repr))!r}, {float(b)!r})')
                ref[t] = b
                hist['ops'].append(f'set@{tl(t)}@{rat(b)}')
        elif kind == 'del':
            t = r.choice(terms)
            do(f'del poly[{spell(t)}]'); del ref[t]
            hist['ops'].append(f'del@{tl(t)}')
        elif kind == 'pop':
            t = r.choice(terms)
            do(f'poly.pop({tuple(t)!r})'); del ref[t]
            hist['ops'].append(f'del@{tl(t)}')
        elif kind == 'popitem':
            do('popped = poly.popitem()'); del ref[env['popped'][0]]
            hist['ops'].append('popitem')
        elif kind in ('relabel', 'relabel-swap'):
            vs = sorted({v for t in ref for v in t}, key=repr)
            if not vs or (kind == 'relabel-swap' and len(vs) < 2):
                kind = 'none'
            else:
                if kind == 'relabel-swap':
                    a, b = r.sample(vs, 2); mp = {a: b, b: a}
                    if r.random() < .5 and len(vs) > 2:
                        c = r.choice([v for v in vs if v not in (a, b)]); mp = {a: b, b: c, c: a}
                else:
                    mp = {v: next(fresh) for v in r.sample(vs, r.randint(1, min(2, len(vs))))}
                do(f'poly.relabel_variables({mp!r})')
                new = {frozenset(mp.get(v, v) for v in t): b for t, b in ref.items()}
                ref.clear(); ref.update(new)
                # conflict-free mappings: Red.safeRelabel / relabelStep; a swap / cycle goes through resolve_label_conflict: Red.relabelConflict
                conflict = any(v in set(mp.values()) for v in mp)        # the code's own test in iter_safe_relabels
                hist['ops'].append(('relabelvia@' if conflict else 'relabel@') + ','.join(f'{lab(a)}>{lab(b)}' for a, b in mp.items()))
        state['last'] = kind; state['since'].append(kind)
        ctx.tick(f'history:mut:{kind}')
        try:
            env['reads'](env['poly'], ref)
        except AssertionError as e:
            fail('BinaryPolynomial', f'state of the object after {kind}', f'{vt} {raw!r} after {stmts[2:]!r}: {e}', 'reads(poly, P)')
        except Exception as e:  # noqa
            fail('BinaryPolynomial', f'read accessor raises after {kind}', f'{vt} {raw!r} after {stmts[2:]!r}: {type(e).__name__}: {e}', 'reads(poly, P)')
        if None in hist['ops']:
            hist['base'], hist['ops'] = ptext(list(env['poly'].items())), []
        # refusals: a key that is not there
        if state['ok'] and r.random() < .12:
            vs = sorted({v for t in ref for v in t}, key=repr) + ['zz']
            t = frozenset(r.sample(vs, min(len(vs), r.randint(1, 3))) + ['zz'])
            how = r.choice(['del', 'iadd', 'pop'] + (['relabel-same', 'relabel-existing'] if len(vs) >= 3 else []))
            if how.startswith('relabel'):
                a, b = r.sample(vs[:-1], 2)
                mpx = {a: 'q9', b: 'q9'} if how == 'relabel-same' else {a: b}
            stmt = {'del': f'del poly[{tuple(t)!r}]', 'iadd': f'poly[{tuple(t)!r}] += 1.0', 'pop': f'poly.pop({tuple(t)!r})'}.get(how) or f'poly.relabel_variables({mpx!r})'
            try:
                exec(stmt, env); raised = None
            except Exception as e:  # noqa
                raised = type(e).__name__
            ctx.tick(f'history:refusal:{how}')
            bad_op = (('iadd@' + tl(t) + '@1') if how == 'iadd' else 'relabel@' + ','.join(f'{lab(a_)}>{lab(b_)}' for a_, b_ in mpx.items()) if how.startswith('relabel') else 'del@' + tl(t))
            lines.append(f"hist {vt} {hist['base']} " + '!'.join(hist['ops'] + [bad_op]))
            checks.append((f'BinaryPolynomial: refused {how} vs Red.applyOp', how, 'ok ?' if raised is None else f'err {raised}', pre + '\n'.join(stmts) + '\n' + stmt + '\n', False))
            exc = 'ValueError' if how.startswith('relabel') else 'KeyError'
            if raised != exc:
                fail('BinaryPolynomial', f'{how}: {exc} expected', f'{vt} {raw!r} after {stmts[2:]!r}: {stmt}: {raised}', f'try:\n    {stmt}\n    ok = False\nexcept {exc}:\n    ok = True\nassert ok')
            else:
                try:
                    env['reads'](env['poly'], ref)      # a refused mutation leaves the object as it was
                except Exception as e:  # noqa
                    fail('BinaryPolynomial', f'refused {how} changes the object', f'{vt} {raw!r} after {stmts[2:]!r}: {stmt}: {e}', f'try:\n    {stmt}\nexcept {exc}:\n    pass\nreads(poly, P)')

    def hist_line(why):
        if hist['ops']:
            lines.append(f"hist {vt} {hist['base']} " + '!'.join(hist['ops']))
            checks.append(('BinaryPolynomial mutations vs Red.objectAfter', why, 'ok ' + ';'.join(sorted(term_text(t, fr(b)) for t, b in env['poly'].items())), pre + '\n'.join(stmts) + '\n', False))

    given = None

    def reduce_again():
        nonlocal given
        nprod = sum(max(0, len(t) - 2) for t in ref)
        nv = len({v for t in ref for v in t})
        ops = ['reduce', 'mq', 'mq', 'mq-vt', 'mq-copy']
        if nv + 2 * sum(2 ** max(0, len(t) - 2) - 1 for t in ref) <= 10 and max((len(t) for t in ref), default=0) <= 4: ops += ['mq-converted']
        if nv + nprod <= 9: ops += ['cqm']
        if nv + 2 * nprod <= 11: ops += ['hoc', 'hoc']
        if nv + 2 * nprod <= 9: ops += ['mq-given']
        op = r.choice(ops)
        strength = r.choice([1.0, 2.0, 0.5, 5.0])
        since = state['since']; state['since'] = []
        bias_only = bool(since) and all(k in HIST_BIAS_ONLY for k in since) and any(k != 'none' for k in since)
        cls = ('first reduction of the object' if state['nred'] == 0 else
               'same object reduced again after a bias-only mutation' if bias_only else
               'same object reduced again without a mutation' if not [k for k in since if k != 'none'] else
               'same object reduced again after adding / deleting / relabelling terms')
        items_before = [(tuple(t), fr(b)) for t, b in env['poly'].items()]
        hist_line('state before ' + op)
        site, check = {'reduce': ('reduce_binary_polynomial', 'red, cons = dimod.reduce_binary_polynomial(poly)\nexact_red(red, cons, P)'),
                       'mq': ('make_quadratic', f'bqm = dimod.make_quadratic(poly, {strength!r}, vt)\nexact_bqm(bqm, P)'),
                       'mq-vt': ('make_quadratic', f'bqm = dimod.make_quadratic(poly, {strength!r}, {"dimod." + vt if r.random() < .5 else repr(set(dom))})\nexact_bqm(bqm, P)'),
                       'mq-copy': ('make_quadratic', f'bqm = dimod.make_quadratic(poly.copy(), {strength!r}, vt)\nexact_bqm(bqm, P)'),
                       'mq-converted': ('make_quadratic', f'other = poly.to_spin() if poly.vartype is dimod.BINARY else poly.to_binary()\nbqm = dimod.make_quadratic(other, {strength!r}, other.vartype)\nexact_bqm(bqm, conv(P, poly.vartype is dimod.BINARY), dom=(-1, 1) if poly.vartype is dimod.BINARY else (0, 1))'),
                       'mq-given': ('make_quadratic', None), 'cqm': ('make_quadratic_cqm', 'cqm = dimod.make_quadratic_cqm(poly)\nexact_cqm(cqm, P)'),
                       'hoc': ('HigherOrderComposite.sample_poly', f'child = Rec()\nss = dimod.HigherOrderComposite(child).sample_poly(poly, penalty_strength={strength!r}, keep_penalty_variables={r.random() < .5}, discard_unsatisfied={r.random() < .5})\nexact_hoc(ss, child, P)')}[op]
        if op == 'mq-given':
            if given is None or not set(given[1]) <= {v for t in ref for v in t} | {'g'}:
                vs = sorted({v for t in ref for v in t}, key=repr)
                gv = r.sample(vs, min(2, len(vs))) + ['g']
                given = (f'dimod.BinaryQuadraticModel({ {v: float(r.randint(-4, 4)) / 2 for v in gv}!r}, {{({gv[0]!r}, "g"): {r.randint(-4, 4) / 2!r}}}, {r.randint(-2, 2) / 2!r}, vt)', gv)
            check = f'given = {given[0]}\nbqm = dimod.make_quadratic(poly, {strength!r}, vt, bqm=given.copy())\nexact_bqm(bqm, P, given)'
        call, pred = check.rsplit('\n', 1)
        ctx.tick(f'history:{op}:{cls.replace("same object reduced again ", "again ")}')
        if bias_only: ctx.tick('history:reduce-after-bias-only')
        ctx.case(('history', vt, tuple(stmts), op), nontrivial=state['nred'] > 0 and any(len(t) > 2 for t in ref), sample=dict(history=stmts[2:] + [call]))
        env['P'] = dict(ref)
        try:
            with warnings.catch_warnings():
                warnings.simplefilter('ignore')
                exec(call, env)
        except Exception as e:  # noqa
            fail(site, cls + ': raises', f'{vt} {raw!r}, history {stmts[2:]!r}, then {call!r}: {type(e).__name__}: {e}', check)
            return
        try:
            exec(pred, env)
        except AssertionError as e:
            fail(site, cls, f'{vt} {raw!r}, history {stmts[2:]!r}, then {call!r}: {e}', check)
            return
        stmts.extend(call.split('\n'))
        state['nred'] += 1
        # the polynomial object itself is not changed by a reduction
        try:
            env['reads'](env['poly'], ref)
        except Exception as e:  # noqa
            fail(site, 'the polynomial argument is changed by the reduction', f'{vt} {raw!r}, history {stmts[2:]!r}: {e}', 'reads(poly, P)')
            return
        # correspondence: the model's make_quadratic of the CURRENT terms, replayed on the implementation's own choices
        if op in ('mq', 'mq-vt'):
            bqm = env['bqm']; info = bqm.info['reduction']
            raw_text = ';'.join('&'.join(lab(v) for v in t) + '=' + rat(b) for t, b in items_before) or '-'
            cons_q = ','.join(f'{lab(u)}~{lab(v)}>{lab(d["product"])}' for (u, v), d in info.items()) or '-'
            auxs = [d['auxiliary'] for d in info.values() if 'auxiliary' in d]
            lines.append(f'mq {vt} {rat(F(strength))} {raw_text} {cons_q}')
            checks.append((site + ' vs Red.makeQuadratic (history)', cls, 'ok ' + canon_bqm(bqm) + '|' + ','.join(lab(a) for a in auxs), pre + '\n'.join(stmts) + '\n', False))
        # the caller owns what a reduction returns: emptying it must not affect a later reduction
        if op == 'reduce' and r.random() < .5:
            do('red.clear(); cons.clear()')
        if op in ('mq', 'mq-vt') and r.random() < .3:
            do('bqm.scale(3.0); bqm.info["reduction"].clear()')

    reduce_again()
    for _ in range(r.randint(1, 4)):
        if not state['ok']:
            return
        for _ in range(r.choice([0, 1, 1, 1, 2, 3])):
            mutate()
            if not state['ok']:
                return
        reduce_again()



def aux_collision_directed():
    """labels chosen so that 'aux{u},{v}' of one pair is the product name '{a}*{b}' of another, in both
    orientations (`frozenset` iteration order decides which): D37"""
    raw = []
    for xx in ('x', 'y', 'z', 'w'):
        A, B, U, V = f'aux{xx},{xx}', f'aux{xx}', xx, f'{xx}*aux{xx}'
        raw += [((A, B, 'p'), F(1)), ((A, B, 'q'), F(1)), ((U, V, 'p'), F(1)), ((U, V, 'q'), F(1))]
    return 'SPIN', raw


def same_text_pairs_directed():
    """four different pairs whose members format to '1' and '2': {'1',2}, {1,'2'}, {'1','2'}, {1,2}; each is the
    most frequent pair of two cubic terms, so all four become product pairs and their names must be told apart"""
    raw = []
    thirds = iter('abcdefgh')
    for u, v in (('1', 2), (1, '2'), ('1', '2'), (1, 2)):
        raw += [((u, v, next(thirds)), F(1)), ((u, v, next(thirds)), F(-2))]
    return raw


def run(ctx):
    r = ctx.rng
    ctx.rule = ('random polynomials of degree <= 6 (<= 7 thorough) over 3-6 variables with a shared core of variables (heavy pair overlap), both vartypes, repeated variables '
                'inside terms, repeated monomials, zero biases, constants, occasionally labels that look like generated product/auxiliary names; a case = one call of '
                'reduce_binary_polynomial / make_quadratic / make_quadratic_cqm / HigherOrderComposite.sample_poly; make_quadratic also onto a given non-empty bqm= of the same / the other '
                'vartype with and without vartype=, make_quadratic_cqm onto a given cqm= with its own objective, constraint and variables of other types; every consistent assignment is enumerated; '
                'the whole sample set returned by HigherOrderComposite / polymorph_response for child sample sets with permuted columns, junk energies, num_occurrences, extra vectors, info, '
                'no rows, missing variables, a pre-existing penalty_satisfaction field; make_quadratic with strength 0 and < 0 (recorded precondition: exactly the proved behaviour); '
                'non-trivial = the polynomial has degree > 2 (a product variable is introduced)')
    lines, checks = [], []
    ctx._hoc_lines, ctx._hoc_checks = [], []
    # directed cases first: variable-free polynomial through the composite (D24), auxiliary/product name collision (D37)
    one_case(ctx, r, lines, checks, directed=('BINARY', [((), F(-2))]))
    hoc_directed(ctx)
    one_case(ctx, r, lines, checks, directed=aux_collision_directed())
    for vt in ('BINARY', 'SPIN'):
        one_case(ctx, r, lines, checks, directed=(vt, same_text_pairs_directed()))
    # every combination of given-model vartype / `vartype=` argument, both polynomial vartypes
    for vt in ('BINARY', 'SPIN'):
        one_case(ctx, r, lines, checks, directed=(vt, [((0, 1, 2), F(-2)), ((0,), F(1)), ((1, 2, 'a'), F(3, 4))]),
                 given_modes=[('same', True), ('other', True), ('same', False)])
    # the given model already has variables named like every product / auxiliary the reduction could create (D38)
    one_case(ctx, r, lines, checks, directed=('SPIN', [((0, 1, 2), F(-2)), ((0, 1, 3), F(1))]), given_modes=[('same', True, 'adversarial')])
    # the whole returned sample set: every mode of the child's response (permuted columns, no rows, a missing reduction /
    # polynomial variable, a pre-existing penalty_satisfaction field, polymorph_response called directly), strength 0 and < 0
    for vt in ('BINARY', 'SPIN'):
        one_case(ctx, r, lines, checks, directed=(vt, [((0, 1, 2, 'a'), F(-2)), ((0, 1, 3), F(1)), (('b',), F(3, 4)), ((2, 3), F(1, 2))]),
                 record_modes=['ok', 'permuted', 'zero-rows', 'drop-product', 'drop-factor', 'drop-polyvar', 'dup-field', 'direct'])
    one_case(ctx, r, lines, checks, directed=('SPIN', [((0, 1), F(-2)), ((0,), F(1))]), record_modes=['ok', 'zero-rows', 'drop-polyvar', 'direct'])
    for _ in range(ctx.scale(230, 1600)):
        one_case(ctx, r, lines, checks)
    # histories on one polynomial object (stale per-object caches: seed C15-9 and its class)
    for vt in ('BINARY', 'SPIN'):
        history_case(ctx, r, lines, checks, directed=(vt, [(('a', 'b', 'c'), F(1)), (('a', 'b', 'd'), F(-3, 2)), (('a',), F(1, 2)), ((), F(1, 4))]))
    for _ in range(ctx.scale(130, 1000)):
        history_case(ctx, r, lines, checks)
    if not ctx.quick:
        for _ in range(200):
            one_case(ctx, r, lines, checks, big=True)
    lines += ctx._hoc_lines; checks += ctx._hoc_checks
    got = run_driver('reducedriver', lines)
    ctx.corr_lines += len(lines)
    for i, ln in enumerate(lines):
        site, cls, want, src, had = checks[i]
        g = got[i] if i < len(got) else 'MISSING'
        if g != want and not had:
            ctx.fail('correspondence', site, cls, f'line `{ln[:400]}`: implementation `{want[:400]}` model `{g[:400]}`', repro=src)


def hoc_directed(ctx):
    for vt in ('BINARY', 'SPIN'):
        for keep in (False, True):
            src = (HDR + f'poly = dimod.BinaryPolynomial({{(): -2}}, {vt!r})\n'
                   f'ss = dimod.HigherOrderComposite(dimod.ExactSolver()).sample_poly(poly, discard_unsatisfied=True, keep_penalty_variables={keep})\n'
                   'assert all(e == -2 for e in ss.record.energy)\n')
            ctx.tick('hoc:variable-free'); ctx.case(('hoc-directed', vt, keep), nontrivial=True)
            try:
                ss = dimod.HigherOrderComposite(dimod.ExactSolver()).sample_poly(BinaryPolynomial({(): -2}, vt), discard_unsatisfied=True, keep_penalty_variables=keep)
                if any(e != -2 for e in ss.record.energy):
                    ctx.fail('property', 'HigherOrderComposite.sample_poly', 'variable-free polynomial, discard_unsatisfied=True', f'energies {list(ss.record.energy)}', repro=src)
            except Exception as e:  # noqa
                ctx.fail('property', 'HigherOrderComposite.sample_poly', 'variable-free polynomial, discard_unsatisfied=True', f'{type(e).__name__}: {e}', repro=src)
