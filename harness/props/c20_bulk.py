"""C20 part (v): every BULK / ITERABLE mutator of ConstrainedQuadraticModel, QuadraticModel, BinaryQuadraticModel (float64 /
float32 / object / range-labelled) and DiscreteQuadraticModel, called on a FRESH model with an argument whose FAILING element
sits in the MIDDLE: valid elements that create new variables / terms first, then one element the call must reject (a label
that already exists with another vartype or other bounds, an unknown / unhashable / None label, a self-loop, a mistyped bias, a
malformed term), then more valid elements.  The code may keep the elements before the failing one (documented for
`add_variables`), so "the model is unchanged" is not the predicate here.  The predicate (real code only) is structural:

* after the call - raised or not - the label list, `num_variables` and the size of the NATIVE model behind the labels agree;
  every per-variable record (vartype, bounds, linear bias, neighbourhood, cases) of every label can be read, twice with the
  same result; the objective and every constraint of a constrained model name only variables of the model; the adjacency of
  every quadratic part passes the audit of part (iv) (strictly sorted, symmetric, binary searches from both sides, counts);
* the state is one of: the state before, or the state after the SAME call with the first k valid elements only (k <= number of
  elements before the failing one) - reported only when it is neither AND the state is not even readable consistently; otherwise
  the outcome is ticked (`bulk:state:…`);
* the SAME call issued a second time on the model the first one left behind (its new labels exist now) leaves the structure intact;
* the model is still USABLE: a follow-up of valid calls (a new variable, a linear and a quadratic term on the newest old label and
  the new one, a read back of both, a file round trip for constrained models) succeeds and the audit holds again.

All cases of a batch run in one child; a crash re-runs the batch one case per process (as `c20_sweep`).
"""
import json
import os
import subprocess
from concurrent.futures import ThreadPoolExecutor

from harness.props import c20_pyseq

PY = '/venv/bin/python'

PRELUDE = r'''
import json, sys, warnings, io, copy
warnings.simplefilter('ignore')
import numpy as np, dimod
@@AUDIT@@

def mk(kind):
    B = dimod.BinaryQuadraticModel
    LQ = ({'a': 1.0, 'b': -0.5, 0: 0.25}, {('a', 'b'): 0.5, ('b', 0): -1.5}, 0.75)
    RQ = ([1.0, -0.5, 0.25], {(0, 1): 0.5, (1, 2): -1.5}, 0.75)
    if kind == 'bqm64': return B(*LQ, 'SPIN')
    if kind == 'bqm32': return B(*LQ, 'BINARY', dtype=np.float32)
    if kind == 'bqmobj': return B(*LQ, 'SPIN', dtype=object)
    if kind == 'rng64': return B(*RQ, 'BINARY')
    if kind == 'view': return B(*LQ, 'SPIN').binary
    if kind in ('qm', 'qm32'):
        m = dimod.QuadraticModel(dtype=np.float32) if kind == 'qm32' else dimod.QuadraticModel()
        m.add_variable('INTEGER', 'i', lower_bound=-2, upper_bound=5); m.add_variable('BINARY', 'x')
        m.add_variable('SPIN', 's'); m.add_variable('REAL', 'r', lower_bound=-1, upper_bound=3)
        m.add_linear('i', 1.5); m.add_quadratic('i', 'x', 0.5); m.add_quadratic('i', 'i', 2.0); m.add_quadratic('x', 's', -1.0)
        m.offset = 0.25
        return m
    if kind in ('cqm', 'cqmempty'):
        m = dimod.ConstrainedQuadraticModel()
        if kind == 'cqmempty':
            m.add_variables('BINARY', ['x', 'y']); m.add_variable('INTEGER', 'i', lower_bound=0, upper_bound=7); m.add_variable('SPIN', 's')
            return m
        x = dimod.Binary('x'); y = dimod.Binary('y'); i = dimod.Integer('i', upper_bound=7); s = dimod.Spin('s')
        m.set_objective(x + 2 * y + x * y - i + s)
        m.add_constraint(x + y + i <= 3, label='c0'); m.add_constraint(x * y - i + s * x == 0, label='c1')
        return m
    if kind == 'dqm':
        m = dimod.DiscreteQuadraticModel(); m.add_variable(3, 'a'); m.add_variable(2, 'b'); m.add_variable(4, 'c')
        m.set_linear('a', [1., 2., 3.]); m.set_quadratic('a', 'b', {(0, 1): 1.5, (2, 0): -0.5}); m.set_quadratic_case('b', 1, 'c', 3, 2.0)
        return m
    raise KeyError(kind)

def num(x):
    try:
        return float(x)
    except Exception:
        return repr(x)

def qstate(m):
    L = list(m.variables)
    out = [[repr(v) for v in L], num(m.offset), [num(m.get_linear(v)) for v in L],
           sorted((repr(u), repr(v), num(b)) for u, v, b in m.iter_quadratic()), [m.degree(v) for v in L]]
    if not isinstance(m, dimod.BinaryQuadraticModel) and hasattr(m, 'lower_bound'):
        out.append([(m.vartype(v).name, num(m.lower_bound(v)), num(m.upper_bound(v))) for v in L])
    return out

def state(m):
    if isinstance(m, dimod.ConstrainedQuadraticModel):
        L = list(m.variables)
        return repr(([repr(v) for v in L], [(m.vartype(v).name, num(m.lower_bound(v)), num(m.upper_bound(v))) for v in L],
                     qstate(m.objective), [(repr(k), c.sense.name, num(c.rhs), qstate(c.lhs)) for k, c in m.constraints.items()],
                     sorted(map(repr, m.discrete))))
    if isinstance(m, dimod.DiscreteQuadraticModel):
        L = list(m.variables)
        cs, lb, (ir, ic, qb), lab, off = m.to_numpy_vectors(return_offset=True)
        return repr(([repr(v) for v in L], [list(map(float, m.get_linear(v))) for v in L], num(m.offset), m.num_cases(), m.num_case_interactions(),
                     m.num_variable_interactions(), list(map(int, cs)), list(map(float, lb)), sorted(zip(map(int, ir), map(int, ic), map(float, qb)))))
    return repr(qstate(m))

def cy_state(m):
    L = list(m.variables)
    return [L, [[m.vartype(v).name, float(m.lower_bound(v)), float(m.upper_bound(v))] for v in L]]

def canon(m):
    """a constrained model up to the internal variable order of its expressions (not kept by a file round trip)"""
    def ex(e):
        used = {v for u, v, _ in e.iter_quadratic()} | {u for u, v, _ in e.iter_quadratic()}
        return (sorted((repr(v), num(e.get_linear(v))) for v in e.variables if e.get_linear(v) != 0 or v in used),
                sorted((tuple(sorted((repr(u), repr(v)))), num(b)) for u, v, b in e.iter_quadratic()), num(e.offset))
    L = list(m.variables)
    return repr(([repr(v) for v in L], [(m.vartype(v).name, num(m.lower_bound(v)), num(m.upper_bound(v))) for v in L], ex(m.objective),
                 sorted((repr(k), c.sense.name, num(c.rhs), ex(c.lhs)) for k, c in m.constraints.items()), sorted(map(repr, m.discrete))))

def structure(m):
    """None or what is wrong with the native structures as seen through the public API"""
    if isinstance(m, dimod.ConstrainedQuadraticModel):
        L = list(m.variables)
        nat = m.num_variables() if callable(getattr(m, 'num_variables', None)) else len(L)
        if len(set(map(repr, L))) != len(L) or nat != len(L):
            return 'counts inconsistent: %d variable labels %r but the native model holds %d variables' % (len(L), L, nat)
        known = set(L)
        for name, e in [('objective', m.objective)] + [('constraint %r' % (k,), c.lhs) for k, c in m.constraints.items()]:
            for v in e.variables:
                if v not in known:
                    return '%s names %r which is not a variable of the model' % (name, v)
            a = audit(e)
            if a:
                return name + ': ' + a
        if len(m.constraints) != m.num_constraints():
            return 'constraints: %d labels, num_constraints() = %d' % (len(m.constraints), m.num_constraints())
        return None
    if isinstance(m, dimod.DiscreteQuadraticModel):
        return audit_dqm(m)
    return audit(m)

def follow_up(m, kind):
    """valid calls after the (rejected) bulk call; returns None or what failed"""
    def chk(c, what):
        if not c:
            raise AssertionError(what)
    if isinstance(m, dimod.ConstrainedQuadraticModel):
        L = list(m.variables)
        chk(m.add_variable('BINARY', 'zfresh') == 'zfresh', 'add_variable returned another label')
        chk(list(m.variables) == L + ['zfresh'] and m.num_variables() == len(L) + 1, 'the new variable is not the last one')
        chk(m.vartype('zfresh') is dimod.BINARY and m.lower_bound('zfresh') == 0 and m.upper_bound('zfresh') == 1, 'record of the new variable')
        last = L[-1]
        m.objective.add_linear('zfresh', 2.0); m.objective.add_linear(last, 0.5)
        chk(m.objective.get_linear('zfresh') == 2.0, 'objective linear bias of the new variable')
        if m.vartype(last) is not dimod.REAL:
            m.objective.add_quadratic(last, 'zfresh', -1.0)
            chk(m.objective.get_quadratic(last, 'zfresh') == -1.0 and m.objective.get_quadratic('zfresh', last) == -1.0, 'objective interaction')
        lbl = m.add_constraint_from_iterable([(last, 1.0), ('zfresh', 1.0)], '<=', rhs=1, label='kfresh')
        chk(m.constraints['kfresh'].lhs.get_linear(last) == 1.0, 'new constraint')
        with m.to_file() as f:
            n = dimod.ConstrainedQuadraticModel.from_file(f)
        chk(canon(n) == canon(m), 'file round trip differs: %s / %s' % (canon(n)[:400], canon(m)[:400]))
    elif isinstance(m, dimod.DiscreteQuadraticModel):
        L = list(m.variables)
        v = m.add_variable(2, 'zfresh')
        chk(list(m.variables) == L + ['zfresh'] and m.num_variables() == len(L) + 1, 'the new variable is not the last one')
        m.set_linear_case('zfresh', 1, 2.0); m.set_quadratic_case(L[-1], 0, 'zfresh', 1, -1.0)
        chk(m.get_linear_case('zfresh', 1) == 2.0 and m.get_quadratic_case('zfresh', 1, L[-1], 0) == -1.0, 'read back')
    elif isinstance(m, dimod.QuadraticModel):
        L = list(m.variables)
        m.add_variable('BINARY', 'zfresh')
        chk(list(m.variables) == L + ['zfresh'] and m.num_variables == len(L) + 1 and m.data.num_variables() == len(L) + 1, 'the new variable is not the last one')
        m.add_linear('zfresh', 2.0)
        chk(m.get_linear('zfresh') == 2.0, 'read back')
        for last in [v for v in L if m.vartype(v) is not dimod.REAL][-1:]:
            m.add_quadratic(last, 'zfresh', -1.0)
            chk(m.get_quadratic('zfresh', last) == -1.0 and m.get_quadratic(last, 'zfresh') == -1.0, 'read back')
    else:
        L = list(m.variables)
        new = 'zfresh' if kind != 'rng64' or L != list(range(len(L))) else len(L)
        m.add_variable(new)
        chk(list(m.variables) == L + [new] and m.num_variables == len(L) + 1, 'the new variable is not the last one')
        m.add_linear(new, 2.0); m.add_quadratic(L[-1], new, -1.0)
        chk(m.get_linear(new) == 2.0 and m.get_quadratic(new, L[-1]) == -1.0 and m.get_quadratic(L[-1], new) == -1.0, 'read back')
    return None
'''

BATCH = PRELUDE + r'''
cases = @@CASES@@
out = []
for i, (kind, fmt, pre, bad, suf) in enumerate(cases):
    print('@' + str(i), flush=True)          # a crash is attributed to the case after the last marker
    res = dict(result='ok')
    try:
        m = mk(kind)
        before = state(m)
        cy_before = cy_state(m) if isinstance(m, dimod.ConstrainedQuadraticModel) else None
        # the same call with the first k valid elements only, each on its own fresh model
        prefixes = []
        for k in range(1, len(pre) + 1):
            p = mk(kind)
            try:
                exec(fmt % ', '.join(pre[:k]), {'m': p, 'dimod': dimod, 'np': np})
                prefixes.append(state(p))
            except Exception as e:
                prefixes.append('valid prefix raised ' + type(e).__name__ + ': ' + str(e)[:120])
    except BaseException as e:
        out.append(dict(result='setup', what=type(e).__name__ + ': ' + str(e)[:200])); continue
    res['prefix_raised'] = [p for p in prefixes if p.startswith('valid prefix raised')][:1]
    raised = None
    call = fmt % ', '.join(pre + [bad] + suf)
    try:
        exec(call, {'m': m, 'dimod': dimod, 'np': np})
    except BaseException as e:
        raised = type(e).__name__ + ': ' + str(e)[:160]
    res['raised'] = raised
    if '.add_variables(' in fmt and isinstance(m, dimod.ConstrainedQuadraticModel):
        # the same call as data, for the Lean model of the loop (`CyCqm.Vars.addVariables`)
        class Rec:
            def add_variables(self, vartype, variables, *, lower_bound=None, upper_bound=None):
                self.args = (dimod.as_vartype(vartype, extended=True).name, list(variables), lower_bound, upper_bound)
        rec = Rec()
        try:
            exec(call, {'m': rec, 'dimod': dimod, 'np': np})
            probe = dimod.ConstrainedQuadraticModel(); probe.add_variable(rec.args[0], 'probe')
            res['cy'] = dict(args=[rec.args[0], [['s', v] if isinstance(v, str) else ['!'] for v in rec.args[1]], rec.args[2], rec.args[3]],
                             dflt=[float(probe.lower_bound('probe')), float(probe.upper_bound('probe'))], before=cy_before)
        except Exception as e:
            res['cy'] = dict(error=repr(e))
    try:
        st = structure(m)
    except BaseException as e:
        st = 'reading the structure raised ' + type(e).__name__ + ': ' + str(e)[:200]
    if st:
        res.update(result='malformed', what=st); out.append(res); continue
    try:
        after = state(m); again = state(m)
    except BaseException as e:
        res.update(result='unreadable', what=type(e).__name__ + ': ' + str(e)[:200]); out.append(res); continue
    if after != again:
        res.update(result='unreadable', what='two consecutive reads differ: ' + after[:300] + ' / ' + again[:300]); out.append(res); continue
    if 'cy' in res and 'error' not in res['cy']:
        res['cy']['after'] = cy_state(m)
    res['state'] = ('unchanged' if after == before else 'prefix-%d-of-%d' % (prefixes.index(after) + 1, len(pre)) if after in prefixes else 'other') if raised else 'accepted'
    if res['state'] == 'other':
        res['before'], res['after'] = before[:700], after[:700]
    try:
        # the same call once more on the model it left behind (its new labels exist now: the consistency checks run where the
        # first call appended), then the valid follow-up calls
        try:
            exec(call, {'m': m, 'dimod': dimod, 'np': np})
        except Exception:
            pass
        st = structure(m)
        if st:
            res.update(result='malformed', what='after the same call a second time: ' + st); out.append(res); continue
        follow_up(m, kind)
        st = structure(m)
        if st:
            res.update(result='malformed', what='after the follow-up calls: ' + st)
    except BaseException as e:
        res.update(result='unusable', what=type(e).__name__ + ': ' + str(e)[:300])
    out.append(res)
print('RESULT ' + json.dumps(out))
'''

REPRO = PRELUDE + r'''
m = mk(@@KIND@@)
raised = None
try:
    @@CALL@@
except Exception as e:
    raised = e
print('raised', repr(raised))
st = structure(m)
assert st is None, st
assert state(m) == state(m), 'two consecutive reads differ'
try:
    @@CALL@@
except Exception as e:
    print('second call raised', repr(e))
st = structure(m)
assert st is None, st
follow_up(m, @@KIND@@)
st = structure(m)
assert st is None, st
'''


def repro_src(kind, call):
    return REPRO.replace('@@AUDIT@@', c20_pyseq.audit_src()).replace('@@KIND@@', repr(kind)).replace('@@CALL@@', call)


def cases():
    """(kind, site, input class, call format with one %s for the element list, valid elements before, failing element, after)"""
    out = []
    def add(kinds, site, cls, fmt, pre, bad, suf=()):
        for k in kinds:
            out.append((k, site, cls, fmt, list(pre), bad, list(suf)))
    # ---------------- constrained model
    C = ['cqm', 'cqmempty']
    for vt, kw, bad, why in [
            ('SPIN', '', "'x'", 'existing BINARY label'), ('BINARY', '', "'s'", 'existing SPIN label'), ('BINARY', '', "'i'", 'existing INTEGER label'),
            ('INTEGER', '', "'x'", 'existing BINARY label'), ('INTEGER', ', lower_bound=1, upper_bound=7', "'i'", 'existing label, other lower bound'),
            ('INTEGER', ', lower_bound=0, upper_bound=5', "'i'", 'existing label, other upper bound'), ('REAL', '', "'i'", 'existing INTEGER label'),
            ('REAL', ', lower_bound=-1', "'x'", 'existing BINARY label'),
            ('BINARY', '', '[1]', 'unhashable label'), ('SPIN', '', '{}', 'unhashable label'), ('INTEGER', ', upper_bound=3', '[2]', 'unhashable label')]:
        for npre in (1, 2, 3):
            add(C, 'CQM.add_variables', f'{vt}{kw}: {npre} new labels, then {why}, then a new label',
                f'm.add_variables({vt!r}, [%s]{kw})', [f"'n{j}'" for j in range(npre)], bad, ["'after'"])
        add(C, 'CQM.add_variables', f'{vt}{kw}: a new label given twice, then {why}', f'm.add_variables({vt!r}, [%s]{kw})', ["'n0'", "'n0'"], bad, ["'after'"])
        add(C, 'CQM.add_variables', f'{vt}{kw}: generator argument, {why} in the middle', f'm.add_variables({vt!r}, (v for v in [%s]){kw})', ["'n0'", "'n1'"], bad, ["'after'"])
    for vt, kw, mid in [('BINARY', '', "'x'"), ('SPIN', '', "'s'"), ('INTEGER', ', upper_bound=7', "'i'"), ('INTEGER', ', lower_bound=0, upper_bound=7', "'i'"), ('INTEGER', '', "'i'")]:
        add(C, 'CQM.add_variables', f'{vt}{kw}: new labels, then an existing label given consistently (a valid call), then new labels',
            f'm.add_variables({vt!r}, [%s]{kw})', ["'n0'", "'n1'"], mid, ["'after'", "'n0'"])
    for site, fmt in [('CQM.add_constraint_from_iterable', "m.add_constraint_from_iterable([%s], '==', rhs=1, label='knew')"),
                      ('CQM.add_constraint_from_iterable', "m.add_constraint_from_iterable(iter([%s]), '<=', rhs=1)"),
                      ('CQM.set_objective', 'm.set_objective([%s])'),
                      ('CQM.add_constraint', "m.add_constraint([%s], '>=', rhs=0)")]:
        for bad, why in [("('zz', 1.0)", 'unknown label'), ("('x', 'zz', 1.0)", 'unknown second label'), ("([1], 1.0)", 'unhashable label'),
                         ("('x', 'abc')", 'mistyped bias'), ("('x', 'y', 's', 1.0)", 'term of degree 3'), ("('x',)", 'term without bias'), ('5', 'term is not a sequence'),
                         ("('x', float('nan'))", 'NaN bias'), ("(None, 1.0)", 'None label')]:
            add(C, site, f'terms: valid linear and quadratic terms, then {why}, then a valid term', fmt,
                ["('x', 1.0)", "('x', 'y', 2.0)", "('i', 's', -1.0)", "(3.0,)"][: 4 if 'objective' not in site else 3], bad, ["('y', 'i', 1.0)"])
    for site, fmt in [('CQM.add_discrete', 'm.add_discrete([%s])'), ('CQM.add_discrete_from_iterable', "m.add_discrete_from_iterable([%s], label='dnew')")]:
        for bad, why in [("'i'", 'existing INTEGER label'), ("'s'", 'existing SPIN label'), ('[1]', 'unhashable label')]:
            add(C, site, f'new labels, then {why}, then a new label', fmt, ["'d0'", "'d1'"], bad, ["'d2'"])
    # a model / symbolic expression whose variables are registered one at a time: new ones first, then a conflicting one
    QMK = ("(lambda q: (%s, q.add_linear('p0', 1.0), q)[-1])(dimod.QuadraticModel())")
    for site, fmt in [('CQM.add_constraint_from_model', "m.add_constraint_from_model(" + QMK + ", '==', rhs=1)"),
                      ('CQM.set_objective', 'm.set_objective(' + QMK + ')'),
                      ('CQM.add_discrete_from_model', "m.add_discrete_from_model(" + QMK.replace("q.add_linear('p0', 1.0)", "[q.set_linear(v, 1.0) for v in q.variables]") + ")")]:
        for bad, why in [("q.add_variable('SPIN', 'x')", 'a variable that exists as BINARY'), ("q.add_variable('INTEGER', 'i', lower_bound=1, upper_bound=7)", 'a variable that exists with another lower bound'),
                         ("q.add_variable('REAL', 's')", 'a variable that exists as SPIN')]:
            add(C, site, f'model with new variables, then {why}, then a new variable', fmt,
                ["q.add_variable('BINARY', 'p0')", "q.add_variable('BINARY', 'p1')"], bad, ["q.add_variable('BINARY', 'p2')"])
    for bad, why in [("dimod.Spin('x')", 'symbol that exists as BINARY'), ("dimod.Integer('i', lower_bound=2, upper_bound=7)", 'symbol that exists with another lower bound')]:
        add(C, 'CQM.add_constraint_from_comparison', f'expression with new symbols, then {why}', "m.add_constraint(sum([%s]) <= 2)",
            ["dimod.Binary('p0')", "2 * dimod.Binary('p1')"], bad, ["dimod.Binary('p2')"])
        add(C, 'CQM.set_objective', f'expression with new symbols, then {why}', "m.set_objective(sum([%s]))",
            ["dimod.Binary('p0')", "2 * dimod.Binary('p1') * dimod.Binary('p0')"], bad, ["dimod.Binary('p2')"])
    for bad, why in [("('zz', 1)", 'unknown label'), ("([1], 0)", 'unhashable label'), ("('i', 'abc')", 'mistyped value')]:
        add(['cqm'], 'CQM.fix_variables', f'valid assignments, then {why}, then a valid one', 'm.fix_variables(dict([%s]), inplace=True)', ["('x', 1)", "('s', -1)"], bad, ["('y', 0)"])
        add(['cqm'], 'CQM.fix_variables', f'pairs: valid assignments, then {why}, then a valid one', 'm.fix_variables([%s], inplace=True)', ["('x', 1)", "('s', -1)"], bad, ["('y', 0)"])
    for bad, why in [("('zz', 'q')", 'unknown label'), ("('y', 'i')", 'new label is an existing one'), ("('y', [1])", 'unhashable new label'), ("('y', 'xn')", 'two old labels to one new')]:
        add(C, 'CQM.relabel_variables', f'valid renamings, then {why}', 'm.relabel_variables(dict([%s]))', ["('x', 'xn')", "('s', 'sn')"], bad, ["('i', 'in')"])
    for bad, why in [("('zz', 'q')", 'unknown label'), ("('c1', [1])", 'unhashable new label')]:
        add(['cqm'], 'CQM.relabel_constraints', f'valid renaming, then {why}', 'm.relabel_constraints(dict([%s]))', ["('c0', 'k0')"], bad, [])
    # ---------------- quadratic model
    Q = ['qm', 'qm32']
    for vt, bad, why in [('SPIN', "'x'", 'existing BINARY label'), ('BINARY', "'i'", 'existing INTEGER label'), ('INTEGER', "'s'", 'existing SPIN label'),
                         ('REAL', "'x'", 'existing BINARY label'), ('BINARY', '[1]', 'unhashable label'), ('SPIN', 'None', 'None label')]:
        for npre in (1, 3):
            add(Q, 'QM.add_variables_from', f'{vt}: {npre} new labels, then {why}, then a new label', f'm.add_variables_from({vt!r}, [%s])',
                [f"'n{j}'" for j in range(npre)], bad, ["'after'"])
    for bad, why in [("q.add_variable('SPIN', 'x')", 'a variable that exists as BINARY'), ("q.add_variable('INTEGER', 'i', lower_bound=0, upper_bound=5)", 'a variable that exists with another lower bound')]:
        for site, fmt in [('QM.add_variables_from_model', 'm.add_variables_from_model(' + QMK + ')'), ('QM.update', 'm.update(' + QMK + ')')]:
            add(Q, site, f'model with new variables, then {why}, then a new variable', fmt,
                ["q.add_variable('BINARY', 'p0')", "q.add_variable('SPIN', 'p1')"], bad, ["q.add_variable('BINARY', 'p2')"])
    for bad, why in [("([1], 1.0)", 'unhashable label'), ("('n9', 'abc')", 'mistyped bias'), ("(None, 1.0)", 'None label'), ("('n9',)", 'element without bias')]:
        add(Q, 'QM.add_linear_from', f'new labels, then {why}, then a new label', "m.add_linear_from([%s], default_vartype='BINARY')", ["('n0', 1.0)", "('x', 2.0)", "('n1', -1.0)"], bad, ["('n2', 1.0)"])
        add(Q, 'QM.add_linear_from', f'dict items: new labels, then {why}', "m.add_linear_from(iter([%s]), default_vartype='SPIN')", ["('n0', 1.0)", "('n1', -1.0)"], bad, ["('n2', 1.0)"])
    for bad, why in [("('i', 'zz', 1.0)", 'unknown label'), ("('x', 'x', 1.0)", 'self-loop of a BINARY variable'), ("('i', 'r', 1.0)", 'interaction with a REAL variable'),
                     ("('i', [1], 1.0)", 'unhashable label'), ("('i', 's', 'abc')", 'mistyped bias'), ("('i', 's')", 'element without bias')]:
        add(Q, 'QM.add_quadratic_from', f'valid interactions, then {why}, then a valid one', 'm.add_quadratic_from([%s])', ["('i', 's', 1.0)", "('x', 'i', 0.5)", "('i', 'i', 1.0)"], bad, ["('s', 'x', 2.0)"])
    for bad, why in [("('zz', 1)", 'unknown label'), ("([1], 0)", 'unhashable label'), ("('i', 'abc')", 'mistyped value')]:
        add(Q, 'QM.fix_variables', f'valid assignments, then {why}, then a valid one', 'm.fix_variables(dict([%s]))', ["('x', 1)", "('s', -1)"], bad, ["('r', 2)"])
    for bad, why in [("('zz', 'q')", 'unknown label'), ("('i', 'r')", 'new label is an existing one'), ("('i', [1])", 'unhashable new label')]:
        add(Q, 'QM.relabel_variables', f'valid renamings, then {why}', 'm.relabel_variables(dict([%s]))', ["('x', 'xn')", "('s', 'sn')"], bad, ["('r', 'rn')"])
    # ---------------- binary quadratic model
    B = ['bqm64', 'bqm32', 'bqmobj', 'view']
    for bad, why in [("([1], 1.0)", 'unhashable label'), ("('n9', 'abc')", 'mistyped bias'), ("(None, 1.0)", 'None label'), ("('n9',)", 'element without bias')]:
        add(B, 'BQM.add_linear_from', f'new labels, then {why}, then a new label', 'm.add_linear_from([%s])', ["('n0', 1.0)", "('a', 2.0)", "('n1', -1.0)"], bad, ["('n2', 1.0)"])
    for bad, why in [("('a', 'a', 1.0)", 'self-loop'), ("('a', [1], 1.0)", 'unhashable label'), ("('n0', None, 1.0)", 'None label'), ("('a', 'b', 'abc')", 'mistyped bias'),
                     ("('a', 'b')", 'element without bias'), ("('nx', 'nx', 1.0)", 'self-loop on a new label')]:
        add(B, 'BQM.add_quadratic_from', f'new and old interactions, then {why}, then a valid one', 'm.add_quadratic_from([%s])', ["('n0', 'a', 1.0)", "('a', 'b', 0.5)", "(0, 'n1', 1.0)"], bad, ["('n2', 'b', 2.0)"])
        add(B, 'BQM.add_quadratic_from', f'generator: new and old interactions, then {why}', 'm.add_quadratic_from(t for t in [%s])', ["('n0', 'a', 1.0)", "(0, 'n1', 1.0)"], bad, ["('n2', 'b', 2.0)"])
    for bad, why in [("'zz'", 'unknown label'), ('[1]', 'unhashable label')]:
        add(B, 'BQM.remove_variables_from', f'valid labels, then {why}, then a valid one', 'm.remove_variables_from([%s])', ["'a'"], bad, ["'b'"])
    for bad, why in [("('a', 'zz')", 'unknown label'), ("('a', 0)", 'no such interaction'), ("('a', [1])", 'unhashable label'), ("('a',)", 'not a pair')]:
        add(B, 'BQM.remove_interactions_from', f'a valid pair, then {why}, then a valid one', 'm.remove_interactions_from([%s])', ["('a', 'b')"], bad, ["('b', 0)"])
    for bad, why in [("('zz', 1)", 'unknown label'), ("([1], 0)", 'unhashable label'), ("('b', 'abc')", 'mistyped value')]:
        add(B, 'BQM.fix_variables', f'a valid assignment, then {why}, then a valid one', 'm.fix_variables(dict([%s]))', ["('a', 1)"], bad, ["(0, 1)"])
        add(B, 'BQM.fix_variables', f'pairs: a valid assignment, then {why}, then a valid one', 'm.fix_variables([%s])', ["('a', 1)"], bad, ["(0, 1)"])
    for bad, why in [("('zz', 'q')", 'unknown label'), ("('b', 0)", 'new label is an existing one'), ("('b', [1])", 'unhashable new label')]:
        add(B, 'BQM.relabel_variables', f'a valid renaming, then {why}', 'm.relabel_variables(dict([%s]))', ["('a', 'an')"], bad, ["(0, 'zero')"])
    for site, fmt in [('BQM.add_linear_equality_constraint', 'm.add_linear_equality_constraint([%s], 1.0, -1.0)'),
                      ('BQM.add_linear_inequality_constraint', "m.add_linear_inequality_constraint([%s], 2.0, 'sl', constant=-1, ub=3)")]:
        for bad, why in [("([1], 1)", 'unhashable label'), ("('a', 'abc')", 'mistyped coefficient'), ("('n9',)", 'term without coefficient'), ("(None, 1)", 'None label')]:
            add(['bqm64', 'bqm32', 'bqmobj'], site, f'terms on new and old labels, then {why}, then a valid term', fmt, ["('n0', 1)", "('a', 2)", "('n1', 1)"], bad, ["('b', 1)"])
    for bad, why in [("b.add_variable([1])", 'n/a')][:0]:
        pass
    # ---------------- discrete quadratic model
    for bad, why in [("('zz', 0, 1.0)", 'unknown label'), ("('a', 7, 1.0)", 'case out of range'), ("('a', -1, 1.0)", 'negative case'), ("('a', 0, 'abc')", 'mistyped bias'),
                     ("('a', 0)", 'term without bias'), ("([1], 0, 1.0)", 'unhashable label')]:
        add(['dqm'], 'DQM.add_linear_equality_constraint', f'valid terms, then {why}, then a valid term', 'm.add_linear_equality_constraint([%s], 1.0, -1.0)',
            ["('a', 0, 1.0)", "('b', 1, 2.0)", "('c', 2, 1.0)"], bad, ["('c', 3, 1.0)"])
    for bad, why in [("((7, 0), 1.0)", 'first case out of range'), ("((0, 9), 1.0)", 'second case out of range'), ("((-1, 0), 1.0)", 'negative case'), ("((0, 1), 'abc')", 'mistyped bias'),
                     ("((0,), 1.0)", 'malformed key')]:
        add(['dqm'], 'DQM.set_quadratic', f'valid case pairs, then {why}, then a valid one', "m.set_quadratic('a', 'c', dict([%s]))",
            ["((0, 0), 1.0)", "((1, 2), -1.0)"], bad, ["((2, 3), 0.5)"])
        add(['dqm'], 'DQM.set_quadratic', f'existing interaction: valid case pairs, then {why}', "m.set_quadratic('a', 'b', dict([%s]))",
            ["((0, 0), 1.0)", "((1, 1), -1.0)"], bad, ["((2, 1), 0.5)"])
    for bad, why in [("('zz', 'q')", 'unknown label'), ("('b', 'c')", 'new label is an existing one'), ("('b', [1])", 'unhashable new label')]:
        add(['dqm'], 'DQM.relabel_variables', f'a valid renaming, then {why}', 'm.relabel_variables(dict([%s]))', ["('a', 'an')"], bad, ["('c', 'cn')"])
    return out


def run_batch(chunk, env, timeout=600):
    src = BATCH.replace('@@AUDIT@@', c20_pyseq.audit_src()).replace('@@CASES@@', repr([(c[0], c[3], c[4], c[5], c[6]) for c in chunk]))
    try:
        p = subprocess.run([PY, '-c', src], capture_output=True, text=True, timeout=timeout, env=env)
    except subprocess.TimeoutExpired:
        return None, 'timeout'
    lines = p.stdout.strip().splitlines()
    if p.returncode == 0 and lines and lines[-1].startswith('RESULT '):
        return json.loads(lines[-1][7:]), None
    last = max([int(x[1:]) for x in lines if x.startswith('@')] or [0])
    c = chunk[last]
    return None, f'child process exited {p.returncode} during case #{last} `{c[3] % ", ".join(c[4] + [c[5]] + c[6])}` on a fresh {c[0]}: {p.stderr[-300:]}'


def bulk_part(ctx):
    import time
    t0 = time.time()
    cs = cases()
    env = dict(os.environ)
    nchunk = 4
    chunks = [cs[i::nchunk] for i in range(nchunk)]
    with ThreadPoolExecutor(max_workers=nchunk) as ex:
        batches = list(ex.map(lambda ch: run_batch(ch, env), chunks))
    all_results = []
    for chunk, (results, err) in zip(chunks, batches):
        if results is None:
            with ThreadPoolExecutor(max_workers=4) as ex:
                singles = list(ex.map(lambda c: run_batch([c], env, 120), chunk))
            results = []
            for c, (r1, e1) in zip(chunk, singles):
                if r1 is None:
                    call = c[3] % ', '.join(c[4] + [c[5]] + c[6])
                    src = repro_src(c[0], call)
                    ctx.fail('crash', c[1] + f' [{c[0]}]', c[2], f'`{call}` on a fresh {c[0]}: {e1}',
                             repro="import subprocess, sys\nsrc = %r\np = subprocess.run([sys.executable, '-c', src], capture_output=True, text=True)\nprint(p.stdout[-800:], p.stderr[-800:]); assert p.returncode == 0\n" % (src,))
                    results.append(dict(result='crash'))
                else:
                    results.append(r1[0])
        all_results += list(zip(chunk, results))
        for (kind, site, cls, fmt, pre, bad, suf), res in zip(chunk, results):
            call = fmt % ', '.join(pre + [bad] + suf)
            ctx.case(('bulk', kind, call), nontrivial=True,
                     sample=dict(kind='bulk mutator, failing element in the middle', object=kind, call=call, outcome=res['result'], raised=res.get('raised'), state=res.get('state'))
                     if (site == 'CQM.add_variables' and kind == 'cqm' and '2 new labels' in cls and cls.startswith('SPIN:')) else None)
            ctx.tick('bulk:' + res['result'])
            ctx.tick('bulk-site:' + site + ':' + ('raised' if res.get('raised') else 'accepted'))
            if res.get('state'):
                ctx.tick('bulk:state:' + ('prefix' if res['state'].startswith('prefix') else res['state'])); ctx.tick('bulk-state:' + site + ':' + ('prefix' if res['state'].startswith('prefix') else res['state']))
            repro = repro_src(kind, call)
            how = ('raised ' + res['raised']) if res.get('raised') else 'returned'
            if res['result'] == 'setup':
                ctx.fail('correspondence', 'harness', 'bulk setup', f'setup of {kind} for `{call}` failed: {res.get("what")}')
            elif res.get('prefix_raised'):
                ctx.fail('correspondence', 'harness', 'bulk valid prefix', f'the valid prefix of `{call}` on {kind}: {res["prefix_raised"][0]}')
            elif res['result'] == 'malformed':
                ctx.fail('property', f'{site} [{kind}]', cls + ' (native structures inconsistent afterwards)',
                         f'`{call}` on a fresh {kind} {how}; afterwards: {res["what"]}', repro=repro, detail=res)
            elif res['result'] == 'unreadable':
                ctx.fail('property', f'{site} [{kind}]', cls + ' (model unreadable afterwards)',
                         f'`{call}` on a fresh {kind} {how}; reading the model back: {res["what"]}', repro=repro, detail=res)
            elif res['result'] == 'unusable':
                ctx.fail('property', f'{site} [{kind}]', cls + ' (valid calls fail afterwards)',
                         f'`{call}` on a fresh {kind} {how}; the valid follow-up calls (new variable, terms on it, read back) then failed: {res["what"]}', repro=repro, detail=res)
    # (i) correspondence: `CQM.add_variables` against the Lean model of its loop (cppdriver `cyav`)
    from fractions import Fraction as F
    from harness.common import lab, rat, run_driver
    lines, expect, what = [], [], []
    def vtext(st):
        L, info = st
        return ((','.join(lab(v) for v in L) or '-') + ' ' + (','.join(f'{vt[0]}~{rat(F(lo))}~{rat(F(hi))}' for vt, lo, hi in info) or '-'))
    for (kind, site, cls, fmt, pre, bad, suf), res in all_results:
        cy = res.get('cy')
        if not cy or 'after' not in cy:
            continue
        vt, elems, lo, hi = cy['args']
        if vt in ('SPIN', 'BINARY'):
            lo, hi = (-1, 1) if vt == 'SPIN' else (0, 1)
        lbg, ubg = lo is not None, hi is not None
        lo = cy['dflt'][0] if lo is None else lo
        hi = cy['dflt'][1] if hi is None else hi
        lines.append(f'cyav {vtext(cy["before"])} {vt} {rat(F(lo))} {rat(F(hi))} {int(lbg)} {int(ubg)} ' + (','.join('!' if e[0] == '!' else lab(e[1]) for e in elems) or '-'))
        out = 'ok' if not res.get('raised') else {'ValueError': 'value', 'TypeError': 'type', 'RuntimeError': 'runtime'}.get(res['raised'].split(':')[0], res['raised'].split(':')[0])
        expect.append(out + ' ' + vtext(cy['after']))
        what.append((kind, site, cls, fmt % ', '.join(pre + [bad] + suf)))
    if lines:
        got = run_driver('cppdriver', lines)
        ctx.corr_lines += len(lines)
        for ln, e, g, (kind, site, cls, call) in zip(lines, expect, got, what):
            ctx.tick('cyav:' + e.split(' ')[0])
            if g != e:
                ctx.fail('correspondence', f'{site} [{kind}] vs Lean CyCqm.Vars.addVariables', cls, f'`{call}`: line `{ln}`: implementation `{e}` model `{g}`')
                break
    ctx.extra['bulk_seconds'] = round(time.time() - t0, 1)
    ctx.extra['bulk_cases'] = len(cs)
