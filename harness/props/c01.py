"""C01 — energy/energies is the value of the model's own polynomial at the sample.

(i)  correspondence: the Lean models of the evaluation loops (`DimodModel/Energy.lean`, driver
     `energydriver`): `abc.h::energy` / `cyQMBase._energies` (`cyenergies`, `energy`), `cyexpression._energies`
     (`exprenergies`), `pyBQM.energies` (`pyenergies`), `VartypeView.energies` (`viewenergies`), DQM (`dqm`),
     `BinaryPolynomial.energies` (`poly`) and `as_samples` (`assamples`) are run on the mirrored model and the
     same samples; results must be equal to the implementation's, errors included.
(ii) property predicate on the real code, independent of the model: for every encoding of the same rows the
     returned energies equal offset + sum(linear*value) + sum(quadratic*value*value) computed in exact
     Fractions from the coefficients the object itself reports; `as_samples` delivers for label l in row r the
     value the input assigns to l in row r; a sample that omits a used variable, or names a discrete case
     outside the range, raises.
"""
import itertools
import textwrap
from fractions import Fraction

import numpy as np

import dimod
from dimod import (BinaryQuadraticModel as BQM, QuadraticModel as QM, ConstrainedQuadraticModel as CQM,  # noqa: F401
                   DiscreteQuadraticModel as DQM, BinaryPolynomial, SampleSet)

from harness.common import lab, rat, run_driver
from harness.props import accessors as ACC, cqm_history as HIST
from harness.props.energy_common import (LABELS, Recipe, q8, F, fl, poly_value, rats, labs, rows_tok, introws_tok,
                                         adj_tok, qmb_tokens, domain, perm_of, dict_lit, encodings, run_child,
                                         exc_class, gen_bqm, gen_qm, edit_history)


class Batch:
    """driver lines collected during generation and compared at the end"""

    def __init__(self, ctx):
        self.ctx = ctx
        self.items = []
        self.other = {}

    def add(self, line, expect, site, input_class, what, detail=None, on_mismatch=None, driver='energydriver'):
        (self.items if driver == 'energydriver' else self.other.setdefault(driver, [])).append(
            (line, expect, site, input_class, what, detail, on_mismatch))

    def flush(self):
        for driver, items in [('energydriver', self.items)] + sorted((self.other or {}).items()):
            self.flush_one(driver, items)
        self.items, self.other = [], {}

    def flush_one(self, driver, items):
        if not items:
            return
        got = run_driver(driver, [it[0] for it in items])
        self.ctx.corr_lines += len(items)
        for i, (line, expect, site, ic, what, detail, on_mismatch) in enumerate(items):
            g = got[i] if i < len(got) else 'MISSING'
            if g != expect:
                if on_mismatch is not None and on_mismatch(g):
                    continue
                self.ctx.fail('correspondence', site, ic, f'{what}: implementation `{expect}` model `{g}`',
                              detail=dict(line=line, **(detail or {})))


# D33 (DESIGN.md): `energy([])` on a variable-free model returns 0, not the offset.  `as_samples([])` normalises the empty
# 1-d array-like to ZERO samples (shape (0, 0)), i.e. `[]` is dimod's way of writing "no samples", not the empty sample; the
# property quantifies over samples, so demanding the offset here would ask for more than it states.  The probe is kept but
# only counted (the empty sample is still exercised as `{}`, as a (1, 0) array and as a one-row SampleSet).
EMPTY_LIST_IS_A_SAMPLE = False

def enc_energies(expect):
    return 'ok ' + rats(expect)


def real_as_samples(enc):
    arr, labels = dimod.as_samples(enc)
    return [[F(x) for x in row] for row in np.asarray(arr).tolist()], list(labels)


# ------------------------------------------------------------------------------------------ as_samples

def sl_line(kind, rows, labels, orders=None):
    """driver encoding of a samples-like built from `rows` (list of dicts)"""
    if kind == 'dict':
        o = orders[0]
        return 'dict ' + (','.join(f'{lab(k)}={rat(F(rows[0][k]))}' for k in o) or '.')
    if kind == 'dicts':
        return 'dicts ' + (';'.join((','.join(f'{lab(k)}={rat(F(row[k]))}' for k in o) or '.') for row, o in zip(rows, orders)) or '-')
    raise ValueError(kind)


def check_as_samples(ctx, r, B):
    """direct check of `as_samples` on dict / list-of-dict / labelled array / plain array inputs"""
    n = r.choice([0, 1, 2, 3, 3, 4, 5])
    labels = r.sample(LABELS, n)
    k = r.choice([0, 1, 1, 2, 3, 4]) if n else r.choice([0, 1, 2])
    rows = [{l: r.choice([-2, -1, 0, 1, 3]) for l in labels} for _ in range(k)]
    kind = r.choice(['dict', 'dicts', 'dicts', 'dicts', 'lab', 'lab1', 'arr', 'arr1', 'ss', 'dicts-mismatch', 'lab-mismatch'])
    ctx.tick('as_samples:' + kind)
    hdr = 'import numpy as np, dimod\nfrom fractions import Fraction\n'
    # forms given without a dtype: a third of the time the largest magnitude sits exactly at the edge of an integer width
    bnd = kind in ('dict', 'dicts', 'lab1', 'arr1') and r.random() < .35

    def inject(rows_):
        if bnd and rows_ and rows_[0]:
            w_, bv_ = boundary_value(r)
            rows_[0][r.choice(list(rows_[0]))] = bv_
            ctx.tick(f'as_samples: boundary 2^{w_} ({kind})')
    if kind in ('dict', 'dicts', 'dicts-mismatch'):
        if kind == 'dict':
            rows = rows[:1] or [{l: 1 for l in labels}]
        inject(rows)
        orders = [perm_of(r, labels) for _ in rows]
        if kind != 'dict' and len(rows) >= 2 and n >= 3 and r.random() < .6:
            base = list(orders[0]); i, j, kk = r.sample(range(n), 3)
            cyc = list(base); cyc[i], cyc[j], cyc[kk] = base[j], base[kk], base[i]
            orders[1] = cyc
        if kind == 'dicts-mismatch':
            if len(rows) < 2 or not n:
                return
            # a later dict with another key set must be rejected
            extra = next(l for l in LABELS if l not in labels)
            orders[-1] = orders[-1][:-1] + [extra]
            rows[-1] = dict(rows[-1]); rows[-1][extra] = 1
        expr = dict_lit(rows[0], orders[0]) if kind == 'dict' else '[' + ', '.join(dict_lit(row, o) for row, o in zip(rows, orders)) + ']'
        if kind != 'dict' and not rows:
            return  # `[]` is an array-like, covered by arr1
        line = 'assamples ' + sl_line('dict' if kind == 'dict' else 'dicts', rows, labels, orders)
        differing = any(o != orders[0] for o in orders)
        ic = ('dict' if kind == 'dict' else 'list of dicts with unequal key sets' if kind == 'dicts-mismatch' else
              'list of dicts in differing key orders' if differing else 'list of dicts in one key order')
        truth = rows
    elif kind in ('lab', 'lab1', 'ss', 'lab-mismatch'):
        perm = perm_of(r, labels)
        if kind == 'lab1':
            rows = rows[:1]
            inject(rows)
        if kind == 'ss' and (not rows or not n):
            return
        mat = [[row[l] for l in perm] for row in rows]
        lablist = list(perm)
        if kind == 'lab-mismatch':
            if not rows or not n:
                return
            lablist = lablist + [next(l for l in LABELS if l not in labels)]
        if kind == 'lab1':
            expr = f'({(mat[0] if mat else [])!r}, {lablist!r})'
            line = f'assamples lab1 {rats(mat[0] if mat else [])} {labs(lablist)}'
        elif kind == 'ss':
            expr = f'dimod.SampleSet.from_samples((np.array({mat!r}).reshape({len(rows)}, {n}), {lablist!r}), "INTEGER", energy={[0] * len(rows)!r}, sort_labels=False)'
            line = f'assamples ss {rows_tok(mat)} {labs(lablist)}'
        else:
            expr = f'(np.array({mat!r}, dtype=np.int8).reshape({len(rows)}, {n}), {lablist!r})'
            line = f'assamples lab {rows_tok(mat)} {labs(lablist)}'
        ic = {'lab': 'labelled 2-d array', 'lab1': 'labelled 1-d array', 'ss': 'SampleSet', 'lab-mismatch': 'labels/columns mismatch'}[kind]
        truth = rows
    else:
        labels = list(range(n))
        rows = [{l: r.choice([-2, -1, 0, 1, 3]) for l in labels} for _ in range(k)]
        if kind == 'arr1':
            rows = rows[:1]
            inject(rows)
        mat = [[row[l] for l in labels] for row in rows]
        if kind == 'arr1':
            expr = repr(mat[0] if mat else [])
            line = f'assamples arr1 {rats(mat[0] if mat else [])}'
        else:
            if not rows:
                return
            expr = f'np.array({mat!r}, dtype=np.int8).reshape({len(rows)}, {n})'
            line = f'assamples arr {rows_tok(mat)}'
        ic = 'unlabelled 1-d array' if kind == 'arr1' else 'unlabelled 2-d array'
        truth = rows
    try:
        enc = eval(expr, {'np': np, 'dimod': dimod})
        got_rows, got_labels = real_as_samples(enc)
        out = f'ok {rows_tok(got_rows)} {labs(got_labels)}'
        ok = True
    except Exception as e:  # noqa
        out = 'err ' + exc_class(e)
        ok = False
    ctx.case(('as_samples', expr), nontrivial=bool(rows) and n > 0, sample=dict(as_samples=expr) if kind == 'dicts' and n >= 3 else None)
    repro = hdr + textwrap.dedent(f'''
        enc = {expr}
        truth = {truth!r}
        arr, labels = dimod.as_samples(enc)
        assert len(arr) == len(truth), (arr, labels)
        for r, row in enumerate(truth):
            for l, x in row.items():
                assert arr[r][list(labels).index(l)] == x, ('row', r, 'label', l, 'delivered', arr[r][list(labels).index(l)], 'input assigns', x)
        ''')
    if kind in ('dicts-mismatch', 'lab-mismatch'):
        if ok:
            ctx.fail('property', 'as_samples', ic, f'accepted {expr}', repro=hdr + f'try:\n    dimod.as_samples({expr})\nexcept Exception:\n    pass\nelse:\n    raise AssertionError("accepted")\n')
    elif ok:
        # (ii): value delivered for label l in row r == value the input assigns
        bad = None
        if len(got_rows) != len(truth) and not (kind in ('arr1', 'lab1') and not n):  # an empty 1-d array-like denotes 'no samples' (D33)
            bad = f'{len(got_rows)} rows for {len(truth)} samples'
        else:
            for ri, row in enumerate(truth):
                for l, x in row.items():
                    if l not in got_labels or got_rows[ri][got_labels.index(l)] != x:
                        bad = f'row {ri} label {l!r}: delivered {got_rows[ri][got_labels.index(l)] if l in got_labels else None}, the input assigns {x}'
                        break
                if bad:
                    break
        if bad:
            ctx.fail('property', 'as_samples', ic + ('; largest magnitude at the edge of an integer width' if bnd else ''),
                     f'{bad}; input {expr}', repro=repro, detail=dict(input=expr))
    else:
        ctx.fail('property', 'as_samples', ic, f'valid input rejected ({out}): {expr}', repro=repro)
    B.add(line, out, 'as_samples', ic, f'as_samples({expr})', detail=dict(input=expr))


# ------------------------------------------------------------------------------------------ as_samples: remaining forms (round 7)

def sl_elem(r, kind, rows, labels):
    """one element of an iterator of samples-likes: (python expression, driver tokens)"""
    if kind == 'dict':
        o = perm_of(r, labels)
        return dict_lit(rows[0], o), 'dict ' + (','.join(f'{lab(k)}={rat(F(rows[0][k]))}' for k in o) or '.')
    perm = perm_of(r, labels)
    mat = [[row[l] for l in perm] for row in rows]
    if kind == 'lab':
        return f'(np.array({mat!r}).reshape({len(rows)}, {len(perm)}), {perm!r})', f'lab {rows_tok(mat)} {labs(perm)}'
    if kind == 'lab1':
        return f'({mat[0]!r}, {perm!r})', f'lab1 {rats(mat[0])} {labs(perm)}'
    if kind == 'ss':
        return (f'dimod.SampleSet.from_samples((np.array({mat!r}).reshape({len(rows)}, {len(perm)}), {perm!r}), "INTEGER", '
                f'energy={[0] * len(rows)!r}, sort_labels=False)'), f'ss {rows_tok(mat)} {labs(perm)}'
    raise ValueError(kind)


def check_as_samples_forms(ctx, r, B):
    """the input forms beyond the seven of `SL`: iterators / generators / map objects / sequences containing a mapping whose
    ELEMENTS are samples-likes of any form (dicts, labelled arrays with several rows, SampleSets), incl. the state the iterator
    object is left in (one-shot); the deprecated (Mapping, labels) tuple; (iterator, labels) and wrong-length tuples; the dtype
    picked for integer input without a dtype."""
    hdr = 'import warnings; warnings.simplefilter("ignore")\nimport numpy as np, dimod\n'
    ns = {'np': np, 'dimod': dimod}
    kind = r.choice(['iter', 'iter', 'iter', 'mapping-labels', 'tuple-errors', 'dtype', 'dtype'])
    ctx.tick('as_samples forms:' + kind)
    if kind == 'iter':
        n = r.choice([1, 2, 3, 3, 4])
        labels = r.sample(LABELS, n)
        nel = r.choice([1, 2, 2, 3, 4])
        elems, toks, truth = [], [], []
        bad_at = r.randrange(nel) if nel >= 2 and r.random() < .2 else None
        first_order = None
        for i in range(nel):
            ek = r.choice(['dict', 'dict', 'lab', 'lab1', 'ss'])
            k = 1 if ek in ('dict', 'lab1') else r.choice([1, 2, 3])
            ls = list(labels)
            if i == bad_at and i > 0:
                ls = ls[:-1] + [next(l for l in LABELS if l not in labels)]
            rows = [{l: r.choice([-2, -1, 0, 1, 3]) for l in ls} for _ in range(k)]
            e, t = sl_elem(r, ek, rows, ls)
            elems.append(e); toks.append(t); truth.append(rows)
            # branch of `_as_samples_iterator` this element takes (labels == first_labels / re-index / ValueError)
            order_i = t.split(' ')[-1] if ek != 'dict' else ','.join(kv.split('=')[0] for kv in t.split(' ')[1].split(','))
            if i == 0:
                first_order = order_i
            else:
                ctx.tick('as_samples branch: iterator element ' + ('with another label set' if i == bad_at else
                                                                   'in the first element\'s label order' if order_i == first_order else 're-indexed'))
            ctx.tick(f'as_samples branch: iterator element of form {ek}')
        if bad_at == 0:
            bad_at = None
        has_map = any(e.startswith('{') for e in elems)
        wrap = r.choice(['iter', 'generator', 'map'] + (['list', 'list'] if has_map else []))
        lst = '[' + ', '.join(elems) + ']'
        expr = {'iter': f'iter({lst})', 'generator': f'(e_ for e_ in {lst})', 'map': f'map(lambda e_: e_, {lst})', 'list': lst}[wrap]
        ic = f'iterator of samples-likes ({wrap})' + ('; an element with another label set' if bad_at is not None else '')
        line = 'assamplesiter ' + ' / '.join(toks)
        ctx.tick('as_samples forms: wrapper ' + wrap)
        flat = [row for rows in truth for row in rows]
        repro = hdr + f'enc = {expr}\ntruth = {flat!r}\narr, labels = dimod.as_samples(enc)\nassert len(arr) == len(truth), (arr, labels)\n' \
            'for r, row in enumerate(truth):\n    for l, x in row.items():\n        assert arr[r][list(labels).index(l)] == x, (r, l, arr[r], x)\n'
        ctx.case(('as_samples forms', expr), nontrivial=True)
        it = eval(expr, ns)
        one_shot = wrap in ('iter', 'generator', 'map')
        try:
            arr, got_labels = dimod.as_samples(it)
            got_rows = [[F(x) for x in row] for row in np.asarray(arr).tolist()]
            got_labels = list(got_labels)
            out = f'ok {rows_tok(got_rows)} {labs(got_labels)}'
            ok = True
        except Exception as e:  # noqa
            out, ok = 'err ' + exc_class(e), False
        left = len(list(it)) if one_shot else None
        if bad_at is not None:
            if ok:
                ctx.fail('property', 'as_samples', ic, f'accepted {expr}', repro=hdr + f'try:\n    dimod.as_samples({expr})\nexcept ValueError:\n    pass\nelse:\n    raise AssertionError("accepted")\n')
        elif not ok:
            ctx.fail('property', 'as_samples', ic, f'valid input rejected ({out}): {expr}', repro=repro)
        else:
            bad = None
            if len(got_rows) != len(flat):
                bad = f'{len(got_rows)} rows for {len(flat)} samples'
            else:
                for ri, row in enumerate(flat):
                    for l, x in row.items():
                        if l not in got_labels or got_rows[ri][got_labels.index(l)] != x:
                            bad = f'row {ri} label {l!r}: delivered {got_rows[ri][got_labels.index(l)] if l in got_labels else None}, the input assigns {x}'
                            break
                    if bad:
                        break
            if bad:
                ctx.fail('property', 'as_samples', ic, f'{bad}; input {expr}', repro=repro, detail=dict(input=expr))
            if one_shot:
                # Lean: as_samples_iterator_one_shot — the same iterator object asked again yields zero samples
                arr2, labels2 = dimod.as_samples(it)
                ctx.tick('as_samples forms: iterator asked twice')
                if np.asarray(arr2).shape != (0, 0) or list(labels2):
                    ctx.fail('correspondence', 'as_samples', ic + '; same iterator object asked again', f'second call returned {np.asarray(arr2).tolist()} {list(labels2)}, model: zero samples')

        def same(g, out=out, left=left):
            res, _, lf = g.rpartition(' left=')
            return res == out and (left is None or int(lf) == left)
        B.add(line, '', 'as_samples', ic, f'as_samples({expr}) [iterator left with {left} elements]', detail=dict(input=expr), on_mismatch=same)
    elif kind == 'mapping-labels':
        n = r.choice([0, 1, 2, 3, 4])
        labels = r.sample(LABELS, n)
        row = {l: r.choice([-2, -1, 0, 1, 3]) for l in labels}
        order = perm_of(r, labels)
        given = perm_of(r, labels)
        how = r.choice(['all', 'all', 'all', 'subset', 'missing', 'duplicate'])
        if how == 'subset' and n >= 2:
            given = given[:-1]
        elif how == 'missing':
            given = given + [next(l for l in LABELS if l not in labels)]
        elif how == 'duplicate' and n:
            given = given + [given[0]]
        else:
            how = 'all'
        expr = f'({dict_lit(row, order)}, {given!r})'
        ic = f'deprecated (Mapping, labels) tuple; labels: {how}'
        ctx.case(('as_samples forms', expr), nontrivial=bool(n))
        import warnings
        try:
            with warnings.catch_warnings():
                warnings.simplefilter('ignore')
                arr, got_labels = dimod.as_samples(eval(expr, ns))
            got_rows = [[F(x) for x in rw] for rw in np.asarray(arr).tolist()]
            out, ok = f'ok {rows_tok(got_rows)} {labs(got_labels)}', True
        except Exception as e:  # noqa
            out, ok = 'err ' + exc_class(e), False
        if how in ('all', 'subset'):
            repro = hdr + f'arr, labels = dimod.as_samples({expr})\nrow = {row!r}\nassert list(labels) == {given!r} and len(arr) == 1\n' \
                'for j, l in enumerate(labels):\n    assert arr[0][j] == row[l]\n'
            if not ok:
                ctx.fail('property', 'as_samples', ic, f'valid input rejected ({out}): {expr}', repro=repro)
            elif list(got_labels) != given or len(got_rows) != 1 or any(got_rows[0][j] != row[l] for j, l in enumerate(given)):
                ctx.fail('property', 'as_samples', ic, f'delivered {got_rows} under {list(got_labels)}; input {expr}', repro=repro)
        elif ok:
            ctx.fail('property', 'as_samples', ic, f'accepted {expr} -> {out}',
                     repro=hdr + f'try:\n    dimod.as_samples({expr})\nexcept ValueError:\n    pass\nelse:\n    raise AssertionError("accepted")\n')
        B.add(f'assamplesml {",".join(f"{lab(k)}={rat(F(row[k]))}" for k in order) or "."} {labs(given)}', out, 'as_samples', ic, f'as_samples({expr})', detail=dict(input=expr))
    elif kind == 'tuple-errors':
        for expr, exc in (("(iter([1, 0]), ['a', 'b'])", TypeError), ("([1, 0], ['a', 'b'], 3)", ValueError), ("([1, 0],)", ValueError)):
            ctx.case(('as_samples forms', expr), nontrivial=True)
            try:
                dimod.as_samples(eval(expr, ns))
                got = None
            except Exception as e:  # noqa
                got = type(e)
            if got is not exc:
                ctx.fail('property' if got is None else 'correspondence', 'as_samples', 'malformed tuple', f'{expr}: {got}, model: {exc.__name__}',
                         repro=hdr + f'try:\n    dimod.as_samples({expr})\nexcept Exception:\n    pass\nelse:\n    raise AssertionError("accepted")\n')
    else:
        # dtype: nested list of Python ints, one entry at the edge of a width (all four widths incl. ±(2^63 - 1) and -2^63)
        n, k = r.choice([1, 2, 3]), r.choice([1, 2, 3])
        mat = [[r.choice([-3, -1, 0, 1, 2, 100, -100]) for _ in range(n)] for _ in range(k)]
        w = r.choice([7, 7, 15, 15, 31, 31, 63])
        bv = r.choice([2 ** w, -(2 ** w), 2 ** w - 1, -(2 ** w) + 1, 2 ** w + 1, -(2 ** w) - 1])
        if bv > 2 ** 63 - 1 or bv < -2 ** 63:
            bv = 2 ** 63 - 1
        if w > 7 or abs(bv) > 100 or r.random() < .8:
            mat[r.randrange(k)][r.randrange(n)] = bv
        form = r.choice(['list', 'list+labels', 'dicts', 'dict'])
        labels = list(range(n))
        if form == 'list':
            expr = repr(mat)
        elif form == 'list+labels':
            expr = f'({mat!r}, {labels!r})'
        elif form == 'dicts':
            expr = '[' + ', '.join('{' + ', '.join(f'{j}: {row[j]}' for j in range(n)) + '}' for row in mat) + ']'
        else:
            mat = mat[:1]
            expr = '{' + ', '.join(f'{j}: {mat[0][j]}' for j in range(n)) + '}'
        ic = f'integer samples without a dtype; extreme entry {"+" if bv > 0 else "-"}2^{w}' + \
            ('' if abs(bv) == 2 ** w else '-1' if abs(bv) < 2 ** w else '+1') + f' ({form})'
        ctx.tick(f'as_samples forms: dtype 2^{w}')
        ctx.case(('as_samples forms', expr), nontrivial=True)
        repro = hdr + f'arr, labels = dimod.as_samples({expr})\nassert arr.tolist() == {mat!r}, (arr.dtype, arr.tolist())\n'
        try:
            arr, _ = dimod.as_samples(eval(expr, ns))
            arr = np.asarray(arr)
            ok = True
        except Exception as e:  # noqa
            ok, out = False, 'err ' + exc_class(e)
        if ok:
            if arr.tolist() != mat:
                ctx.fail('property', 'as_samples', ic, f'delivered {arr.tolist()} (dtype {arr.dtype}) for {mat}', repro=repro, detail=dict(input=expr))
                return
            out = f'ok {arr.dtype.name} {introws_tok(arr.tolist())}'
            ctx.tick(f'as_samples branch: _sample_array picked {arr.dtype.name}')
        else:
            ctx.fail('property', 'as_samples', ic, f'valid input rejected ({out}): {expr}', repro=repro)
        if form != 'dicts' or k == 1:   # a list of dicts picks the type per element and lets vstack promote
            B.add(f'samplearray {introws_tok(mat)}', out, 'sampleset._sample_array', ic, f'as_samples({expr})', detail=dict(input=expr))


# ------------------------------------------------------------------------------------------ quadratic models

def sample_rows(r, labels, dom, extras=(), k=None):
    k = r.choice([0, 1, 1, 2, 3]) if k is None else k
    rows = []
    for _ in range(k):
        row = {l: r.choice(dom(l)) for l in labels}
        for e in extras:
            row[e] = r.choice([0, 1])
        rows.append(row)
    return rows


def as_samples_wrong(enc_expr, rows, ns):
    """does as_samples itself misdeliver a value for this encoding?"""
    try:
        arr, labels = dimod.as_samples(eval(enc_expr, ns))
    except Exception:  # noqa
        return False
    labels = list(labels)
    if len(arr) != len(rows):
        return False
    for ri, row in enumerate(rows):
        for l, x in row.items():
            if l in labels and F(arr[ri][labels.index(l)]) != F(x):
                return True
    return False


def check_energies(ctx, r, B, R, target, site, labels_used, all_labels, dom, mirror, oracle_src='poly_value(t, row)',
                   oracle=None, vartype_name='INTEGER', allow_float=True, degenerate=None, all_dtypes=False, nrows=None, exact=None):
    """one target object (expression `target` in recipe R): every encoding of a few rows.
    `mirror(rows_delivered, labels_delivered)` -> driver line computing the energies in the model;
    `oracle(t, row)` -> exact Fraction from reported coefficients."""
    t = R.ev(target)
    oracle = oracle or poly_value
    if hasattr(t, 'iter_quadratic') and hasattr(t, 'get_quadratic') and r.random() < .5:
        # every read accessor of the object reports the polynomial `oracle` reads through iter_linear / iter_quadratic
        check_reads(ctx, R, target, site.replace('.energies', ''), degenerate or 'model as built or as an edit history left it')
    extras = [l for l in all_labels if l not in labels_used]
    if r.random() < .3:
        extras = extras + [l for l in LABELS if l not in all_labels][:1]
    sample_labels = list(labels_used) + (extras if r.random() < .5 else [l for l in extras if l in all_labels])
    sample_labels = perm_of(r, sample_labels)
    rows = sample_rows(r, labels_used, dom, [l for l in sample_labels if l not in labels_used], k=nrows)
    if exact is not None:
        rows = [row for row in rows if exact(t, row)]   # keep float64 arithmetic exact (cut otherwise)
    expect = [oracle(t, row) for row in rows]
    shape = degenerate or ('no variables' if not labels_used else 'no interactions' if not any(True for _ in t.iter_quadratic()) else 'general') \
        if hasattr(t, 'iter_quadratic') else (degenerate or 'general')
    for name, enc_expr, info in encodings(r, rows, sample_labels, vartype_name, allow_float, all_dtypes=all_dtypes):
        ctx.tick(f'{site}:{name}')
        ic = shape if shape != 'general' else f'general; encoding={name}' + (f' ({info["orders"]})' if 'orders' in info else '')
        repro = R.script(textwrap.dedent(f'''
            t = {target}
            enc = {enc_expr}
            rows = {rows!r}
            got = [F(e) for e in t.energies(enc)]
            exp = [{oracle_src} for row in rows]
            assert got == exp, ('energies', got, 'polynomial of the reported coefficients', exp)
            '''))
        try:
            enc = R.ev(enc_expr)
            got = [F(e) for e in t.energies(enc)]
        except Exception as e:  # noqa
            ctx.case((site, target, enc_expr, R.lines[-1]), nontrivial=True)
            if name.startswith('dicts') and as_samples_wrong(enc_expr.replace('iter(', '(') if name == 'dicts-iter' else enc_expr, rows, R.ns):
                ctx.fail('property', 'as_samples', 'list of dicts in differing key orders',
                         f'{site}: {type(e).__name__} because as_samples delivers other values than the input assigns; input {enc_expr}', repro=repro)
            else:
                ctx.fail('property', site, ic, f'{type(e).__name__}: {e} for a sample that assigns every variable', repro=repro,
                         detail=dict(encoding=enc_expr))
            continue
        ctx.case((site, tuple(R.lines[4:]), target, enc_expr), nontrivial=bool(rows) and bool(labels_used),
                 sample=dict(model=R.lines[4:], target=target, encoding=enc_expr, energies=[str(x) for x in got])
                 if name == 'dicts' and len(rows) > 1 else None)
        if got != expect:
            if name.startswith('dicts') and as_samples_wrong(enc_expr.replace('iter(', '(') if name == 'dicts-iter' else enc_expr, rows, R.ns):
                ctx.fail('property', 'as_samples', 'list of dicts in differing key orders',
                         f'{site}: energies {list(map(str, got))} != {list(map(str, expect))} because as_samples delivers other values than the input assigns; input {enc_expr}',
                         repro=repro, detail=dict(encoding=enc_expr))
            else:
                ctx.fail('property', site, ic, f'energies {list(map(str, got))} but the polynomial of the reported coefficients gives '
                         f'{list(map(str, expect))}', repro=repro, detail=dict(encoding=enc_expr, rows=repr(rows)))
            continue
        # the same call with an explicit result dtype (`energies(samples_like, dtype=…)`): the same values
        if rows and r.random() < .35:
            exact32 = all(Fraction(float(np.float32(float(e)))) == e and abs(e) < 2 ** 20 for e in expect)
            for dname in (['np.float64'] + (['np.float32'] if exact32 and allow_float else [])):
                try:
                    got2 = [F(e) for e in t.energies(R.ev(enc_expr), dtype=R.ev(dname))]
                except TypeError as e:
                    if 'dtype' in str(e) or 'keyword' in str(e):
                        ctx.tick(f'{site}: energies has no dtype argument')
                        break
                    got2 = f'{type(e).__name__}: {e}'
                except Exception as e:  # noqa
                    got2 = f'{type(e).__name__}: {e}'
                ctx.tick(f'{site}: energies(dtype={dname})')
                ctx.case((site, tuple(R.lines[4:]), target, enc_expr, dname), nontrivial=bool(labels_used))
                if got2 != expect:
                    ctx.fail('property', site, ic + f'; dtype={dname}', f'energies(…, dtype={dname}) gives {got2 if isinstance(got2, str) else list(map(str, got2))} '
                             f'but the polynomial of the reported coefficients gives {list(map(str, expect))}',
                             repro=repro.replace('t.energies(enc)', f't.energies(enc, dtype={dname})'), detail=dict(encoding=enc_expr))
                    break
        # (i) the model of the loop on what as_samples delivers
        try:
            d_rows, d_labels = real_as_samples(R.ev(enc_expr))
        except Exception:  # noqa
            continue
        line = mirror(d_rows, d_labels)
        if line:
            B.add(line, enc_energies(got), site, ic, f'{target}.energies({enc_expr})', detail=dict(model=R.lines[4:]))
    # a sample that omits a used variable must be rejected
    if labels_used and rows:
        miss = r.choice(list(labels_used))
        row = {l: x for l, x in rows[0].items() if l != miss}
        enc_expr = dict_lit(row, list(row))
        ctx.tick(f'{site}:missing')
        ctx.case((site, tuple(R.lines[4:]), target, 'missing', enc_expr), nontrivial=True)
        try:
            got = t.energies(R.ev(enc_expr))
            ctx.fail('property', site, 'sample omits a variable', f'accepted {enc_expr} (missing {miss!r}) -> {got}',
                     repro=R.script(f't = {target}\ntry:\n    t.energies({enc_expr})\nexcept Exception:\n    pass\nelse:\n    raise AssertionError("sample without {miss!r} accepted")\n'))
            out = 'ok'
        except Exception as e:  # noqa
            out = 'err'
        line = mirror([[F(row[l]) for l in row]], list(row))
        if line:
            B.add(line, out, site, 'sample omits a variable', f'{target}.energies({enc_expr})', detail=dict(model=R.lines[4:]),
                  on_mismatch=lambda g, out=out: g.split(' ')[0] == out)


def case_bqm(ctx, r, B):
    R = Recipe()
    dtype = r.choice(['np.float64', 'np.float32', 'object'])
    labels, vt = gen_bqm(r, R, dtype=dtype)
    if labels and r.random() < .3:
        # energies of a model an edit history left behind (relabelled, contracted, copied, converted …), not only of a fresh one
        if edit_history(ctx, r, R, dtype, nops=r.randint(1, 3), tag='history op before energies') is None:
            return
        labels, vt = list(R['m'].variables), R['m'].vartype.name
        if any(abs(F(b)) > 64 for _, b in R['m'].iter_linear()) or any(abs(F(b)) > 64 for _, _, b in R['m'].iter_quadratic()):
            return
        ctx.tick('energies after an edit history')
    m = R['m']
    is_py = dtype == 'object'
    for target in ['m', 'm.spin', 'm.binary']:
        t = R.ev(target)
        tvt = t.vartype.name
        is_view = tvt != vt
        site = ('BQM[object]' if is_py else 'BQM[float32]' if dtype == 'np.float32' else 'BQM') + ('(view)' if is_view else '') + '.energies'
        dom = lambda l, tvt=tvt: domain(tvt)  # noqa

        def mirror(d_rows, d_labels, is_view=is_view, tvt=tvt):
            l, a, o = qmb_tokens(m, r=r)
            ml = labs(m.variables)
            if is_view:
                return f'viewenergies {tvt} {vt} {int(is_py)} {l} {a} {o} {ml} {rows_tok(d_rows)} {labs(d_labels)}'
            return f'{"pyenergies" if is_py else "cyenergies"} {l} {a} {o} {ml} {rows_tok(d_rows)} {labs(d_labels)}'
        check_energies(ctx, r, B, R, target, site, labels, labels, dom, mirror, vartype_name=tvt)
    # the C++ loop, the Cython loop and the reported polynomial on plain vectors (model order)
    if not is_py and labels:
        x = [r.choice(domain(vt)) for _ in labels]
        l, a, o = qmb_tokens(m, r=r)
        e = poly_value(m, dict(zip(m.variables, x)))
        B.add(f'energy {l} {a} {o} {rats(x)}', f'{rat(e)} {rat(e)} {rat(e)}', 'abc.h::energy', 'plain vector', 'three evaluations of one sample',
              detail=dict(model=R.lines[4:]))
        B.add(f'energygen {l} {a} {o} {rats(x)}', f'{rat(e)} {rat(e)}', 'abc.h::energy', 'plain vector; loops over the guards regenerated from the source',
              'C++ and Cython loops with generated guards', detail=dict(model=R.lines[4:]))
    # D33: the only array-like sample of a variable-free model
    if not labels:
        ctx.tick('energy([])')
        ctx.case(('energy([])', tuple(R.lines[4:])), nontrivial=True)
        try:
            e = F(m.energy([]))
        except Exception:  # noqa  rejecting `[]` is acceptable
            e = None
        if EMPTY_LIST_IS_A_SAMPLE and e is not None and e != F(m.offset):
            ctx.fail('property', 'BQM.energy', 'empty 1-d array-like on a variable-free model',
                     f'energy([]) = {e} but the model is the constant {F(m.offset)} (energy({{}}) = {m.energy({})})',
                     repro=R.script('assert F(m.energy([])) == F(m.offset), (m.energy([]), m.offset)\n'))


def case_qm(ctx, r, B):
    R = Recipe()
    labels, vts = gen_qm(r, R)
    m = R['m']
    dom = lambda l: domain(vts[l])  # noqa

    def mirror(d_rows, d_labels):
        l, a, o = qmb_tokens(m, r=r)
        return f'cyenergies {l} {a} {o} {labs(m.variables)} {rows_tok(d_rows)} {labs(d_labels)}'
    names = set(vts.values())
    vtn = 'SPIN' if names <= {'SPIN'} and names else 'BINARY' if names <= {'BINARY'} and names else 'INTEGER'
    check_energies(ctx, r, B, R, 'm', 'QM.energies', labels, labels, dom, mirror, vartype_name=vtn,
                   allow_float=True)
    if labels:
        x = [r.choice(dom(l)) for l in m.variables]
        l, a, o = qmb_tokens(m, r=r)
        e = poly_value(m, dict(zip(m.variables, x)))
        B.add(f'energy {l} {a} {o} {rats(x)}', f'{rat(e)} {rat(e)} {rat(e)}', 'abc.h::energy', 'plain vector', 'three evaluations of one sample',
              detail=dict(model=R.lines[4:]))
        B.add(f'energygen {l} {a} {o} {rats(x)}', f'{rat(e)} {rat(e)}', 'abc.h::energy', 'plain vector; loops over the guards regenerated from the source',
              'C++ and Cython loops with generated guards', detail=dict(model=R.lines[4:]))
    else:
        try:
            e = F(m.energy([]))
        except Exception:  # noqa
            e = None
        if EMPTY_LIST_IS_A_SAMPLE and e is not None and e != F(m.offset):
            ctx.fail('property', 'QM.energy', 'empty 1-d array-like on a variable-free model',
                     f'energy([]) = {e} but the model is the constant {F(m.offset)}',
                     repro=R.script('assert F(m.energy([])) == F(m.offset), (m.energy([]), m.offset)\n'))


def case_cqm(ctx, r, B):
    """objective and constraints of a CQM; every expression uses its own subset of the variables, some none"""
    R = Recipe()
    n = r.choice([1, 2, 3, 4, 5])
    labels = r.sample(LABELS, n)
    R.do('c = CQM()')
    vts = {}
    for l in labels:
        vt = r.choice(['BINARY', 'SPIN', 'INTEGER', 'REAL'])
        vts[l] = vt
        if vt in ('INTEGER', 'REAL'):
            R.do(f'c.add_variable({vt!r}, {l!r}, lower_bound=-4, upper_bound=8)')
        else:
            R.do(f'c.add_variable({vt!r}, {l!r})')
    nexpr = r.choice([1, 2, 3])
    targets = []
    for ei in range(nexpr + 1):
        sub = [l for l in labels if r.random() < .6] if r.random() < .8 else []
        sub = perm_of(r, sub)
        R.do(f'q{ei} = QM()')
        for l in sub:
            if vts[l] in ('INTEGER', 'REAL'):
                R.do(f'q{ei}.add_variable({vts[l]!r}, {l!r}, lower_bound=-4, upper_bound=8)')
            else:
                R.do(f'q{ei}.add_variable({vts[l]!r}, {l!r})')
            if r.random() < .8:
                R.do(f'q{ei}.set_linear({l!r}, {fl(q8(r))})')
        if sub:
            for _ in range(r.choice([0, 1, 2, 4])):
                u, v = r.choice(sub), r.choice(sub)
                if (u == v and vts[u] in ('BINARY', 'SPIN')) or 'REAL' in (vts[u], vts[v]):
                    continue
                R.do(f'q{ei}.add_quadratic({u!r}, {v!r}, {fl(q8(r))})')
        if r.random() < .8 or not sub:
            R.do(f'q{ei}.offset = {fl(q8(r, 1, 16))}')
        if ei == 0:
            R.do('c.set_objective(q0)')
            targets.append(('c.objective', 'CQM.objective.energies', sub))
        else:
            sense = r.choice(['<=', '>=', '=='])
            R.do(f'c.add_constraint_from_model(q{ei}, {sense!r}, {fl(q8(r))}, label={f"k{ei}"!r})')
            targets.append((f'c.constraints[{f"k{ei}"!r}].lhs', 'CQM.constraint.lhs.energies', sub))
    c = R['c']
    dom = lambda l: domain(vts[l])  # noqa
    for target, site, sub in targets:
        t = R.ev(target)
        used = list(t.variables)

        def mirror(d_rows, d_labels, t=t):
            order = list(t.variables)
            l, a, o = qmb_tokens(t, order=order, r=r)
            vars_tok = ','.join(str(c.variables.index(v)) for v in order) or '-'
            return f'exprenergies {vars_tok}|{l}|{a}|{o} {labs(c.variables)} {rows_tok(d_rows)} {labs(d_labels)}'
        check_energies(ctx, r, B, R, target, site, used, labels, dom, mirror,
                       degenerate='expression without variables' if not used else None)
        if not used:
            try:
                e = F(t.energy([]))
            except Exception:  # noqa
                e = None
            if EMPTY_LIST_IS_A_SAMPLE and e is not None and e != F(t.offset) and F(t.energy({})) == F(t.offset):
                ctx.fail('property', site.replace('energies', 'energy'), 'empty 1-d array-like on a variable-free model',
                         f'energy([]) = {e} but the expression is the constant {F(t.offset)}',
                         repro=R.script(f't = {target}\nassert F(t.energy([])) == F(t.offset), (t.energy([]), t.offset)\n'))


# ------------------------------------------------------------------------------------------ wide integer values

WIDE = sorted(set([0, 1, -1, 11, 12, -12, 127, 128, -128, 181, 182, -182, 255, 256, 32767, 32768, -32768, 46340, 46341, -46341, 65535, 65536]
                  + [s * (2 ** k + d) for k in range(2, 21) for d in (-1, 0, 1) for s in (1, -1)]))


def exact_in_double(t, row):
    """every term and every partial sum of the evaluation stays an integer multiple of 1/8 below 2^52"""
    tot = abs(F(t.offset))
    for v, b in t.iter_linear():
        tot += abs(F(b) * F(row[v]))
    for u, v, b in t.iter_quadratic():
        tot += abs(F(b) * F(row[u]) * F(row[v]))
    return tot * 8 < 2 ** 52


def case_wide(ctx, r, B):
    """INTEGER variables with wide bounds, sample values around powers of two and the int8/int16/int32 product boundaries,
    every sample dtype: the pair product of two sample values must not be formed in the samples' integer type"""
    R = Recipe()
    n = r.choice([1, 2, 2, 3, 4])
    labels = r.sample(LABELS, n)
    kind = r.choice(['qm', 'cqm-objective', 'cqm-constraint', 'cqm-constraint'])
    R.do('q = QM()')
    vts = {}
    for l in labels:
        vts[l] = 'INTEGER' if r.random() < .85 else 'BINARY'
        R.do(f'q.add_variable({vts[l]!r}, {l!r}' + (', lower_bound=-4194304, upper_bound=4194304)' if vts[l] == 'INTEGER' else ')'))
        if r.random() < .7:
            R.do(f'q.set_linear({l!r}, {fl(q8(r))})')
    for _ in range(r.choice([1, 2, 3, 5])):
        u, v = r.choice(labels), r.choice(labels)
        if u == v and vts[u] != 'INTEGER':
            continue
        R.do(f'q.add_quadratic({u!r}, {v!r}, {fl(q8(r))})')
    if r.random() < .7:
        R.do(f'q.offset = {fl(q8(r))}')
    dom = lambda l: (WIDE if r.random() < .8 else [-3, 0, 2, 7]) if vts[l] == 'INTEGER' else [0, 1]  # noqa
    if kind == 'qm':
        m = R['q']

        def mirror(d_rows, d_labels):
            l, a, o = qmb_tokens(m, r=r)
            return f'cyenergies {l} {a} {o} {labs(m.variables)} {rows_tok(d_rows)} {labs(d_labels)}'
        check_energies(ctx, r, B, R, 'q', 'QM.energies', labels, labels, dom, mirror, all_dtypes=True, nrows=r.choice([1, 2, 3]),
                       exact=exact_in_double, degenerate='wide integer values')
        return
    R.do('c = CQM()')
    extra = [l for l in LABELS if l not in labels][:1]
    for l in extra:
        R.do(f'c.add_variable("INTEGER", {l!r}, lower_bound=-4194304, upper_bound=4194304)')
    if kind == 'cqm-objective':
        R.do('c.set_objective(q)')
        target, site = 'c.objective', 'CQM.objective.energies'
    else:
        R.do(f'c.add_constraint_from_model(q, {r.choice(["<=", ">=", "=="])!r}, {fl(q8(r))}, label="k")')
        target, site = 'c.constraints["k"].lhs', 'CQM.constraint.lhs.energies'
    c = R['c']
    t = R.ev(target)
    vts.update({l: 'INTEGER' for l in extra})

    def mirror(d_rows, d_labels, t=t):
        order = list(t.variables)
        l, a, o = qmb_tokens(t, order=order, r=r)
        vars_tok = ','.join(str(c.variables.index(v)) for v in order) or '-'
        return f'exprenergies {vars_tok}|{l}|{a}|{o} {labs(c.variables)} {rows_tok(d_rows)} {labs(d_labels)}'
    check_energies(ctx, r, B, R, target, site, list(t.variables), labels + extra, dom, mirror, all_dtypes=True,
                   nrows=r.choice([1, 2, 3]), exact=exact_in_double, degenerate='wide integer values')



# ------------------------------------------------------------------------------------------ range-labelled CQM (round 7)

def case_cqm_range(ctx, r, B):
    """A CQM whose variables are labelled exactly 0..n-1 in order (registered up front, learned from the objective, or relabelled
    into that state), whose objective / constraints were written in OTHER variable orders (so the expression's private order is a
    non-identity permutation of the parent's order, spanning every variable or a subset), evaluated on samples labelled exactly
    0..k-1 in order (k = n or n+1): unlabelled arrays and lists, (array, range), dicts / lists of dicts / SampleSets with sorted
    integer keys — the inputs for which a label lookup could be skipped — next to the same rows in a shuffled column order."""
    R = Recipe()
    n = r.choice([1, 2, 2, 3, 3, 4, 5])
    how = r.choice(['add_variable', 'add_variable', 'objective first', 'relabel'])
    tmp = {i: (LABELS[4:] + ['z9'])[i] if how == 'relabel' else i for i in range(n)}
    vts = {i: r.choice(['BINARY', 'SPIN', 'INTEGER', 'INTEGER']) for i in range(n)}
    R.do('c = CQM()')

    def addvar(obj, i):
        return (f'{obj}.add_variable({vts[i]!r}, {tmp[i]!r}' + (', lower_bound=-4, upper_bound=8)' if vts[i] == 'INTEGER' else ')'))
    if how != 'objective first':
        for i in range(n):
            R.do(addvar('c', i))
    targets = []
    nexpr = r.choice([1, 2, 3])
    for ei in range(nexpr + 1):
        if ei == 0 and how == 'objective first':
            sub = list(range(n))            # the CQM learns 0..n-1 from the objective
        else:
            full = r.random() < .6
            sub = perm_of(r, range(n)) if full else perm_of(r, [i for i in range(n) if r.random() < .6])
        R.do(f'q{ei} = QM()')
        for i in sub:
            R.do(addvar(f'q{ei}', i))
            R.do(f'q{ei}.set_linear({tmp[i]!r}, {fl(q8(r))})')
        for _ in range(r.choice([0, 1, 2, 4]) if sub else 0):
            u, v = r.choice(sub), r.choice(sub)
            if u == v and vts[u] != 'INTEGER':
                continue
            R.do(f'q{ei}.add_quadratic({tmp[u]!r}, {tmp[v]!r}, {fl(q8(r))})')
        R.do(f'q{ei}.offset = {fl(q8(r))}')
        if ei == 0:
            R.do('c.set_objective(q0)')
            targets.append(('c.objective', 'CQM.objective.energies', sub))
        else:
            R.do(f'c.add_constraint_from_model(q{ei}, {r.choice(["<=", ">=", "=="])!r}, {fl(q8(r))}, label={f"k{ei}"!r})')
            targets.append((f'c.constraints[{f"k{ei}"!r}].lhs', 'CQM.constraint.lhs.energies', sub))
    if how == 'relabel':
        R.do(f'c.relabel_variables({ {tmp[i]: i for i in range(n)}!r})')
    c = R['c']
    if list(c.variables) != list(range(n)):
        ctx.tick('range-cqm: variables not 0..n-1 (dropped)')
        return
    k = n + r.choice([0, 0, 0, 1])
    dom = lambda i: domain(vts[i]) if i in vts else [0, 1]  # noqa
    nrows = r.choice([1, 2, 3])
    rows = [{i: r.choice(dom(i)) for i in range(k)} for _ in range(nrows)]
    mat = [[row[i] for i in range(k)] for row in rows]
    sperm = perm_of(r, range(k))
    smat = [[row[i] for i in sperm] for row in rows]
    encs = [('array (unlabelled)', f'np.array({mat!r})', rows), ('float array (unlabelled)', f'np.array({mat!r}, dtype=float)', rows),
            ('list (unlabelled)', repr(mat), rows), ('array+range', f'(np.array({mat!r}), range({k}))', rows),
            ('array+sorted list', f'(np.array({mat!r}), {list(range(k))!r})', rows),
            ('dicts sorted keys', '[' + ', '.join(dict_lit(row, list(range(k))) for row in rows) + ']', rows),
            ('dict sorted keys', dict_lit(rows[0], list(range(k))), rows[:1]),
            ('sampleset sorted', f'SampleSet.from_samples((np.array({smat!r}), {sperm!r}), "INTEGER", energy={[0] * nrows!r}, sort_labels=True)', rows),
            ('sampleset unsorted', f'SampleSet.from_samples((np.array({mat!r}), {list(range(k))!r}), "INTEGER", energy={[0] * nrows!r}, sort_labels=False)', rows),
            ('array+shuffled labels', f'(np.array({smat!r}), {sperm!r})', rows)]
    for target, site, sub in targets:
        t = R.ev(target)
        order = list(t.variables)
        permuted = order != sorted(order)
        ic = ('CQM and samples both labelled 0..k-1; expression order ' + ('permuted' if permuted else 'ascending') +
              ('' if len(order) == n else ' (subset)') + ('' if k == n else '; sample has an extra column'))
        if permuted and len(order) == k:
            ctx.tick('range-cqm: permuted expression spanning every column')
        for name, expr, erows in encs:
            ctx.tick(f'{site}:range:{name}')
            ctx.case((site, tuple(R.lines[4:]), target, expr), nontrivial=bool(order))
            repro = R.script(f't = {target}\nenc = {expr}\nrows = {erows!r}\ngot = [F(e) for e in t.energies(enc)]\n'
                             'exp = [poly_value(t, row) for row in rows]\nassert got == exp, (got, exp)\n')
            try:
                got = [F(e) for e in t.energies(R.ev(expr))]
            except Exception as e:  # noqa
                ctx.fail('property', site, ic, f'{type(e).__name__}: {e} ({name})', repro=repro)
                continue
            exp = [poly_value(t, row) for row in erows]
            if got != exp:
                ctx.fail('property', site, ic, f'{name}: energies {list(map(str, got))} but the polynomial of the reported coefficients gives '
                         f'{list(map(str, exp))}; expression order {order}', repro=repro, detail=dict(encoding=expr))
                continue
            if len(erows) == 1 and name.startswith('dict'):
                try:
                    e1 = F(t.energy(R.ev(expr)))
                except Exception as e:  # noqa
                    e1 = repr(e)
                if e1 != exp[0]:
                    ctx.fail('property', site.replace('energies', 'energy'), ic, f'energy({expr}) = {e1}, reported polynomial {exp[0]}',
                             repro=R.script(f't = {target}\nassert F(t.energy({expr})) == poly_value(t, {erows[0]!r})\n'))
            d_rows, d_labels = real_as_samples(R.ev(expr))
            l, a, o = qmb_tokens(t, order=order, r=r)
            vars_tok = ','.join(str(c.variables.index(v)) for v in order) or '-'
            B.add(f'exprenergies {vars_tok}|{l}|{a}|{o} {labs(c.variables)} {rows_tok(d_rows)} {labs(d_labels)}', enc_energies(got), site, ic,
                  f'{target}.energies({expr})', detail=dict(model=R.lines[4:]))
        # a sample (labelled 0..n-2) that omits the last variable must still be rejected
        if n >= 2 and (n - 1) in order:
            for bad in (dict_lit(rows[0], list(range(n - 1))), repr(mat[0][:n - 1])):
                ctx.tick(f'{site}:range:missing')
                ctx.case((site, tuple(R.lines[4:]), target, 'missing', bad), nontrivial=True)
                try:
                    got = t.energies(R.ev(bad))
                except Exception:  # noqa
                    continue
                ctx.fail('property', site, 'sample omits a variable', f'accepted {bad} (no value for {n - 1}) -> {list(got)}',
                         repro=R.script(f't = {target}\ntry:\n    t.energies({bad})\nexcept Exception:\n    pass\nelse:\n    raise AssertionError("accepted")\n'))


# ------------------------------------------------------------------------------------------ integer-width boundaries (round 7)

WIDTHS = (7, 15, 31)


def boundary_value(r, w=None):
    """a value at the edge of a signed integer width: ±2^w, ±(2^w - 1), ±(2^w + 1)"""
    w = r.choice(WIDTHS) if w is None else w
    return w, r.choice([1, 1, 1, -1]) * (2 ** w + r.choice([0, 0, 0, -1, 1]))


def case_dtype_boundary(ctx, r, B):
    """samples given WITHOUT a dtype (dict, list of dicts, nested list, (list, labels), one-shot iterables): as_samples picks the
    smallest signed integer type from the largest magnitude.  For every width w in {7, 15, 31} one entry of the sample array is
    ±2^w, ±(2^w-1) or ±(2^w+1) and every other entry is smaller in magnitude, so the choice is decided by exactly that entry."""
    R = Recipe()
    w, bv = boundary_value(r)
    n = r.choice([1, 2, 2, 3])
    labels = r.sample(LABELS, n)
    big = labels[0]
    kind = r.choice(['qm', 'cqm-objective', 'cqm-constraint'])
    R.do('q = QM()')
    vts = {}
    for l in labels:
        vts[l] = 'INTEGER' if l == big or r.random() < .5 else 'BINARY'
        R.do(f'q.add_variable({vts[l]!r}, {l!r}' + (f', lower_bound=-{2 ** 40}, upper_bound={2 ** 40})' if vts[l] == 'INTEGER' else ')'))
        R.do(f'q.set_linear({l!r}, {fl(q8(r))})')
    for _ in range(r.choice([0, 1, 2, 3])):
        u, v = r.choice(labels), r.choice(labels)
        if u == v and (vts[u] != 'INTEGER' or (u == big and w > 15)):
            continue
        R.do(f'q.add_quadratic({u!r}, {v!r}, {fl(q8(r))})')
    R.do(f'q.offset = {fl(q8(r))}')
    small = [-3, 0, 2, 7, 100, -100] if w > 7 else [-3, 0, 2, 7]
    state = {'first': True}

    def dom(l):
        if l == big and state['first']:
            state['first'] = False
            return [bv]
        return small if vts.get(l, 'INTEGER') == 'INTEGER' else [0, 1]
    ctx.tick(f'boundary: 2^{w}' + ('' if abs(bv) == 2 ** w else '-1' if abs(bv) < 2 ** w else '+1') + (' negative' if bv < 0 else ' positive'))
    deg = f'largest magnitude in the sample array is {"+" if bv > 0 else "-"}2^{w}' + ('' if abs(bv) == 2 ** w else '-1' if abs(bv) < 2 ** w else '+1')
    if kind == 'qm':
        m = R['q']

        def mirror(d_rows, d_labels):
            l, a, o = qmb_tokens(m, r=r)
            return f'cyenergies {l} {a} {o} {labs(m.variables)} {rows_tok(d_rows)} {labs(d_labels)}'
        check_energies(ctx, r, B, R, 'q', 'QM.energies', labels, labels, dom, mirror, all_dtypes=True, nrows=r.choice([1, 2, 3]),
                       exact=exact_in_double, degenerate=deg)
        return
    R.do('c = CQM()')
    if kind == 'cqm-objective':
        R.do('c.set_objective(q)')
        target, site = 'c.objective', 'CQM.objective.energies'
    else:
        R.do(f'c.add_constraint_from_model(q, {r.choice(["<=", ">=", "=="])!r}, {fl(q8(r))}, label="k")')
        target, site = 'c.constraints["k"].lhs', 'CQM.constraint.lhs.energies'
    c = R['c']
    t = R.ev(target)

    def mirror(d_rows, d_labels, t=t):
        order = list(t.variables)
        l, a, o = qmb_tokens(t, order=order, r=r)
        vars_tok = ','.join(str(c.variables.index(v)) for v in order) or '-'
        return f'exprenergies {vars_tok}|{l}|{a}|{o} {labs(c.variables)} {rows_tok(d_rows)} {labs(d_labels)}'
    check_energies(ctx, r, B, R, target, site, list(t.variables), labels, dom, mirror, all_dtypes=True,
                   nrows=r.choice([1, 2, 3]), exact=exact_in_double, degenerate=deg)


# ------------------------------------------------------------------------------------------ held (stale) views

def case_stale_view(ctx, r, B):
    """a `.spin` / `.binary` view object taken BEFORE the vartypes were made to coincide (base changed in place, or the view
    re-typed in place), or before the base went there and back: energies through the OLD view object, every encoding,
    against the coefficients that same view reports"""
    R = Recipe()
    dtype = r.choice(['np.float64', 'np.float32', 'object'])
    labels, vt = gen_bqm(r, R, dtype=dtype, nmax=4)
    other = 'BINARY' if vt == 'SPIN' else 'SPIN'
    R.do(f'v = m.{other.lower()}   # view object held across the change below')
    way = r.choice(['base changed in place', 'base changed in place', 'view re-typed in place', 'base there and back'])
    if way == 'base changed in place':
        R.do(f'm.change_vartype({other!r}, inplace=True)')
    elif way == 'view re-typed in place':
        R.do(f'v.change_vartype({vt!r}, inplace=True)')
    else:
        R.do(f'm.change_vartype({other!r}, inplace=True)')
        R.do(f'm.change_vartype({vt!r}, inplace=True)')
    m, v = R['m'], R['v']
    vvt, dvt = v.vartype.name, m.vartype.name
    is_py = dtype == 'object'
    site = ('BQM[object]' if is_py else 'BQM[float32]' if dtype == 'np.float32' else 'BQM') + '(held view).energies'
    dom = lambda l: domain(vvt)  # noqa

    def mirror(d_rows, d_labels):
        l, a, o = qmb_tokens(m, r=r)
        ml = labs(m.variables)
        # the model's VartypeView.energies: pass-through when the vartypes coincide, sample map otherwise
        return f'viewenergies {vvt} {dvt} {int(is_py)} {l} {a} {o} {ml} {rows_tok(d_rows)} {labs(d_labels)}'
    check_energies(ctx, r, B, R, 'v', site, labels, labels, dom, mirror, vartype_name=vvt,
                   degenerate=f'held view, {way}' + ('' if labels else ', no variables'), all_dtypes=r.random() < .3)
    # single-sample entry point as well
    if labels:
        row = {l: r.choice(domain(vvt)) for l in labels}
        try:
            e = F(v.energy(row))
            ok = e == poly_value(v, row)
        except Exception as ex:  # noqa
            e, ok = repr(ex), False
        ctx.case((site, 'energy', tuple(R.lines[4:]), repr(row)), nontrivial=True)
        if not ok:
            ctx.fail('property', site.replace('energies', 'energy'), f'held view, {way}', f'energy({row}) = {e}, the view\'s own coefficients give {poly_value(v, row)}',
                     repro=R.script(f'row = {row!r}\nassert F(v.energy(row)) == poly_value(v, row), (v.energy(row), poly_value(v, row))\n'))



# ------------------------------------------------------------------------------------------ every read accessor, CQM histories

def check_reads(ctx, R, target, site, ic, expect=None):
    """every read accessor of `target` reports one polynomial (and, when an independent reference `expect` = (off, lin, quad) is
    tracked, that one).  Returns the reference polynomial the positional path reports, or None."""
    t = R.ev(target)
    bad, ref = ACC.disagreements(t)
    ctx.tick(f'{site}: read accessors compared')
    ctx.case((site, 'reads', tuple(R.lines[4:]), target), nontrivial=len(t.variables) > 0)
    if bad:
        name, text = bad[0]
        ctx.fail('property', site + ' read accessors', f'{ic}; accessor={name.split("(")[0].strip()}',
                 f'{target}: {name}: {text}' + (f' (and {len(bad) - 1} more accessors)' if len(bad) > 1 else ''),
                 repro=R.script(ACC.repro_src(target)), detail=dict(all=[f'{n}: {x}' for n, x in bad[:8]]))
        return None
    if expect is not None and ref != expect:
        ctx.fail('property', site + ' read accessors', f'{ic}; against the coefficients written',
                 f'{target}: every accessor reports {ACC.show(ref)} but the operations applied give {ACC.show(expect)}',
                 repro=R.script(ACC.repro_src(target) + f'assert ref == {expect!r}, (ref, "written", {expect!r})\n'))
        return None
    return ref


def expr_state(c, t):
    """what expression `t` of CQM `c` reports, in model indices: (vars, positional linear, iter_quadratic triples, offset)"""
    mv = list(c.variables)
    ev = list(t.variables)
    return ([mv.index(v) for v in ev], [F(t.get_linear(v)) for v in ev],
            [(mv.index(u), mv.index(v), F(b)) for u, v, b in t.iter_quadratic()], F(t.offset))


def case_cqm_history(ctx, r, B):
    """one CQM, expressions in private variable orders, 1-5 in-place operations; after every step every expression: all read
    accessors give one polynomial, it is the one the operations applied define, and energies is its value.
    The whole history runs in a forked copy first: an assertion / segfault of the code under test is reported as a crash
    with the script up to the fatal call instead of killing the harness."""
    dead = HIST.canary(lambda: cqm_history_body(ctx, r, Batch(ctx), HIST.LoggedRecipe()))
    if dead is not None:
        sig, lines = dead
        last = lines[-1] if lines else '?'
        m = __import__('re').search(r'\.(\w+)\(', last)
        ctx.tick('history: interpreter killed in the forked copy')
        ctx.case(('CQM history', 'killed', tuple(lines)), nontrivial=True)
        ctx.fail('crash', 'CQM.' + (m.group(1) if m else 'history'),
                 'in-place history on one CQM whose expressions list their variables in a private order',
                 f'the interpreter was killed by signal {sig} in `{last}` (failed assertion / memory error in the code under test)',
                 repro='\n'.join(list(HIST.HEADER) + lines) + '\n', detail=dict(script=lines))
        for _ in range(40):      # the generator state of this process is untouched: move on
            r.random()
        return
    R = Recipe()
    try:
        cqm_history_body(ctx, r, B, R)
    except Exception as e:  # noqa   a read accessor of a model the public mutators produced must not raise
        if not R.ns.get('c'):
            raise
        ctx.fail('property', 'CQM expression read accessors', 'in-place history on one CQM whose expressions list their variables in a private order; '
                 'reading the model raised', f'{type(e).__name__}: {e} while reading variables / coefficients / energies after `{R.lines[-1]}`',
                 repro=R.script(ACC.repro_src('c.objective') + 'for k_ in c.constraints:\n    t = c.constraints[k_].lhs\n    list(t.variables)\n'
                                '    bad, ref = disagreements(t)\n    assert not bad, bad\n'))


def cqm_history_body(ctx, r, B, R):
    st = HIST.build(r, R)
    nsteps = r.randint(1, 5)
    what, facts = 'fresh model', {}
    pending = []        # (target, driver line prefix) captured right before a single-variable removal

    def before(kind, v, a, only):
        c = R['c']
        n = len(c.variables)
        g = list(c.variables).index(v)
        op = f'R:{g}' if kind == 'R' else f'V:{g}' if kind == 'V' else f'F:{g}:{rat(F(a))}'
        for target in ([only] if only else st['targets']):
            vs, lin, quad, off = expr_state(c, R.ev(target))
            qt = ','.join(f'{u}:{w}:{rat(b)}' for u, w, b in quad) or '-'
            if kind in 'RF':
                # which branches of Expression::reindex_variables(g) this call takes on this expression
                start = vs.index(g) if g in vs else len(vs)
                rest = [u for u in vs if u != g]
                ctx.tick('reindex_variables: v ' + ('present' if g in vs else 'absent'))
                if any(u > g for u in rest[:start]):
                    ctx.tick('reindex_variables: loop 2 re-inserts a shifted label (guard true)')
                if any(u < g for u in rest[:start]):
                    ctx.tick('reindex_variables: loop 2 leaves an entry (guard false)')
                if any(u == g + 1 for u in rest[:start]):
                    ctx.tick('reindex_variables: loop 2 meets the successor of v (label == v after the shift)')
                if rest[start:]:
                    ctx.tick('reindex_variables: loop 3 runs')
                if any(u > g for u in rest):
                    ctx.tick('reindex_variables: loop 1 erases and decrements')
            pending.append((target, f'exprstep {n} {",".join(map(str, vs)) or "-"} {rats(lin)} {qt} {rat(off)} {op}'))

    for k in range(nsteps + 1):
        c = R['c']
        mv = list(c.variables)
        vts = st['vts'] = {v: c.vartype(v).name for v in mv}
        fact_txt = ''.join(f'; {f}' for f, on in sorted(facts.items()) if on)
        # (i) the model of the step just executed, on the state the expression reported before it
        x = {l: r.choice(domain(vts[l])) for l in mv}
        for target, prefix in pending:
            t = R.ev(target)
            if not exact_in_double(t, x):
                continue
            site = 'CQM.objective' if target == 'c.objective' else 'CQM.constraint.lhs'
            lin = [F(t.get_linear(v)) for v in mv]
            quad = []
            for gi, u in enumerate(mv):
                for hi in range(gi, len(mv)):
                    try:
                        b = F(t.get_quadratic(u, mv[hi], default=0))
                    except ValueError:
                        b = 0
                    if b:
                        quad.append((gi, hi, b))
            pval = F(t.offset) + sum(b * F(x[mv[g]]) for g, b in enumerate(lin)) + sum(b * F(x[mv[g]]) * F(x[mv[h]]) for g, h, b in quad)
            expect = (f'vars={",".join(str(mv.index(v)) for v in t.variables) or "-"} lin={rats(lin)} '
                      f'quad={",".join(f"{g}:{h}:{rat(b)}" for g, h, b in quad) or "-"} e={rat(F(t.energy(x)))} p={rat(pval)}')
            B.add(f'{prefix} {len(mv)} {rats([x[l] for l in mv])}', expect, site + ' read accessors',
                  f'after {what}; expression written in {st["styles"][target]} order{fact_txt}',
                  f'{target} after the step: variables, label readings, energy', detail=dict(model=R.lines[4:]), driver='exprreadsdriver')
        pending.clear()
        for target in st['targets']:
            site = 'CQM.objective' if target == 'c.objective' else 'CQM.constraint.lhs'
            style = st['styles'][target]
            ic = f'after {what}; expression written in {style} order{fact_txt}'
            ctx.tick(f'history: {what}{fact_txt}')
            refx = st['refs'][target]
            t = R.ev(target)
            ev = list(t.variables)
            if sorted(map(repr, ev)) != sorted(map(repr, refx.vars)):
                ctx.fail('property', site + ' read accessors', f'{ic}; variables', f'{target}.variables = {ev} but the operations applied leave {refx.vars}',
                         repro=R.script(f'assert sorted(map(repr, {target}.variables)) == {sorted(map(repr, refx.vars))!r}, list({target}.variables)\n'))
                return
            ref = check_reads(ctx, R, target, site, ic, expect=refx.poly())
            if ref is None:
                return
            # energies = the value of that polynomial, dict rows and a labelled array in shuffled column order
            rows = [{l: r.choice(domain(vts[l])) for l in mv} for _ in range(2)]
            if not all(exact_in_double(t, row) for row in rows):
                continue
            expect = [refx.value(row) for row in rows]
            perm = perm_of(r, mv)
            for name, enc_expr in (('dicts', '[' + ', '.join(dict_lit(row, perm_of(r, mv)) for row in rows) + ']'),
                                   ('array+labels', f'(np.array({[[float(row[l]) for l in perm] for row in rows]!r}).reshape(2, {len(perm)}), {perm!r})')):
                ctx.tick(f'{site}.energies (history):{name}')
                ctx.case((site, 'history', tuple(R.lines[4:]), target, enc_expr), nontrivial=bool(ev))
                repro = R.script(ACC.repro_src(target) + textwrap.dedent(f'''
                    got = [F(e) for e in t.energies({enc_expr})]
                    exp = [value(ref, row) for row in {rows!r}]
                    assert got == exp, ('energies', got, 'polynomial of the reported coefficients', exp)
                    '''))
                try:
                    got = [F(e) for e in t.energies(R.ev(enc_expr))]
                except Exception as e:  # noqa
                    ctx.fail('property', site + '.energies', ic, f'{type(e).__name__}: {e} for samples that assign every variable of the model', repro=repro)
                    return
                if got != expect:
                    ctx.fail('property', site + '.energies', f'{ic}; encoding={name}', f'energies {list(map(str, got))} but the polynomial every accessor '
                             f'reports gives {list(map(str, expect))}', repro=repro, detail=dict(encoding=enc_expr))
                    return
                if name == 'dicts':
                    d_rows, d_labels = real_as_samples(R.ev(enc_expr))
                    order = list(t.variables)
                    l, a, o = qmb_tokens(t, order=order, r=r)
                    vars_tok = ','.join(str(c.variables.index(v)) for v in order) or '-'
                    B.add(f'exprenergies {vars_tok}|{l}|{a}|{o} {labs(c.variables)} {rows_tok(d_rows)} {labs(d_labels)}', enc_energies(got), site + '.energies', ic,
                          f'{target}.energies({enc_expr})', detail=dict(model=R.lines[4:]))
        if k == nsteps:
            break
        res = None
        for _ in range(6):
            res = HIST.step(r, R, st, before=before)
            if res is not None:
                break
        if res is None:
            break
        what, facts = res


# ------------------------------------------------------------------------------------------ label -> column resolution

def vstate_tok(v):
    """sparse internal state of a `Variables` object in the driver's format: stop|idx=label,...|label=idx,..."""
    i2l, l2i, stop = v.__reduce__()[2][:3]
    a = ','.join(f'{int(i)}={lab(l)}' for i, l in i2l.items()) or '-'
    b = ','.join(f'{lab(l)}={int(i)}' for l, i in l2i.items()) or '-'
    return f'{stop}|{a}|{b}'


def case_range_labels(ctx, r, B):
    """array back-ends whose variables are integers NOT stored as 0..n-1 ascending (or a subset of the sample's range),
    evaluated on samples labelled exactly 0..k-1: unlabelled arrays, (array, range), dicts / lists of dicts with sorted
    integer keys, SampleSets with sorted labels.  Both `Variables` objects go to the model in their sparse form."""
    from dimod.variables import Variables
    R = Recipe()
    k = r.choice([1, 2, 3, 4, 5])
    sub = r.random() < .35
    mlabels = perm_of(r, r.sample(range(k), r.randint(1, k)) if sub else range(k))
    kindm = r.choice(['bqm64', 'bqm32', 'qm'])
    # how the model came to store its variables out of order: added in that order, or added as 0..n-1 and relabelled
    # (a different sparse state of the `Variables` object: `_relabel` writes both maps)
    build = r.choice(['insert', 'insert', 'relabel'])
    tmp = {l: (i if build == 'relabel' else l) for i, l in enumerate(mlabels)}
    if kindm == 'qm':
        R.do('m = QM()')
        vts = {}
        for l in mlabels:
            vts[l] = r.choice(['BINARY', 'SPIN', 'INTEGER'])
            R.do(f'm.add_variable({vts[l]!r}, {tmp[l]!r}' + (', lower_bound=-4, upper_bound=8)' if vts[l] == 'INTEGER' else ')'))
            R.do(f'm.set_linear({tmp[l]!r}, {fl(q8(r))})')
        dom = lambda l: domain(vts[l]) if l in vts else [0, 1]  # noqa
        site = 'QM.energies'
    else:
        vt = r.choice(['SPIN', 'BINARY'])
        R.do(f'm = BQM({vt!r}, dtype={"np.float64" if kindm == "bqm64" else "np.float32"})')
        for l in mlabels:
            R.do(f'm.add_variable({tmp[l]!r}, {fl(q8(r))})')
        vts = {l: vt for l in mlabels}
        dom = lambda l: domain(vt)  # noqa
        site = 'BQM.energies' if kindm == 'bqm64' else 'BQM[float32].energies'
    for _ in range(r.choice([0, 1, 2, 4])):
        u, v = r.choice(mlabels), r.choice(mlabels)
        if u == v and vts[u] != 'INTEGER':
            continue
        R.do(f'm.add_quadratic({tmp[u]!r}, {tmp[v]!r}, {fl(q8(r))})')
    R.do(f'm.offset = {fl(q8(r))}')
    if build == 'relabel':
        R.do(f'm.relabel_variables({ {t: l for l, t in tmp.items() if t != l}!r}, inplace=True)')
        ctx.tick('range: model relabelled into its order')
    m = R['m']
    nrows = r.choice([1, 2, 3])
    rows = [{l: r.choice(dom(l)) for l in range(k)} for _ in range(nrows)]
    mat = [[row[l] for l in range(k)] for row in rows]
    sperm = perm_of(r, range(k))
    encs = [('array (unlabelled)', f'np.array({mat!r})'), ('list (unlabelled)', repr(mat)),
            ('array+range', f'(np.array({mat!r}), range({k}))'), ('array+sorted list', f'(np.array({mat!r}), {list(range(k))!r})'),
            ('dicts sorted keys', '[' + ', '.join(dict_lit(row, list(range(k))) for row in rows) + ']'),
            ('dict sorted keys', dict_lit(rows[0], list(range(k)))),
            ('sampleset sorted', f'SampleSet.from_samples((np.array({[[row[l] for l in sperm] for row in rows]!r}), {sperm!r}), "INTEGER", energy={[0] * nrows!r}, sort_labels=True)')]
    ic = 'integer labels stored out of order, samples labelled 0..k-1' + (' (model uses a subset)' if sub else '')
    for name, expr in encs:
        erows = rows[:1] if name == 'dict sorted keys' else rows
        ctx.tick(f'{site}:{name}')
        ctx.case((site, tuple(R.lines[4:]), expr), nontrivial=True)
        repro = R.script(f'enc = {expr}\nrows = {erows!r}\ngot = [F(e) for e in m.energies(enc)]\n'
                         'exp = [poly_value(m, row) for row in rows]\nassert got == exp, (got, exp)\n')
        try:
            got = [F(e) for e in m.energies(R.ev(expr))]
        except Exception as e:  # noqa
            ctx.fail('property', site, ic, f'{type(e).__name__}: {e} ({name})', repro=repro)
            continue
        exp = [poly_value(m, row) for row in erows]
        if got != exp:
            ctx.fail('property', site, ic, f'{name}: energies {list(map(str, got))} but the reported polynomial gives {list(map(str, exp))}', repro=repro)
            continue
        arr, slabels = dimod.as_samples(R.ev(expr), labels_type=Variables)
        l_, a_, o_ = qmb_tokens(m, r=r)
        B.add(f'cyenergiesv {l_} {a_} {o_} {vstate_tok(m.variables)} {rows_tok([[F(x) for x in rr] for rr in np.asarray(arr).tolist()])} {vstate_tok(slabels)}',
              enc_energies(got), site, ic, f'm.energies({expr})', detail=dict(model=R.lines[4:]))


# ------------------------------------------------------------------------------------------ DQM

DQM_ORACLE = ''



def dqm_value(d, row):
    e = F(d.offset)
    vs = list(d.variables)
    for v in vs:
        e += F(d.get_linear_case(v, row[v]))
    for i, u in enumerate(vs):
        for v in vs[:i]:
            try:
                e += F(d.get_quadratic_case(u, row[u], v, row[v]))
            except Exception:  # noqa  no interaction between the variables
                pass
    return e


def dqm_tokens(d):
    import warnings
    with warnings.catch_warnings():
        warnings.simplefilter('ignore')
        starts, lin, (irow, icol, qdata), _labels = d.to_numpy_vectors()
    ncase = len(lin)
    adj = [[] for _ in range(ncase)]
    for a, b, x in zip(irow, icol, qdata):
        adj[int(a)].append((int(b), x)); adj[int(b)].append((int(a), x))
    adj = [sorted(nb) for nb in adj]
    vadj = [list(map(int, d._cydqm.adj[i])) for i in range(d.num_variables())]
    st = ','.join(str(int(s)) for s in list(starts) + [ncase]) or '0'
    va = ';'.join((','.join(map(str, nb)) if nb else '.') for nb in vadj) or '-'
    return f'{rats(lin)} {adj_tok(adj, True)} {st} {va} {rat(F(d.offset))}'


def case_dqm(ctx, r, B, children):
    R = Recipe()
    n = r.choice([0, 1, 2, 3, 4])
    labels = r.sample(LABELS, n)
    R.do('d = DQM()')
    cases = {}
    for l in labels:
        cases[l] = r.randint(1, 4)
        R.do(f'd.add_variable({cases[l]}, {l!r})')
        if r.random() < .8:
            R.do(f'd.set_linear({l!r}, {[q8(r) for _ in range(cases[l])]!r})')
    if n >= 2:
        for _ in range(r.choice([0, 1, 2, 4, 6])):
            u, v = r.sample(labels, 2)
            R.do(f'd.set_quadratic_case({u!r}, {r.randrange(cases[u])}, {v!r}, {r.randrange(cases[v])}, {fl(q8(r))})')
    if r.random() < .8:
        R.do(f'd.offset = {fl(q8(r))}')
    d = R['d']
    dom = lambda l: list(range(cases[l]))  # noqa

    def mirror(d_rows, d_labels):
        return f'dqm {dqm_tokens(d)} {labs(d.variables)} {introws_tok(d_rows)} {labs(d_labels)}'
    # no extra labels: DQM.energies insists on exactly its variables
    t = d
    rows = sample_rows(r, labels, dom, [])
    expect = [dqm_value(d, row) for row in rows]
    shape = 'no variables' if not labels else 'no interactions' if d.num_variable_interactions() == 0 else 'general'
    for name, enc_expr, info in encodings(r, rows, labels, 'INTEGER', allow_float=False):
        if name == 'sampleset' and not labels:
            continue
        site = 'DQM.energies'
        ctx.tick(f'{site}:{name}')
        ic = shape if shape != 'general' else f'general; encoding={name}' + (f' ({info["orders"]})' if 'orders' in info else '')
        repro = R.script(DQM_ORACLE + textwrap.dedent(f'''
            enc = {enc_expr}
            rows = {rows!r}
            got = [F(e) for e in d.energies(enc)]
            exp = [dqm_value(d, row) for row in rows]
            assert got == exp, (got, exp)
            '''))
        try:
            got = [F(e) for e in d.energies(R.ev(enc_expr))]
        except Exception as e:  # noqa
            ctx.case((site, tuple(R.lines[4:]), enc_expr), nontrivial=True)
            if name.startswith('dicts') and as_samples_wrong(enc_expr.replace('iter(', '('), rows, R.ns):
                ctx.fail('property', 'as_samples', 'list of dicts in differing key orders',
                         f'{site}: {type(e).__name__} because as_samples delivers other values than the input assigns; input {enc_expr}', repro=repro)
            else:
                ctx.fail('property', site, ic, f'{type(e).__name__}: {e} for valid cases', repro=repro)
            continue
        ctx.case((site, tuple(R.lines[4:]), enc_expr), nontrivial=bool(rows) and bool(labels))
        if got != expect:
            if name.startswith('dicts') and as_samples_wrong(enc_expr.replace('iter(', '('), rows, R.ns):
                ctx.fail('property', 'as_samples', 'list of dicts in differing key orders',
                         f'{site}: wrong energies because as_samples delivers other values than the input assigns; input {enc_expr}', repro=repro)
            else:
                ctx.fail('property', site, ic, f'energies {list(map(str, got))} but the reported cases give {list(map(str, expect))}', repro=repro)
            continue
        try:
            d_rows, d_labels = real_as_samples(R.ev(enc_expr))
        except Exception:  # noqa
            continue
        B.add(mirror(d_rows, d_labels), enc_energies(got), site, ic, f'd.energies({enc_expr})', detail=dict(model=R.lines[4:]))
    # error clauses: a missing variable; a case outside the range (evaluated in a child: the unchecked read may abort)
    if labels:
        row = {l: r.randrange(cases[l]) for l in labels}
        v = r.choice(labels)
        kindbad = r.choice(['missing', 'case == num_cases', 'case > num_cases', 'negative case', 'negative case', 'case == -num_cases',
                            'case below the total', 'case below the total'])
        if kindbad == 'missing':
            bad = {l: x for l, x in row.items() if l != v}
        else:
            bad = dict(row)
            total = sum(cases.values())
            if kindbad == 'case below the total' and total <= cases[v]:
                kindbad = 'case == num_cases'
            bad[v] = {'case == num_cases': cases[v], 'case > num_cases': cases[v] + r.randint(1, 40), 'negative case': -r.randint(1, 3),
                      'case == -num_cases': -cases[v],
                      'case below the total': r.randint(cases[v], max(cases[v], total - 1))}[kindbad]   # in another variable's range
        ctx.tick('DQM.energies:' + kindbad)
        ctx.case(('DQM.bad', tuple(R.lines[4:]), repr(bad)), nontrivial=True)
        enc_expr = dict_lit(bad, list(bad))
        script = R.script(DQM_ORACLE + textwrap.dedent(f'''
            try:
                e = d.energies({enc_expr})
            except Exception as ex:
                print('RAISED', type(ex).__name__)
            else:
                print('ACCEPTED', list(e))
                raise AssertionError('out-of-range / incomplete sample accepted: %r' % (list(e),))
            '''))
        line = mirror([[F(bad[l]) for l in bad]], list(bad))
        children.append((script, 'DQM.energies', 'sample omits a variable' if kindbad == 'missing' else
                         ('negative case' if 'negative' in kindbad or kindbad == 'case == -num_cases' else
                          'case >= num_cases(u) but below the total number of cases' if kindbad == 'case below the total' else 'case >= num_cases'),
                         f'd.energies({enc_expr}) with cases {cases}', line, dict(model=R.lines[4:])))
    else:
        ctx.tick('DQM.energies:no variables')


# ------------------------------------------------------------------------------------------ polynomial


def poly_sum(p, row):
    e = Fraction(0)
    for term, bias in p.items():
        x = F(bias)
        for v in term:
            x *= F(row[v])
        e += x
    return e


def case_poly(ctx, r, B):
    R = Recipe()
    vt = r.choice(['SPIN', 'BINARY'])
    n = r.choice([0, 1, 2, 3, 4, 5])
    labels = r.sample(LABELS, n)
    terms = {}
    for _ in range(r.choice([0, 1, 2, 3, 5, 7])):
        tlen = r.choice([0, 1, 1, 2, 2, 3, 4])
        t = tuple(r.sample(labels, min(tlen, n)))
        terms[t] = q8(r)
    R.do(f'p = BinaryPolynomial({terms!r}, {vt!r})')
    p = R['p']
    used = [l for l in labels if l in p.variables]
    order = list(labels)
    idx = {l: i for i, l in enumerate(order)}
    terms_tok = ';'.join('.'.join(str(i) for i in sorted(idx[v] for v in term)) + '=' + rat(F(b)) for term, b in p.items()) or '-'
    dom = lambda l: domain(vt)  # noqa

    def mirror(d_rows, d_labels):
        return f'poly {terms_tok} {labs(order)} {rows_tok(d_rows)} {labs(d_labels)}'
    check_energies(ctx, r, B, R, 'p', 'BinaryPolynomial.energies', used, labels, dom, mirror,
                   oracle_src='poly_sum(t, row)', oracle=poly_sum, vartype_name=vt,
                   degenerate='no variables' if not used else 'general')
    # the single-sample entry point `BinaryPolynomial.energy(sample)` (dict, and a 1-d labelled array)
    row = {l: r.choice(domain(vt)) for l in labels}
    for name, enc in (('dict', dict_lit(row, perm_of(r, labels))),
                      ('1d+labels', f'(np.array({[row[l] for l in labels]!r}, dtype=np.int8), {labels!r})') if labels else ('dict', dict_lit(row, labels))):
        ctx.tick(f'BinaryPolynomial.energy:{name}')
        ctx.case(('BinaryPolynomial.energy', tuple(R.lines[4:]), enc), nontrivial=bool(used))
        try:
            e = F(p.energy(R.ev(enc)))
        except Exception as ex:  # noqa
            e = f'{type(ex).__name__}: {ex}'
        if e != poly_sum(p, row):
            ctx.fail('property', 'BinaryPolynomial.energy', 'no variables' if not used else f'general; encoding={name}',
                     f'energy({enc}) = {e} but the sum of the terms gives {poly_sum(p, row)}',
                     repro=R.script(f'row = {row!r}\nassert F(p.energy({enc})) == poly_sum(p, row), (p.energy({enc}), poly_sum(p, row))\n'))
            break


def sweep_permutations(ctx, B):
    """thorough tier: every pair of key orders of two dicts over n <= 4 labels (and every column order of a labelled
    array) through `as_samples` and through `BQM.energies`"""
    hdr = 'import numpy as np, dimod\n'
    for n in (2, 3, 4):
        labels = LABELS[3:3 + n]
        vals = [[3, 1, 2, 5][:n], [7, 11, 13, 17][:n]]
        rows = [dict(zip(labels, v)) for v in vals]
        bqm = BQM({l: i + 1 for i, l in enumerate(labels)}, {(labels[0], labels[1]): 0.5}, 0.25, 'BINARY')
        exp = [poly_value(bqm, row) for row in rows]
        for o1 in itertools.permutations(labels):
            for o2 in itertools.permutations(labels):
                expr = '[' + dict_lit(rows[0], list(o1)) + ', ' + dict_lit(rows[1], list(o2)) + ']'
                ctx.tick('sweep:dicts')
                ctx.case(('sweep', expr), nontrivial=True)
                arr, labs_ = dimod.as_samples(eval(expr))
                got = [[F(x) for x in r_] for r_ in arr.tolist()]
                labs_ = list(labs_)
                ok = all(got[ri][labs_.index(l)] == x for ri, row in enumerate(rows) for l, x in row.items())
                ok = ok and [F(e) for e in bqm.energies(eval(expr))] == exp
                if not ok:
                    ctx.fail('property', 'as_samples', 'list of dicts in differing key orders',
                             f'exhaustive sweep: {expr} -> {arr.tolist()} {labs_}',
                             repro=hdr + f'arr, labels = dimod.as_samples({expr})\nrows = {rows!r}\n'
                             'for r, row in enumerate(rows):\n    for l, x in row.items():\n        assert arr[r][list(labels).index(l)] == x\n')
                    return
                B.add('assamples ' + sl_line('dicts', rows, labels, [list(o1), list(o2)]),
                      f'ok {rows_tok(got)} {labs(labs_)}', 'as_samples', 'list of dicts in differing key orders', expr)
            mat = [[row[l] for l in o1] for row in rows]
            e = [F(x) for x in bqm.energies((np.array(mat), list(o1)))]
            ctx.tick('sweep:columns')
            ctx.case(('sweep-col', repr(o1)), nontrivial=True)
            if e != exp:
                ctx.fail('property', 'BQM.energies', 'general; encoding=array+labels', f'column order {o1}: {e} != {exp}',
                         repro=hdr + 'assert False\n')
                return


def sweep_dtype_boundaries(ctx, B):
    """every run: for EVERY signed integer width (8, 16, 32, 64 bits) the six values around ±2^(w-1) that an int64 holds, as the
    extreme entry of integer samples given without a dtype, in every dtype-less form: as_samples must deliver the values it was
    given, and QM / CQM energies at ±2^(w-1) (exact in double) must be the reported polynomial"""
    hdr = 'import warnings; warnings.simplefilter("ignore")\nimport numpy as np, dimod\n'
    ns = {'np': np, 'dimod': dimod}
    for w in (7, 15, 31, 63):
        for bv in (2 ** w, -(2 ** w), 2 ** w - 1, -(2 ** w) + 1, 2 ** w + 1, -(2 ** w) - 1):
            if not -2 ** 63 <= bv <= 2 ** 63 - 1:
                continue
            name = f'{"+" if bv > 0 else "-"}2^{w}' + ('' if abs(bv) == 2 ** w else '-1' if abs(bv) < 2 ** w else '+1')
            for form, expr, mat in (('list', f'[[{bv}, 1], [0, -3]]', [[bv, 1], [0, -3]]), ('list+labels', f'([[1, {bv}]], ["a", "b"])', [[1, bv]]),
                                    ('dict', f'{{"a": {bv}, "b": 2}}', [[bv, 2]]), ('dicts', f'[{{"a": {bv}, "b": 2}}, {{"b": 1, "a": 0}}]', [[bv, 2], [0, 1]]),
                                    ('1-d list', f'[{bv}, 5]', [[bv, 5]])):
                ic = f'integer samples without a dtype; extreme entry {name} ({form})'
                ctx.tick('dtype sweep: ' + name)
                ctx.case(('dtype sweep', expr), nontrivial=True)
                repro = hdr + f'arr, labels = dimod.as_samples({expr})\nassert arr.tolist() == {mat!r}, (arr.dtype, arr.tolist())\n'
                try:
                    arr = np.asarray(dimod.as_samples(eval(expr, ns))[0])
                except Exception as e:  # noqa
                    ctx.fail('property', 'as_samples', ic, f'valid input rejected ({type(e).__name__}: {e}): {expr}', repro=repro)
                    continue
                if arr.tolist() != mat:
                    ctx.fail('property', 'as_samples', ic, f'delivered {arr.tolist()} (dtype {arr.dtype}) for {mat}; input {expr}', repro=repro, detail=dict(input=expr))
                    continue
                if form != 'dicts':
                    B.add(f'samplearray {introws_tok(mat)}', f'ok {arr.dtype.name} {introws_tok(arr.tolist())}', 'sampleset._sample_array', ic, f'as_samples({expr})')
            if abs(bv) != 2 ** w:
                continue
            # energies at ±2^w: 0.5·x + 1·b + off with b = 1, off = 0.25 (b = 0, off = 0 at 2^63, where only x/2 itself is exact in double)
            script = hdr + ('from dimod import QuadraticModel as QM, ConstrainedQuadraticModel as CQM\nq = QM()\n'
                            'q.add_variable("REAL", "x", lower_bound=-1e19, upper_bound=1e19); q.add_variable("BINARY", "b")\n'
                            f'q.set_linear("x", 0.5); q.set_linear("b", 1); q.offset = {0.25 if w < 63 else 0}\n'
                            'c = CQM(); c.set_objective(q); c.add_constraint_from_model(q, "<=", 1, label="k")\n')
            exec(script, ns)
            bval = 1 if w < 63 else 0
            want = Fraction(bv) / 2 + (1 + Fraction(1, 4) if w < 63 else 0)
            for target, site in (('q', 'QM.energies'), ('c.objective', 'CQM.objective.energies'), ('c.constraints["k"].lhs', 'CQM.constraint.lhs.energies')):
                for form, expr in (('dict', f'{{"x": {bv}, "b": {bval}}}'), ('list+labels', f'([[{bval}, {bv}]], ["b", "x"])'), ('dicts', f'[{{"b": {bval}, "x": {bv}}}]')):
                    ic = f'largest magnitude in the sample array is {name}'
                    ctx.tick(f'dtype sweep: {site}')
                    ctx.case(('dtype sweep', target, expr), nontrivial=True)
                    repro = script + f'from fractions import Fraction\ngot = [Fraction(float(e)) for e in {target}.energies({expr})]\nassert got == [Fraction({want.numerator}, {want.denominator})], got\n'
                    try:
                        got = [F(e) for e in eval(f'{target}.energies({expr})', ns)]
                    except Exception as e:  # noqa
                        ctx.fail('property', site, ic, f'{type(e).__name__}: {e} for {expr}', repro=repro)
                        continue
                    if got != [want]:
                        ctx.fail('property', site, ic, f'{form}: energies {list(map(str, got))} but the polynomial of the reported coefficients gives {want}; sample {expr}',
                                 repro=repro, detail=dict(encoding=expr))


def run(ctx):
    r = ctx.rng
    B = Batch(ctx)
    children = []
    n = ctx.scale(700, 12000)
    ctx.rule = ('random models (BQM float64/float32/object + both views, QM incl. squared INTEGER/REAL terms, CQM objective and '
                'constraint left-hand sides over differing variable subsets incl. none, DQM, BinaryPolynomial) x 0-3 rows x every '
                'samples_like encoding (dict, list/iterator of dicts in differing key orders incl. 3-cycles, labelled arrays with '
                'permuted columns, SampleSet, plain arrays); a case = one energies call or one as_samples call; non-trivial = the '
                'model has variables and the call evaluates at least one row; distinct by (construction script, target, encoding)')
    for i in range(n):
        kind = r.choice(['bqm', 'bqm', 'qm', 'qm', 'cqm', 'cqm', 'cqm', 'dqm', 'poly', 'as', 'as', 'as', 'wide', 'wide', 'stale', 'stale', 'range', 'range',
                         'cqmrange', 'cqmrange', 'boundary', 'boundary', 'asforms', 'asforms', 'cqmhist', 'cqmhist', 'cqmhist'])
        ctx.tick('model:' + kind)
        if kind == 'bqm':
            case_bqm(ctx, r, B)
        elif kind == 'qm':
            case_qm(ctx, r, B)
        elif kind == 'cqm':
            case_cqm(ctx, r, B)
        elif kind == 'dqm':
            case_dqm(ctx, r, B, children)
        elif kind == 'poly':
            case_poly(ctx, r, B)
        elif kind == 'wide':
            case_wide(ctx, r, B)
        elif kind == 'stale':
            case_stale_view(ctx, r, B)
        elif kind == 'range':
            case_range_labels(ctx, r, B)
        elif kind == 'cqmrange':
            case_cqm_range(ctx, r, B)
        elif kind == 'boundary':
            case_dtype_boundary(ctx, r, B)
        elif kind == 'asforms':
            check_as_samples_forms(ctx, r, B)
        elif kind == 'cqmhist':
            case_cqm_history(ctx, r, B)
        else:
            check_as_samples(ctx, r, B)
        if len([f for f in ctx.failures if f['kind'] == 'property']) >= 12:
            break
    # out-of-range DQM cases: each in its own interpreter (an unchecked index may abort the process)
    limit = ctx.scale(16, 150)
    for script, site, ic, what, line, detail in children[:limit]:
        rc, out, err = run_child(script)
        if 'RAISED' in out and rc == 0:
            expect = 'err'
        elif 'ACCEPTED' in out:
            expect = 'ok'
            ctx.fail('property', site, ic, f'{what}: evaluated instead of rejected ({out.strip()})', repro=script, detail=detail)
        else:
            expect = 'crash'
            ctx.fail('crash', site, ic, f'{what}: interpreter exited with status {rc}: {err.strip()[-300:]}', repro=script, detail=detail)
        B.add(line, expect, site, ic, what, detail=detail, on_mismatch=lambda g, expect=expect: g.split(' ')[0] == expect or expect != 'err')
    sweep_dtype_boundaries(ctx, B)
    if not ctx.quick:
        sweep_permutations(ctx, B)
    B.flush()
